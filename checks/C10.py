"""C10 — numeric accessors and mutators are exact when representable, else saturating.

Generator: boundary lattices (+-2^31, +-2^32, +-2^53, +-2^63, 2^64, each +-1 and, as doubles, +-1 ulp;
x.5 neighbours of the int32 bounds; subnormals; +-0; +-inf; NaNs), random 64-bit patterns, numeric
and non-numeric strings (every isspace() byte as leading whitespace, signs, overflowing digit
strings, trailing garbage, embedded NUL, empty, strtod-only forms incl. the texts that ARE an infinity),
all five accessors on every node kind, set-then-get, and all (value, increment) pairs of the integer
lattice squared.  Any call may be preceded by an errno preset ("@<c>" prefix): the value and the errno
a call sets must be as documented whatever errno the caller had.

Direct oracle: a Python model of the DOCUMENTED behaviour (json_object.h + the property text), in
exact big-integer arithmetic; it shares nothing with the Coq model.

(node, op) pairs that ended in undefined behaviour / a documented-behaviour failure before the
`fix:` commits (see known_findings.json, status fixed) keep their stable class ids and stay on lines
of their own at the END of the script (a UBSan abort loses the whole line and restarts the driver),
so that a regression is named and every other line is still checked in full.
"""
import ctypes, re, struct, sys, os
sys.path.insert(0, os.path.join(os.path.dirname(os.path.abspath(__file__)), "..", "lib"))
import jvtext

PROP = "C10"
DOMAIN = "num"
LEVEL = "proof"
TECHNIQUE = ("Coq proofs by case analysis + lia over the C-faithful model (NumProofs.v: accessor specs for all node kinds and "
             "values, no-UB, set/get identity, increment exactness for all pairs) + extracted-model/C differential correspondence "
             "under UBSan (float-cast-overflow, signed-integer-overflow) + independent documented-behaviour oracle")
RULE = ("one node in the shared tree text format followed by 1..40 accessor/mutator calls; nodes and arguments from boundary "
        "lattices (powers 2^31/2^32/2^53/2^63/2^64 +-1, +-1 ulp as doubles), random 64-bit patterns and composed strings "
        "(whitespace x sign x digits x tail); increment pairs = integer lattice squared + random; a case is non-trivial when "
        "the implementation produced a complete observation; distinct = distinct script lines.  Plus a small-scope block "
        "ENUMERATED without the PRNG in both tiers: every edge node (ints, uints, doubles, strings whitespace x sign x digits x "
        "tail, containers) x every accessor; every node kind x every setter x every edge argument followed by every accessor; "
        "every (edge value, edge increment) pair followed by every accessor; every history of exactly 4 (thorough 5) increments "
        "over 9 increments from 6 starts; every sequence of exactly 3 (thorough 4) operations over a 16-operation alphabet "
        "from 8 node kinds")
TRUSTED = ["Coq 8.16.1 kernel (coqc), no axioms (Print Assumptions: closed under the global context)",
           "extraction (ExtrOcamlBasic only) + ocaml/drv_num.ml glue",
           "harness/drv_num.c, jvtext.h, gcc -fsanitize=address,undefined,float-cast-overflow",
           "libc strtod: an oracle argument of the model's get_double (the script carries libc's answer, obtained through ctypes); "
           "for plain decimal strings it is cross-checked against Python's correctly rounded float()",
           "hardware int64/uint64 -> double conversion is round-to-nearest-even (modelled by z_to_b64, compared on every run)"]
ASSUMPTIONS = ["default rounding mode (round to nearest even) and the C locale for strtod",
               "glibc strtoll/strtoull semantics (isspace skipping, one optional sign, all digits consumed on overflow, "
               "strtoull negates a '-' value modulo 2^64) as modelled in NumModel.v",
               "string nodes are read as C strings by the accessors (an embedded NUL ends the number text); "
               "get_boolean uses the stored length"]

I32MIN, I32MAX = -(1 << 31), (1 << 31) - 1
I64MIN, I64MAX, U64MAX = -(1 << 63), (1 << 63) - 1, (1 << 64) - 1
NANBITS = 0x7ff8000000000000
B_2P63 = 0x43e0000000000000
B_2P64 = 0x43f0000000000000
WS = b" \t\n\v\f\r"

# ------------------------------------------------------------------ stable finding classes (all fixed in /repo)
CLS_GL = "get_int64_dbl_2p63_ub"          # json_object_get_int64(double 2^63): undefined double->int64 cast
CLS_GU = "get_uint64_dbl_2p64_ub"         # json_object_get_uint64(double 2^64): undefined double->uint64 cast
CLS_INC = "inc_uint_int64min_ub"          # json_object_int_inc(uint64 node, INT64_MIN): -val overflows
CLS_WRAP = "get_uint64_str_neg_wrap"      # get_uint64("\t-5") = 2^64-5: strtoull negation not filtered
CLS_ERRNO = "get_uint64_str_minus_errno0"  # get_uint64("-5" / "-x") fails with errno left 0


# ------------------------------------------------------------------ exact double helpers
def dec(bits):
    s, ex, fr = bits >> 63, (bits >> 52) & 0x7ff, bits & ((1 << 52) - 1)
    if ex == 0x7ff:
        return ("nan",) if fr else ("inf", s)
    return ("fin", s, fr, -1074) if ex == 0 else ("fin", s, fr | (1 << 52), ex - 1075)


def fin_trunc(d):
    _, s, m, e = d
    t = (m << e) if e >= 0 else (m >> (-e))
    return -t if s else t


def fin_cmp(d, c):
    """sign of (value of d) - c, exactly"""
    _, s, m, e = d
    n = -m if s else m
    a, b = (n << e, c) if e >= 0 else (n, c << (-e))
    return (a > b) - (a < b)


def int_to_bits(z):
    return jvtext.dbits(float(z))     # CPython int -> float is correctly rounded (ties to even)


# ------------------------------------------------------------------ libc strtod (the oracle argument)
_libc = ctypes.CDLL(None, use_errno=True)
_libc.strtod.restype = ctypes.c_double
_libc.strtod.argtypes = [ctypes.c_void_p, ctypes.POINTER(ctypes.c_void_p)]
_strtod_cache = {}


def libc_strtod(s):
    """(bits, consumed, erange) of strtod on the C string in s"""
    if s in _strtod_cache:
        return _strtod_cache[s]
    buf = ctypes.create_string_buffer(s)
    end = ctypes.c_void_p()
    ctypes.set_errno(0)
    v = _libc.strtod(ctypes.addressof(buf), ctypes.byref(end))
    er = ctypes.get_errno() == 34
    r = (jvtext.dbits(v), (end.value or ctypes.addressof(buf)) - ctypes.addressof(buf), er)
    _strtod_cache[s] = r
    return r


DECIMAL = re.compile(rb"^[ \t\n\v\f\r]*[+-]?(\d+\.?\d*|\.\d+)([eE][+-]?\d+)?$")


# ------------------------------------------------------------------ documented behaviour
def doc_parse_int(s):
    """documented text -> integer: isspace()*, one optional sign, decimal digits, rest ignored.
    returns (value | None when there are no digits, has_minus)"""
    s = s.split(b"\0")[0]
    i = 0
    while i < len(s) and s[i] in WS:
        i += 1
    neg = False
    if i < len(s) and s[i] in b"+-":
        neg = s[i] == 0x2d
        i += 1
    j = i
    while j < len(s) and 48 <= s[j] <= 57:
        j += 1
    if j == i:
        return None, neg
    v = int(s[i:j])
    return (-v if neg else v), neg


def kind(node):
    if node is None:
        return "null"
    if node is True or node is False:
        return "bool"
    if isinstance(node, bytes):
        return "str"
    if isinstance(node, list):
        return "arr"
    return {"i": "int", "u": "uint", "d": "dbl", "o": "obj"}[node[0]]


def clamp(lo, hi, z):
    return lo if z < lo else hi if z > hi else z


def spec_get_int(node, lo, hi, nanv):
    """(value, set of acceptable errno names)"""
    k = kind(node)
    if k in ("null", "arr", "obj"):
        return 0, {"0"}
    if k == "bool":
        return int(node), {"0"}
    if k in ("int", "uint"):
        z = node[1]
        return clamp(lo, hi, z), {"0" if lo <= z <= hi else "ERANGE"}
    if k == "dbl":
        d = dec(node[1])
        if d[0] == "nan":
            return nanv, {"EINVAL"}
        if d[0] == "inf":
            return (lo if d[1] else hi), {"ERANGE"}
        out = fin_cmp(d, lo) < 0 or fin_cmp(d, hi) > 0
        return clamp(lo, hi, fin_trunc(d)), {"ERANGE" if out else "0"}
    v, neg = doc_parse_int(node)
    if lo == 0 and neg:
        # a text with a '-' sign has no uint64 conversion: json_parse_uint64 refuses it (also "-0": pinned
        # by tests/test_parse_int64), and "if no conversion exists then 0 is returned and errno is set to
        # EINVAL" (json_object.h)
        return 0, {"EINVAL"}
    if v is None:
        return 0, {"EINVAL"}
    return clamp(lo, hi, v), {"0" if lo <= v <= hi else "ERANGE"}


def spec_get_double(node):
    k = kind(node)
    if k == "null":
        return 0, {"0"}
    if k in ("arr", "obj"):
        return 0, {"EINVAL"}
    if k == "bool":
        return int_to_bits(int(node)), {"0"}
    if k in ("int", "uint"):
        return int_to_bits(node[1]), {"0"}
    if k == "dbl":
        return (NANBITS if dec(node[1])[0] == "nan" else node[1]), {"0"}
    s0 = node.split(b"\0")[0]
    bits, n, er = libc_strtod(s0)
    if n == 0 or n < len(s0):
        return 0, {"EINVAL"}
    d = dec(bits)
    if d[0] == "inf" and er:
        # json_object.h promises "the closest infinity" here, the code and json-c's own tests
        # (test_set_value: 1.8E+308 -> 0.0) return 0.0 with ERANGE; the latter is taken as documented
        return 0, {"ERANGE"}
    if d[0] == "nan":
        bits = NANBITS
    return bits, ({"ERANGE"} if er else {"0"})


def spec_get(op, node):
    if op == "gb":
        k = kind(node)
        if k in ("null", "arr", "obj"):
            return 0, {"0"}
        if k == "bool":
            return int(node), {"0"}
        if k in ("int", "uint"):
            return int(node[1] != 0), {"0"}
        if k == "dbl":
            d = dec(node[1])
            return int(d[0] != "fin" or d[2] != 0), {"0"}
        return int(len(node) != 0), {"0"}
    if op == "gi":
        return spec_get_int(node, I32MIN, I32MAX, I32MIN)
    if op == "gl":
        return spec_get_int(node, I64MIN, I64MAX, I64MIN)
    if op == "gu":
        return spec_get_int(node, 0, U64MAX, 0)
    if op == "gd":
        return spec_get_double(node)
    raise ValueError(op)


def spec_mut(op, arg, node):
    """(return value, new node)"""
    k = kind(node)
    if op in ("si", "sl"):
        return (1, ("i", int(arg))) if k in ("int", "uint") else (0, node)
    if op == "su":
        return (1, ("u", int(arg))) if k in ("int", "uint") else (0, node)
    if op == "sd":
        return (1, ("d", int(arg, 16), None)) if k == "dbl" else (0, node)
    if op == "sb":
        return (1, arg != "0") if k == "bool" else (0, node)
    if op == "in":
        if k not in ("int", "uint"):
            return 0, node
        v = clamp(I64MIN, U64MAX, node[1] + int(arg))
        rep = "u" if v > I64MAX else "i" if v < 0 else node[0]
        return 1, (rep, v)
    raise ValueError(op)


def ndump(node):
    k = kind(node)
    if k == "arr":
        return "A%d" % len(node)
    if k == "obj":
        return "O%d" % len(node[1])
    if k == "dbl":
        b = NANBITS if dec(node[1])[0] == "nan" else node[1]
        return "d%016x" % b + ((":" + jvtext.hx(node[2])) if node[2] is not None else "")
    return jvtext.dump(node)


def known_witness(op, arg, node):
    """the class of the (repaired) finding this (op, node) pair would fall into on a regression, or None"""
    k = kind(node)
    if op == "gl" and k == "dbl" and node[1] == B_2P63:
        return CLS_GL
    if op == "gu" and k == "dbl" and node[1] == B_2P64:
        return CLS_GU
    if op == "in" and k == "uint" and int(arg) == I64MIN:
        return CLS_INC
    if op == "gu" and k == "str":
        v, neg = doc_parse_int(node)
        if neg and v != 0:
            # leading whitespace other than ' ' lets strtoull see the '-': wrapped value;
            # only ' ': json_parse_uint64 fails without setting errno
            s = node.split(b"\0")[0].lstrip(b" ")
            return CLS_ERRNO if s[:1] == b"-" else CLS_WRAP
    return None


# an op may carry "@<c>": errno is preset to that value immediately before the call (instead of 0)
PRESET = {"0": "0", "R": "ERANGE", "I": "EINVAL", "M": "ENOMEM", "X": "EOTHER"}


def op_split(o):
    """'@Rgd' -> ('gd', '', 'R');  'sl5' -> ('sl', '5', '0')"""
    pre = "0"
    if o[0] == "@":
        pre, o = o[1], o[2:]
    return o[:2], o[2:], pre


def split_line(line):
    _, node, orc, ops = line.split(" ", 3)
    return jvtext.parse(node)[0], orc, [op_split(o) for o in ops.split(";")]


def first_witness(line):
    node, _, ops = split_line(line)
    for op, arg, _pre in ops:
        w = known_witness(op, arg, node)
        if w:
            return w
        if op[0] != "g":
            node = spec_mut(op, arg, node)[1]
    return None


# ------------------------------------------------------------------ the direct oracle
def oracle(line, meta, impl):
    if "CRASH" in impl:
        w = first_witness(line)
        if w in (CLS_GL, CLS_GU) and "outside_the_range_of_representable" in impl:
            return (w, "undefined double->integer conversion (UBSan float-cast-overflow): " + impl)
        if w == CLS_INC and "negation_of" in impl:
            return (w, "undefined -INT64_MIN in json_object_int_inc on a uint64 node (UBSan): " + impl)
        return ("crash:" + impl.split("CRASH", 1)[1].strip()[:40], "implementation crashed: " + impl)
    if "LEAK" in impl:
        return ("leak", "allocation leaked: " + impl[-40:])
    node, _, ops = split_line(line)
    steps = impl.split(" | ")
    if len(steps) != len(ops):
        return ("malformed", "unexpected driver output: " + impl[:120])
    for (op, arg, pre), st in zip(ops, steps):
        t = st.split(" ")
        k = kind(node)
        pn = PRESET[pre]                       # the errno the caller had
        sfx = "" if pre == "0" else "_preset"  # a failure that needs a preset errno is its own class
        if op[0] == "g":
            if len(t) != 2:
                return ("malformed", "unexpected driver output: " + st[:80])
            want, errs = spec_get(op, node)
            if errs == {"0"}:
                # no error documented for this call: get_boolean documents no errno at all (the caller's value
                # must survive); the numeric accessors "do not clear the value for you" but may (json_object.h NOTE)
                errs = {pn} if op == "gb" else {"0", pn}
            got = int(t[0], 16) if op == "gd" else int(t[0])
            if got != want:
                cls = "%s_%s_value%s" % (op, k, sfx)
                if op == "gu" and k == "str" and doc_parse_int(node)[1]:
                    cls = CLS_WRAP
                return (cls, "%s on %s (errno %s before the call) returned %s, documented %s (errno %s)" % (
                    op, ndump(node)[:60], pn, t[0], ("%016x" % want) if op == "gd" else want, t[1]))
            if t[1] not in errs:
                cls = "%s_%s_errno%s" % (op, k, sfx)
                if op == "gu" and k == "str" and doc_parse_int(node)[1] and t[1] == "0":
                    cls = CLS_ERRNO
                return (cls, "%s on %s (errno %s before the call) returned %s with errno %s, documented %s" % (
                    op, ndump(node)[:60], pn, t[0], t[1], "/".join(sorted(errs))))
            if op == "gd" and k == "str":
                s0 = node.split(b"\0")[0]
                if DECIMAL.match(s0) and want != 0:
                    try:
                        py = jvtext.dbits(float(s0.decode()))
                    except (ValueError, OverflowError):
                        py = None
                    if py is not None and dec(py)[0] == "fin" and py != want:
                        return ("strtod_vs_python", "strtod(%r) = %016x but correctly rounded is %016x" % (s0, want, py))
        else:
            if len(t) != 3:
                return ("malformed", "unexpected driver output: " + st[:80])
            ret, new = spec_mut(op, arg, node)
            if t[1] != pn:         # setters and int_inc document no errno: the caller's value must survive
                return ("%s_%s_errno%s" % (op, k, sfx), "%s%s on %s with errno %s before left errno %s" % (op, arg, ndump(node)[:60], pn, t[1]))
            if int(t[0]) != ret:
                return ("%s_%s_ret" % (op, k), "%s%s on %s returned %s, documented %d" % (op, arg, ndump(node)[:60], t[0], ret))
            if t[2] != ndump(new):
                return ("%s_%s_value" % (op, k), "%s%s on %s left %s, documented %s" % (op, arg, ndump(node)[:60], t[2][:60], ndump(new)[:60]))
            node = new
    return None


def classify(line, meta, mo, co):
    """a disagreement between model and implementation: name it when it is the model's UB at a known witness"""
    if mo.endswith("UB") and "CRASH" in co:
        return first_witness(line)
    return None


def nontrivial(line, meta, impl):
    if "CRASH" in impl or "BAD" in impl or "MISSING" in impl:
        return None
    return line


# ------------------------------------------------------------------ generator
def int_lattice():
    pts = set()
    for b in (0, 1 << 31, 1 << 32, 1 << 53, 1 << 62, 1 << 63, 1 << 64):
        for d in (-2, -1, 0, 1, 2):
            pts.add(b + d)
            pts.add(-b + d)
    pts.update([I32MAX // 2, 7, -7, 100, -100, 1 << 52, -(1 << 52), (1 << 63) + 12345, (1 << 64) - 100, -(1 << 63) + 100,
                (1 << 53) + 3, -(1 << 53) - 3, (1 << 62) + (1 << 9) + 1, (1 << 63) + (1 << 10), (1 << 63) + (1 << 10) + 1,
                (1 << 63) + 3 * (1 << 10), (1 << 64) - 1024, (1 << 64) - 1025])
    return sorted(pts)


def ulp_step(bits, n):
    """n steps along the double line from a positive or negative finite pattern (magnitude order)"""
    return bits + n


def dbl_lattice():
    out = set()

    def add(x):
        b = jvtext.dbits(x)
        for k in (-2, -1, 0, 1, 2):
            out.add(b + k)          # +-1, +-2 ulp in magnitude
    for p in (31, 32, 52, 53, 62, 63, 64):
        for s in (1.0, -1.0):
            add(s * 2.0 ** p)
            out.add(jvtext.dbits(s * (2.0 ** p - 1)))
            out.add(jvtext.dbits(s * (2.0 ** p + 1)))
    for x in (2147483647.0, 2147483647.5, 2147483646.5, 2147483647.9999998, 2147483648.5, -2147483648.5, -2147483649.0,
              -2147483648.9999995, -2147483647.5, 0.5, -0.5, 0.9999999999999999, -0.9999999999999999, 1.0, -1.0, 1.5, -1.5,
              2.5, 3.5, 1e15, 1e16, 1e17, 1e18, 1e19, 1.8446744073709552e19, 1e20, -1e19, -1e20, 1e300, -1e300,
              4294967295.0, 4294967295.5, 4294967296.0, 123456789.125, 9007199254740993.0):
        out.add(jvtext.dbits(x))
    out.update([0, 1 << 63,                                   # +-0
                1, 2, (1 << 63) | 1, (1 << 52) - 1, 1 << 52, (1 << 52) + 1, (1 << 63) | ((1 << 52) - 1),   # subnormals / min normal
                0x7fefffffffffffff, 0xffefffffffffffff,        # +-DBL_MAX
                0x7ff0000000000000, 0xfff0000000000000,        # +-inf
                NANBITS, 0xfff8000000000000, 0x7ff0000000000001, 0x7ff4000000000000, 0xffffffffffffffff, 0x7fffffffffffffff])
    return sorted(b for b in out if 0 <= b < (1 << 64))


def str_lattice(rng, extra):
    ws = [b"", b"", b" ", b"  ", b"\t", b"\n", b"\v", b"\f", b"\r", b" \t", b"\t ", b"\n \r"]
    sg = [b"", b"", b"+", b"-", b"-", b"+-", b"--", b"-+"]
    dg = [b"", b"0", b"00", b"1", b"5", b"007", b"2147483647", b"2147483648", b"2147483649", b"4294967296",
          b"9223372036854775806", b"9223372036854775807", b"9223372036854775808", b"9223372036854775809",
          b"18446744073709551614", b"18446744073709551615", b"18446744073709551616", b"18446744073709551617",
          b"99999999999999999999", b"340282366920938463463374607431768211456", b"000000000000000000000000000012", b"9007199254740993"]
    tl = [b"", b"", b"", b"x", b" ", b".5", b".", b"e5", b"e999", b"E-400", b"\x00", b"\x009", b" 1", b"-1", b"+", b"abc", b".5e1x"]
    fixed = [b"", b" ", b"-", b"+", b"inf", b"-inf", b"INF", b"infinity", b"nan", b"-nan", b"NAN(1)", b"0x10", b"0x1p3", b"-0x1.8p1",
             b"1e999", b"-1e999", b"1e-999", b"4.9e-324", b"2e-324", b"1e-320", b".5", b"5.", b".", b"1e", b"1e+", b"1.7976931348623157e308",
             b"1.7976931348623159e308", b"1.8E+308", b"-1.8E+308", b"123.123", b"12E+3", b"123.123STR", b"STR", b"\x00", b"\x0012", b"12\x00ab",
             b"-0", b" -0", b"\t-0", b"-00x", b"+0", b"true", b"0.1", b"1e22", b"1e23", b"9007199254740993", b"-", b" -", b"\t-", b"-x", b" -x", b"\t-x",
             b"9223372036854775807.9", b"-9223372036854775808.9", b"\xc3\xa9", b"\xff9", b"1" * 400, b"0." + b"0" * 400 + b"1"]
    out = list(fixed)
    for w in ws:
        for s in sg[1:5]:
            for d in (b"5", b"0", b"99999999999999999999", b"18446744073709551615", b"9223372036854775808"):
                out.append(w + s + d)
    for _ in range(extra):
        out.append(rng.choice(ws) + rng.choice(sg) + rng.choice(dg) + rng.choice(tl))
    for _ in range(extra // 4):
        out.append(bytes(rng.choice(b" \t-+0123456789.eExX\x00a") for _ in range(rng.randint(0, 12))))
    return out


def mkline(node, ops):
    orc = "-"
    if isinstance(node, bytes):
        b, n, er = libc_strtod(node.split(b"\0")[0])
        orc = "%016x,%d,%d" % (b, n, int(er))
    return "num %s %s %s" % (jvtext.dump(node), orc, ";".join(ops))


GETS = ["gb", "gi", "gl", "gu", "gd"]


def emit(out, tail, node, ops, kindname):
    """split ops so that every known-witness op ends a line of its own (placed at the end of the
    script); the node state is carried by replaying the mutators"""
    cur = node
    buf = []
    prefix = []     # mutators needed to rebuild the current state from `node`
    for o in ops:
        op, arg, _pre = op_split(o)
        if known_witness(op, arg, cur):
            tail.append((mkline(node, prefix + [o]), {"kind": "witness:" + known_witness(op, arg, cur)}))
            continue             # a refuted mutator is left out of the main line: the state is unchanged
        buf.append(o)
        if op[0] != "g":
            prefix.append(o)
            cur = spec_mut(op, arg, cur)[1]
    if buf:
        out.append((mkline(node, buf), {"kind": kindname}))


# ------------------------------------------------------------------ small-scope exhaustive block
SS_I64 = [0, 1, -1, I32MAX, I32MAX + 1, I32MIN, I32MIN - 1, 1 << 32, 1 << 53, (1 << 53) + 1, -(1 << 53) - 1, 1 << 62,
          I64MAX - 1, I64MAX, I64MIN, I64MIN + 1]
SS_U64 = [0, 1, 1 << 31, I64MAX - 1, I64MAX, I64MAX + 1, I64MAX + 2, (1 << 63) + (1 << 10) + 1, U64MAX - 1, U64MAX]
SS_I32 = [0, 1, -1, I32MAX, I32MIN, 12345]
SS_INC = [0, 1, -1, 2, I64MAX, I64MIN, I64MIN + 1, 1 << 62, -(1 << 62)]


def ss_doubles():
    d = jvtext.dbits
    xs = [0.0, -0.0, 0.5, -0.5, 1.0, -1.0, 1.5, -1.5, 2147483647.0, 2147483647.5, 2147483648.0, 2147483649.0,
          -2147483648.0, -2147483648.5, -2147483649.0, 4294967296.0, 9007199254740992.0, 1e19, -1e19, 1e300, -1e300]
    out = [d(x) for x in xs]
    for b in (B_2P63, B_2P63 | (1 << 63), B_2P64):       # 2^63, -2^63, 2^64 and their two neighbours
        out += [b - 1, b, b + 1]
    out += [1, (1 << 63) | 1, (1 << 52) - 1, 1 << 52,     # min/max subnormal, min normal
            0x7fefffffffffffff, 0xffefffffffffffff, 0x7ff0000000000000, 0xfff0000000000000,
            NANBITS, 0xfff8000000000000, 0x7ff0000000000001]
    return out


def ss_strings():
    """strings of every shape: whitespace x sign x digits x tail, plus the strtod-only forms"""
    ws = [b"", b" ", b"\t", b" \n"]
    sg = [b"", b"+", b"-", b"+-"]
    dg = [b"", b"0", b"5", b"2147483648", b"9223372036854775807", b"9223372036854775808", b"18446744073709551615",
          b"18446744073709551616", b"99999999999999999999"]
    tl = [b"", b"x", b".5", b"e3", b" ", b"\x009"]
    out = [w + g + d + t for w in ws for g in sg for d in dg for t in tl]
    out += [b"inf", b"-inf", b"nan", b"-nan", b"infinity", b"Infinity", b"-Infinity", b"INF", b" inf", b"infx", b"0x1p2000", b"-0x1p2000",
            b"0x1p-2000", b"0x10", b"1e999", b"-1e999", b"1e-999", b"4.9e-324", b".5", b"5.", b".", b"1e", b"1e+5",
            b"1.7976931348623157e308", b"1.8E+308", b"\x00", b"\xff9"]
    return out


def small_scope(tier):
    """ENUMERATED cases (no PRNG): each alphabet element selects a different branch of the code.
      S1 every edge node x every accessor
      S2 every node kind x every setter with every edge argument, then every accessor
      S3 every (edge value, edge increment) pair, then every accessor
      S4 every history of exactly D4 increments over SS_INC (9) from 6 start values (prefixes are observed too)
      S5 every sequence of exactly D5 operations over a 16-operation alphabet from 8 node kinds
      S6 "results do not depend on the errno the caller happens to have": every edge node x every accessor x every
         non-zero errno preset (ERANGE, EINVAL, ENOMEM, a large value); every node kind x every kind of setter / inc x
         every preset; every (edge value, edge increment) pair with the presets rotating through the calls
    quick: D4 = 4, D5 = 3; thorough: one step deeper, D4 = 5, D5 = 4."""
    import itertools
    d4, d5 = (4, 3) if tier == "quick" else (5, 4)
    out = []

    def add(node, ops, sub):
        out.append((mkline(node, ops), {"kind": "small-scope", "sub": sub}))
    dbls = ss_doubles()
    nodes = [None, True, False, [], [("i", 1)], [[]], ("o", []), ("o", [(b"a", ("i", 1))])]
    nodes += [("i", z) for z in SS_I64] + [("u", z) for z in SS_U64] + [("d", b, None) for b in dbls]
    nodes += [("d", jvtext.dbits(1.5), b"1.5"), ("d", B_2P63, b"9223372036854775808.0")]
    nodes += ss_strings()
    for nd in nodes:                                                  # S1
        add(nd, GETS, "get")
        add(nd, GETS[::-1], "get")
    setters = (["sl%d" % z for z in SS_I64] + ["su%d" % z for z in SS_U64] + ["si%d" % z for z in SS_I32]
               + ["sd%016x" % b for b in dbls] + ["sb0", "sb1"])
    kinds = [None, False, ("i", 0), ("u", 7), ("d", 0, None), ("d", jvtext.dbits(1.5), b"1.5"), b"12", [], ("o", [])]
    for nd in kinds:                                                  # S2
        for st in setters:
            add(nd, [st] + GETS, "setget")
    for (rep, vals) in (("i", SS_I64), ("u", SS_U64)):                # S3
        for a in vals:
            for k in SS_I64:
                add(("i", 0), [("sl%d" if rep == "i" else "su%d") % a, "in%d" % k] + GETS, "incpair")
    starts = [("i", 0), ("u", 0), ("i", I64MAX), ("u", I64MAX), ("u", U64MAX), ("i", I64MIN)]
    for nd in starts:                                                 # S4
        for seq in itertools.product(SS_INC, repeat=d4):
            add(nd, ["in%d" % k for k in seq], "inchist")
    presets = "RIMX"
    for nd in nodes:                                                  # S6
        for c in presets:
            add(nd, ["@%s%s" % (c, g) for g in GETS], "errno")
    muts = ["sl%d" % I64MIN, "su%d" % U64MAX, "si-1", "sd%016x" % B_2P63, "sb1", "in1", "in%d" % I64MIN]
    for nd in kinds:
        for c in presets:
            for mu in muts:
                add(nd, ["@%s%s" % (c, mu)] + ["@%s%s" % (c, g) for g in GETS], "errno")
    rot = "RIMX0"
    for (rp_, vals) in (("i", SS_I64), ("u", SS_U64)):
        for ai, a in enumerate(vals):
            for ki, k in enumerate(SS_I64):
                ops = [("sl%d" if rp_ == "i" else "su%d") % a, "in%d" % k] + GETS
                add(("i", 0), ["@%s%s" % (rot[(ai + ki + j) % 5], o) for j, o in enumerate(ops)], "errno")
    alpha = GETS + ["sl-1", "sl%d" % I64MIN, "su%d" % U64MAX, "su0", "sd%016x" % B_2P63, "sd%016x" % NANBITS, "sb1",
                    "si%d" % I32MAX, "in1", "in-1", "in%d" % I64MIN]
    mixed = [None, False, ("i", 0), ("u", I64MAX), ("d", 0, None), ("d", jvtext.dbits(1.5), b"1.5"), b"12", []]
    for nd in mixed:                                                  # S5
        for seq in itertools.product(alpha, repeat=d5):
            add(nd, list(seq), "ops")
    return out


def gen(rng, tier):
    quick = tier == "quick"
    out, tail = [], []
    ints = int_lattice()
    i64s = [z for z in ints if I64MIN <= z <= I64MAX]
    u64s = [z for z in ints if 0 <= z <= U64MAX]
    dbls = dbl_lattice()
    strs = str_lattice(rng, 300 if quick else 6000)
    # deterministic witnesses first in `tail` (one line each)
    for node, ops in [(("d", B_2P63, None), ["gl"]), (("d", B_2P63, b"9223372036854775808.0"), ["gl"]),
                      (("d", B_2P64, None), ["gu"]), (("d", 0, None), ["sd%016x" % B_2P64, "gu"]),
                      (("u", 5), ["in%d" % I64MIN]), (("u", 0), ["in%d" % I64MIN]), (("u", U64MAX), ["in%d" % I64MIN]),
                      (("i", I64MAX), ["in1", "in%d" % I64MIN]),
                      (b"\t-5", ["gu"]), (b"\n-1", ["gu"]), (b"-5", ["gu"]), (b" -x", ["gu"])]:
        emit(out, tail, node, ops, "witness")
    # 1. every accessor on every node kind
    nodes = [None, True, False, [], [("i", 1)], [("i", 1), ("i", 2)], ("o", []), ("o", [(b"a", ("i", 1))]), [[]]]
    nodes += [("i", z) for z in i64s] + [("u", z) for z in u64s]
    nodes += [("d", b, None) for b in dbls]
    nodes += [("d", jvtext.dbits(1.5), b"1.5"), ("d", jvtext.dbits(1e20), b"1e20"), ("d", NANBITS, b"NaN"), ("d", jvtext.dbits(12.3), b"12.3")]
    nodes += strs
    for _ in range(2500 if quick else 60000):
        r = rng.random()
        if r < 0.45:
            b = rng.getrandbits(64)
            if r < 0.2:      # exponent near the integer boundaries
                b = (b & ~(0x7ff << 52)) | (rng.choice([1023 - 1, 1023, 1023 + 30, 1023 + 31, 1023 + 32, 1023 + 52, 1023 + 53, 1023 + 62,
                                                        1023 + 63, 1023 + 64, 1023 + 65, 0, 1, 2046, 2047]) << 52)
            nodes.append(("d", b, None))
        elif r < 0.7:
            nodes.append(("i", rng.randint(I64MIN, I64MAX) >> rng.choice([0, 0, 1, 8, 31, 32, 33, 50])))
        else:
            nodes.append(("u", rng.randint(0, U64MAX) >> rng.choice([0, 0, 1, 8, 31, 32, 33, 50])))
    def sprinkle(ops, p=0.3):
        """preset errno before some of the calls"""
        return [("@%s%s" % (rng.choice("RIMX"), o)) if rng.random() < p else o for o in ops]
    for nd in nodes:
        ops = list(GETS)
        rng.shuffle(ops)
        emit(out, tail, nd, sprinkle(ops), "get:" + kind(nd))
    # 2. set then get (every kind of node, every setter; refused setters leave the node alone)
    setnodes = [None, True, ("i", 0), ("u", 7), ("d", 0, None), ("d", jvtext.dbits(1.5), b"1.5"), b"12", [], ("o", [])]
    for _ in range(600 if quick else 12000):
        nd = rng.choice(setnodes)
        ops = []
        for _ in range(rng.randint(1, 6)):
            r = rng.random()
            if r < 0.25:
                ops.append("sl%d" % (rng.choice(i64s) if rng.random() < 0.7 else rng.randint(I64MIN, I64MAX)))
            elif r < 0.45:
                ops.append("su%d" % (rng.choice(u64s) if rng.random() < 0.7 else rng.randint(0, U64MAX)))
            elif r < 0.6:
                ops.append("si%d" % rng.choice([0, 1, -1, I32MIN, I32MAX, rng.randint(I32MIN, I32MAX)]))
            elif r < 0.85:
                ops.append("sd%016x" % (rng.choice(dbls) if rng.random() < 0.7 else rng.getrandbits(64)))
            else:
                ops.append("sb%d" % rng.randint(0, 1))
            g = list(GETS)
            rng.shuffle(g)
            ops += g[:rng.randint(1, 5)]
        emit(out, tail, nd, sprinkle(ops), "setget")
    # 3. increments: the integer lattice squared, 16 pairs per line, then random pairs and walks
    pairs = [(("i", a), k) for a in i64s for k in i64s] + [(("u", a), k) for a in u64s for k in i64s]
    for _ in range(3000 if quick else 100000):
        a = rng.randint(I64MIN, U64MAX) >> rng.choice([0, 0, 0, 1, 2, 32])
        rep = "i" if a <= I64MAX and (a < 0 or rng.random() < 0.5) else "u"
        k = rng.randint(I64MIN, I64MAX) >> rng.choice([0, 0, 0, 1, 2, 32])
        if rng.random() < 0.3:   # aim at the boundaries: a + k near INT64_MAX / UINT64_MAX / INT64_MIN / 0
            tgt = rng.choice([I64MAX, U64MAX, I64MIN, 0]) + rng.randint(-2, 2)
            k = clamp(I64MIN, I64MAX, tgt - a)
        pairs.append(((rep, a), k))
    for i in range(0, len(pairs), 16):
        ops = []
        for (nd, k) in pairs[i:i + 16]:
            ops += [("sl%d" if nd[0] == "i" else "su%d") % nd[1], "in%d" % k]
            if rng.random() < 0.15:
                ops.append(rng.choice(["gl", "gu", "gi", "gd"]))
        emit(out, tail, ("i", 0), ops, "inc-pairs")
    for _ in range(150 if quick else 4000):     # walks without reset, and increments of non-integer nodes
        nd = rng.choice([("i", 0), ("u", 0), ("i", I64MAX - 3), ("u", U64MAX - 3), ("i", I64MIN + 3), None, True, ("d", 0, None), b"1", []])
        ops = []
        for _ in range(rng.randint(2, 30)):
            k = rng.choice(i64s) if rng.random() < 0.5 else rng.randint(I64MIN, I64MAX) >> rng.choice([0, 1, 2, 8])
            if k == I64MIN and rng.random() < 0.8:
                k += 1
            ops.append("in%d" % k)
            if rng.random() < 0.2:
                ops.append(rng.choice(GETS))
        emit(out, tail, nd, sprinkle(ops), "inc-walk")
    # witness lines last: each UBSan abort restarts the driver on the rest of the script
    seen = set()
    uniq = []
    for l, m in tail:
        if l not in seen:
            seen.add(l)
            uniq.append((l, m))
    cap = {}
    kept = []
    for l, m in uniq:           # bound the number of aborting lines (driver restarts)
        c = m["kind"]
        cap[c] = cap.get(c, 0) + 1
        if cap[c] <= (12 if quick else 40) or c in ("witness:" + CLS_WRAP, "witness:" + CLS_ERRNO):
            kept.append((l, m))
    # the enumerated block goes last: it consumes no random numbers, and on a regression the named
    # witness lines above are all judged before any of its lines can abort the driver
    return out + kept + small_scope(tier)


def shrink(ck, line, cls):
    import fw
    head, node, orc, ops = line.split(" ", 3)
    ops = ops.split(";")

    def fails(sub):
        l = " ".join([head, node, orc, ";".join(sub)])
        m, c, _ = ck.run_pair([l], "shrink")
        v = oracle(l, {}, c.get(1, "MISSING"))
        return v is not None and v[0] == cls
    small = fw.ddmin(ops, fails, budget=40) if len(ops) > 1 else ops
    return " ".join([head, node, orc, ";".join(small)])


def search(rng, broken_lines):
    return gen(rng, "quick")


LEVEL_TEXT = ("Machine-checked (Coq, case analysis + lia, no axioms, no value bound): for every node kind and every value the model of "
              "get_boolean/get_int/get_int64/get_uint64/get_double returns clamp_T(trunc(value)) with the documented errno and never "
              "reaches an undefined conversion; set-then-get is the identity; json_object_int_inc adds exactly for ALL (value, increment) "
              "pairs with the int64<->uint64 representation switch and saturation at INT64_MIN/UINT64_MAX.  Five of these statements were "
              "refuted by the code before the C10 repairs (known_findings.json, status fixed); after the five `fix:` commits (get_int64/get_uint64 `>=` at 2^63/2^64, "
              "unsigned negation in int_inc, json_parse_uint64 whitespace and errno) every statement holds at full strength and "
              "there is no `_partial` theorem left.  The model is tied to json_object.c/json_util.c on every run by "
              "differential execution of the extracted model against the UBSan build on boundary lattices, and an independent Python "
              "model of the documented behaviour judges the implementation's own output.")
LEVEL_NOTE = ("Trusted: Coq kernel; extraction + OCaml glue; harness; libc strtod (oracle argument; cross-checked against Python float() "
              "on decimal strings); hardware int->double rounding (modelled, compared).  The theorems are about the Gallina model; the C "
              "code is tied to it by the checked correspondence on sampled values (lattice + random), not all 2^64.  Not enforced because "
              "json_object.h contradicts itself or json-c's own tests: get_double of an overflowing string returns 0.0/ERANGE (header says "
              "infinity), of an unparsable string 0.0/EINVAL (header says both 0.0 and NaN), arrays are not unwrapped by get_double, "
              "integer accessors return 0 with errno 0 on arrays/objects, int_inc switches to uint64 instead of saturating at INT64_MAX.")
