"""C20 — descriptor I/O is complete and exact under arbitrary short reads and writes.

json_util.c is compiled into the driver with read()/write()/open()/close() redirected to
scripted stubs (harness/drv_fd.c); every case is one document or tree x one transfer
schedule.  The direct oracle below is written from the property text only: it walks the
schedule to know whether an injected error is reached, and compares what the descriptor
received with a plain json_object_to_json_string_ext printed in the same line, and what a
descriptor read returned with the two-step json_tokener_parse_ex of the same bytes from memory (the bytes, then
the terminating NUL when the tokener answered continue without a value;
tokener of the configured depth) printed in the same line.  Call counts, the bytes and
the depth handed to the parser are compared with the extracted Coq model (FdModel.v)."""
import itertools, os, sys, shutil, tempfile
sys.path.insert(0, os.path.join(os.path.dirname(os.path.abspath(__file__)), "..", "lib"))
import jsongen, jvtext

PROP = "C20"
DOMAIN = "fd"
LEVEL = "proof"
TECHNIQUE = ("Coq model of the write loop and of read-accumulate-then-parse over transfer schedules (FdModel.v), theorems by induction "
             "on schedules (FdProofs.v) + extracted-model/C differential correspondence with read/write/open/close of json_util.c "
             "interposed at compile time + independent schedule-walking oracle")
RULE = ("documents: jsongen valid texts, byte-mutated texts, texts padded to 4096k-1/4096k/4096k+1 bytes (k=1..3) with the significant "
        "part at the end, nestings d-1/d/d+1 for configured depths d, literals without terminator, empty; trees: jvtext.gen_tree under "
        "8 flag sets incl. serializations beyond 4096/8192 bytes; schedules: all-1-byte, whole request, 4096-multiples, oversize, "
        "random mixes, boundary mixes, a failing call at every call position (incl. the end-of-file call) for short texts x errno "
        "{EIO, EINTR, one of EAGAIN/EBADF/ENOSPC/EPIPE/EDQUOT/EFBIG/ENOMEM/untouched} and at random positions otherwise; open() failing with ENOENT/EACCES/EINTR/EMFILE/EISDIR; "
        "file-system histories (1-5 steps of to_file_ext / to_file / from_file over paths a,b,c): fresh path, existing longer (+1,+2,+17,+300) / "
        "equal / shorter file, second write shrinking and growing, read back, absent path, other files untouched; "
        "positioned descriptors (DR/DW): from_fd(_ex)/to_fd on a regular-file descriptor opened read-only / read-write / O_APPEND / write-only by the "
        "caller and standing at every offset 0..len of header+text files (end of file included), all other descriptor calls "
        "(lseek pread pwrite fstat ftruncate fsync fdatasync dup dup2 fcntl readv writev mmap fdopen posix_fadvise) recorded on every line; "
        "descriptor numbers: lines of every kind re-run with the descriptor number (the scripted open()'s return value and the caller-provided descriptor) "
        "set to 0, 1, 2, 3, 255, 1024, 65536, INT_MAX, plus the enumerated from_file/to_file schedules on descriptors 0 and INT_MAX; "
        "would-block reads: every schedule of <= 3 (4) transfers over {1,2,all,EAGAIN,EWOULDBLOCK,EINTR} with at least one failing call, through from_fd_ex, from_file "
        "(scripted and file-system open) and a positioned descriptor; the flags and mode of every open() compared with the documented requests on every line; "
        "failure reports (N): from_file / to_file_ext / to_file on file names with printf metacharacters (%d %s %n %x %% lone % %5$s %*d ...), "
        "names of 150..5000 bytes around the 256-byte message buffer, plain names x open() failing (ENOENT EACCES ENOTDIR EMFILE ENAMETOOLONG ...) "
        "or the first read()/write() failing; "
        "small-scope block (enumerated): every read schedule of <= 5 (thorough 6) transfers over {0,1,2,all,EIO,EINTR} x 7 tiny texts/depths, "
        "every write schedule of <= 5 (6) over {1,2,all,EIO,EINTR} x 5 tiny trees incl. the NULL object, positioned descriptors at every offset x 4 modes, "
        "from_file/to_file with open() ok/failing, every file-system history of <= 4 (5) steps over 8 steps x 2 initial states, every file name of <= 4 (5) chars over '%sdn.'; "
        "non-trivial = at least two data-carrying calls or an injected error reached or a successful file write or a failure report; distinct by script line")
TRUSTED = ["Coq 8.16.1 kernel (coqc), no axioms (Print Assumptions: closed under the global context)",
           "extraction (ExtrOcamlBasic only) + ocaml/drv_fd.ml glue (pads the schedule with whole-request entries)",
           "harness/drv_fd.c (scripted read/write/open/close stubs, an in-memory file system whose open() honours O_CREAT/O_EXCL/O_TRUNC/O_APPEND/access mode, recording wrapper around json_tokener_parse_ex), jvtext.h, xalloc.c; gcc -fsanitize=address,undefined",
           "serializer (C02) and tokener (C01) are arguments of the model, not part of it"]
ASSUMPTIONS = ["read()/write() behave as a transfer schedule: each call moves min(n, requested, left) bytes or fails; n >= 1 (a write() that accepts 0 bytes makes the C loop spin: theorem C20_write_zero_spins)",
               "allocation does not fail (C08's subject); printbuf_memappend is list append (C19)",
               "the serialization contains no NUL byte (strlen is what the write loop sees)"]
BUF = 4096
FLAGSETS = [0, 1, 2, 2 | 8, 4, 16, 1 | 2, 2 | 4 | 16]


def hx(b):
    return b.hex() if b else "-"


def unhx(s):
    return b"" if s == "-" else bytes.fromhex(s)


# ---------------------------------------------------------------- schedules
def sched_str(items):
    if not items:
        return "-"
    out = []
    i = 0
    while i < len(items):
        j = i
        while j < len(items) and items[j] == items[i]:
            j += 1
        if isinstance(items[i], str):
            out += [items[i]] * (j - i)
        elif j - i > 1:
            out.append("%d*%d" % (items[i], j - i))
        else:
            out.append(str(items[i]))
        i = j
    return ",".join(out)


def sched_parse(s):
    if s == "-":
        return []
    out = []
    for it in s.split(","):
        if it[0] == "E":
            out.append(it)                  # "E" (EIO) or "E:<errno name>"
        elif "*" in it:
            n, k = it.split("*")
            out += [int(n)] * int(k)
        else:
            out.append(int(it))
    return out


def walk_write(total, sched):
    """what the property text says happens to a writer of `total` bytes:
    ('done'|'err'|'zero', bytes moved before)"""
    pos = 0
    for it in sched:
        if pos >= total:
            break                           # the writer stops calling once everything went out
        if isinstance(it, str):
            return ("err", pos, it)
        if it <= 0:
            return ("zero", pos)            # outside the quantifier
        pos += min(it, total - pos)
    return ("done", total)                  # after the listed entries: whole requests


def walk_read(total, sched):
    """the same for a reader of a file of `total` bytes that asks for BUF bytes per call"""
    pos = 0
    for it in sched:
        if isinstance(it, str):
            return ("err", pos, it)
        n = min(it, BUF, total - pos)
        if n <= 0:
            return ("done", pos) if pos >= total else ("zero", pos)   # the end-of-file call
        pos += n
    return ("done", total)


def rand_sizes(rng, total, big):
    out = []
    left = total + 1
    while left > 0 and len(out) < 400:
        n = rng.choice([1, 1, 2, 3, 7, 16, 64, 100, 1000, BUF - 1, BUF, BUF + 1, 5000, 100000, max(1, total - 1), max(1, total), total + 1]) if big else \
            rng.choice([1, 1, 1, 2, 2, 3, 5, 8, 13, max(1, total - 1), max(1, total), total + 1, BUF, 100000])
        out.append(n)
        left -= n
    return out


# errno carried by a failing call: the property says "a read/write error", not "an error other
# than ...": interruptions and would-block are failures of the call like any other
ERRNOS_R = ["EIO", "EINTR", "EAGAIN", "EWOULDBLOCK", "EBADF", "ENOMEM", "0"]
ERRNOS_W = ["EIO", "EINTR", "EAGAIN", "ENOSPC", "EPIPE", "EDQUOT", "EFBIG", "0"]
OPEN_ERR = ["0", "EACCES", "EINTR", "EMFILE", "EISDIR", "ENOMEM"]


def err_item(e):
    return "E" if e == "EIO" else "E:" + e


def schedules(rng, total, n_extra, every_error_below=0, errnos=ERRNOS_R):
    """list of (schedule string, kind)"""
    big = total > 300
    out = [("-", "whole"), (sched_str([1] * (total + 1)), "all-1"), (sched_str([1000000]), "oversize"),
           (sched_str([BUF] * (total // BUF + 1)), "bufsize")]
    for _ in range(n_extra):
        out.append((sched_str(rand_sizes(rng, total, big)), "random"))
    if total >= BUF - 1:
        pats = [[BUF - 1, 1], [1, BUF - 1], [BUF - 1, 2], [BUF + 1], [BUF, 1], [total - 1], [total - BUF if total > BUF else 1, BUF]]
        for pat in rng.sample(pats, 3):
            out.append((sched_str([max(1, p) for p in pat] * (total // BUF + 2)), "boundary"))
    # injected errors
    if total <= every_error_below:
        for k in range(0, total + 2):
            # every call position x the plain I/O error, the interruption, one other errno
            for e in ("EIO", "EINTR", "EAGAIN", rng.choice(errnos[3:])):
                out.append((sched_str([1] * k + [err_item(e)]), "error-every"))
        out.append((sched_str([2] * (total // 2) + [err_item(rng.choice(errnos))]), "error-every"))
        out.append((sched_str([total] + ["E:EINTR"]), "error-at-eof"))
        out.append((sched_str([total + 1] + ["E:EAGAIN"]), "error-at-eof"))
    for _ in range(2):
        pre = rand_sizes(rng, total, big)
        cut = rng.randint(0, len(pre))
        out.append((sched_str(pre[:cut] + [err_item(rng.choice(errnos))] + pre[cut:]), "error-random"))
    if total > BUF:
        for e in ("EIO", "EINTR"):
            out.append((sched_str([BUF] * (total // BUF) + [err_item(e)]), "error-last-chunk"))
            out.append((sched_str([BUF] * (total // BUF + 1) + [err_item(e)]), "error-at-eof"))
            out.append((sched_str([total] + [err_item(e)]), "error-at-eof"))
    return out


# ---------------------------------------------------------------- documents
def pad_to(rng, text, n):
    """a text of exactly n bytes (or None) that still carries `text`, significant bytes last"""
    room = n - len(text)
    if room < 0:
        return None
    r = rng.random()
    if r < 0.4 or room < 8:
        return rng.choice([b" ", b"\n", b"\t"]) * room + text
    if r < 0.7:
        return b'["' + b"a" * (room - 5) + b'",' + text + b"]"
    return b" " * (room - 6) + b'{"k":' + text + b"}"


def deep(k, obj=False, tail=b"\n"):
    if obj:
        return b'{"a":' * k + b"1" + b"}" * k + tail
    return b"[" * k + b"1" + b"]" * k + tail


def gen_docs(rng, tier):
    n_valid, n_mut = (150, 70) if tier == "quick" else (3000, 1500)
    docs = []   # (bytes, depth_token, kind)
    fixed = [b"", b" ", b"null", b"null\n", b"123", b"123 ", b"42", b"true", b"-1.5e3", b"nul", b"1e", b'"abc', b"NaN", b"-Infinity", b"[1,2", b'"abc"', b"[1,2,3]", b"[1,2,3", b'{"a":[1,{"b":null}]}\n', b"[1]\x00[2]",
             b"\x00", b"[1] trailing", b"tru", b"true ", b"[1,,2]", b'{"a" 1}', b"/* c */ [1] // x\n", b"\xef\xbb\xbf[1]", b"[\"\\ud800\"]"]
    for t in fixed:
        for d in ("-1", "fd", "3"):
            docs.append((t, d, "fixed"))
    for d in ("0", "-2", "-100"):
        docs.append((b"[1]", d, "bad-depth"))
    for i in range(n_valid):
        s, t = jsongen.gen_doc(rng, depth=rng.choice([0, 1, 2, 3, 4, 6]), width=rng.choice([2, 4, 8]))
        d = rng.choice(["-1", "-1", "fd", "1", "2", "3", "5", "32", "33", "64"])
        docs.append((t, d, "valid"))
        if i < n_mut:
            docs.append((jsongen.mutate_bytes(rng, t), rng.choice(["-1", "fd", "4"]), "mutated"))
    # nesting around the configured depth (depth d admits d-1 enclosing containers around a value... whatever
    # the tokener says: the reference parse in the same line decides)
    for d in (1, 2, 3, 5, 8, 32, 33, 40):
        for k in (d - 2, d - 1, d, d + 1):
            if k >= 0:
                docs.append((deep(k, obj=(k + d) % 2 == 1), str(d), "nesting"))
    for k in (30, 31, 32, 33):
        docs.append((deep(k), "-1", "nesting"))
        docs.append((deep(k, obj=True), "fd", "nesting"))
    # sizes around the stack buffer
    for mult in (1, 2, 3):
        for delta in (-1, 0, 1):
            n = mult * BUF + delta
            for _ in range(1 if tier == "quick" else 8):
                s, t = jsongen.gen_doc(rng, depth=rng.choice([1, 2, 3]), width=4)
                t = t.strip(b" \t\r\n")
                p = pad_to(rng, t, n)
                if p is not None and len(p) == n:
                    docs.append((p, rng.choice(["-1", "fd", "6"]), "sized"))
                    # the same with its last byte cut: what is left of the text must not parse to the same thing
                    docs.append((p[:-1], "-1", "sized-cut"))
            docs.append((b" " * (n - 3) + b"[1]", "-1", "sized"))
            t = b"[" + b"1," * ((n - 3) // 2) + b"1]"
            docs.append((t + b" " * (n - len(t)), "2", "sized"))
            docs.append((b"[" * 40 + b" " * (n - 40), "64", "sized"))
    return docs


def gen_trees(rng, tier):
    n = 70 if tier == "quick" else 1500
    trees = []   # (jvtext, flags, kind)
    fixed = ["n", "t", "i0", "s-", "[]", "{}", "[n]", "{61=n}", "d3ff8000000000000", "s002f5c22", "[i1,[i2,[i3]]]"]
    for t in fixed:
        for fl in (0, 2):
            trees.append((t, fl, "fixed"))
    for i in range(n):
        v = jvtext.gen_tree(rng, depth=rng.choice([0, 1, 2, 3]), size=rng.choice([2, 4, 6]), nan=True)
        trees.append((jvtext.dump(v), rng.choice(FLAGSETS), "tree"))
    # serializations beyond one and two buffers
    for ln in (BUF - 3, BUF - 2, BUF - 1, BUF, 2 * BUF - 2, 2 * BUF + 5, 3 * BUF):
        trees.append(("s" + (b"x" * ln).hex(), 0, "long"))
        trees.append(("[" + ",".join(["i%d" % (j * 7919) for j in range(ln // 6)]) + "]", rng.choice([0, 1, 2]), "long"))
    return trees


def serialize_all(pairs):
    """serializations of (tree, flags) by the implementation itself (the serializer is not
    this property's subject; the model takes its output as an argument)"""
    import fw
    uniq = sorted(set(pairs))
    exe = fw.build_driver(DOMAIN, "asan")
    work = tempfile.mkdtemp(prefix="c20ser-", dir=fw.BUILD)
    try:
        obs, _ = fw.run_impl_resilient(exe, ["fd S %s %d" % p for p in uniq], work, "ser")
    finally:
        shutil.rmtree(work, ignore_errors=True)
    out = {}
    for i, p in enumerate(uniq, start=1):
        o = obs.get(i, "")
        if o.startswith("S ") and " " not in o[2:] and o[2:] != "NULL":
            out[p] = o[2:]
    return out


def thin(rng, scs, L, budget):
    """the all-1-byte schedule on a long text costs the extracted model a quadratic list
    append: keep it for a bounded number of long texts"""
    if L <= 1000:
        return scs
    keep = budget[0] > 0 and rng.random() < 0.25
    if keep:
        budget[0] -= 1
    return [s for s in scs if s[1] != "all-1" or keep]


def gen(rng, tier):
    out = []
    rbudget, wbudget, none = [5 if tier == "quick" else 60], [4 if tier == "quick" else 40], [0]
    # ---- reads
    docs = gen_docs(rng, tier)
    for (t, d, kind) in docs:
        L = len(t)
        every = 26 if kind in ("fixed", "nesting") else (12 if kind == "valid" else 0)
        scs = schedules(rng, L, 2 if L < 300 else 1, every_error_below=every)
        for (sc, sk) in thin(rng, scs, L, rbudget):
            out.append(("fd R %s %s %s" % (hx(t), d, sc), {"kind": "R-" + kind + "/" + sk}))
    # a few zero-size reads (outside the quantifier: correspondence only)
    for t in (b"[1, 2, 3]\n", b'{"a":"bcd"}'):
        for sc in ("2,0,5", "0", "1*4,0"):
            out.append(("fd R %s -1 %s" % (hx(t), sc), {"kind": "R-zero"}))
    # ---- files (reads)
    for (t, d, kind) in docs[::7]:
        for ok in ("1", rng.choice(OPEN_ERR)):
            scs = thin(rng, schedules(rng, len(t), 1), len(t), none)
            for (sc, sk) in rng.sample(scs, 3):
                out.append(("fd F R %s %s %s" % (ok, hx(t), sc), {"kind": "FR-" + ("open" if ok == "1" else "noopen") + "/" + sk}))
    # ---- writes
    trees = gen_trees(rng, tier)
    sers = serialize_all([(t, fl) for (t, fl, _) in trees] + [(t, 0) for t in SMALL_TREES])
    for (t, fl, kind) in trees:
        ser = sers.get((t, fl))
        if ser is None:
            continue
        L = len(unhx(ser))
        scs = schedules(rng, L, 2 if L < 300 else 1, every_error_below=(40 if kind in ("fixed", "tree") else 0), errnos=ERRNOS_W)
        scs = thin(rng, scs, L, wbudget)
        if L > 60 and kind == "tree":
            scs = [s for s in scs if s[1] != "error-every"]
        for (sc, sk) in scs:
            out.append(("fd W %s %d %s %s" % (t, fl, sc, ser), {"kind": "W-" + kind + "/" + sk}))
    for (t, fl, kind) in trees[::5]:
        ser = sers.get((t, fl))
        if ser is None:
            continue
        L = len(unhx(ser))
        for ok in ("1", rng.choice(OPEN_ERR)):
            for (sc, sk) in rng.sample(thin(rng, schedules(rng, L, 1, errnos=ERRNOS_W), L, none), 3):
                which = "w" if fl == 0 and rng.random() < 0.5 else "W"
                out.append(("fd F %s %s %s %d %s %s" % (which, ok, t, fl, sc, ser), {"kind": "FW-" + ("open" if ok == "1" else "noopen") + "/" + sk}))
    out += gen_histories(rng, tier, [(t, fl, sers[(t, fl)]) for (t, fl, _) in trees if (t, fl) in sers])
    out += gen_names(rng, tier)
    out += gen_descriptors(rng, tier, docs, [(t, fl, sers[(t, fl)]) for (t, fl, _) in trees if (t, fl) in sers])
    out += gen_small_scope(tier, sers)
    out += gen_fdnums(rng, tier, out)
    out += gen_wouldblock(tier)
    return out


def gen_wouldblock(tier):
    """a descriptor that has no data YET (a FIFO whose writer is late, a socket) answers EAGAIN /
    EWOULDBLOCK in non-blocking mode and EINTR when a signal arrives: before any data and between
    data these are failed read() calls like any other and must be reported as such — every schedule of
    <= 3 (4) transfers over {1, 2, all, EAGAIN, EWOULDBLOCK, EINTR}, every read entry point"""
    out = []
    syms = [1, 2, 1000000, "E:EAGAIN", "E:EWOULDBLOCK", "E:EINTR"]
    for sc in seqs(syms, 3 if tier == "quick" else 4):
        if not any(isinstance(x, str) for x in sc):
            continue
        s_ = sched_str(sc)
        for t in (b"[1]", b'{"a":true}\n', b"42"):
            out.append(("fd R %s -1 %s" % (hx(t), s_), {"kind": "wouldblock/R"}))
            out.append(("fd F R 1 %s %s" % (hx(t), s_), {"kind": "wouldblock/FR"}))
        out.append(("fd P a=%s r/a/%s;r/a/-" % (hx(b"[1,2]\n"), s_), {"kind": "wouldblock/P"}))
        out.append(("fd DR r %s 2 fd %s" % (hx(b"#\n[1]"), s_), {"kind": "wouldblock/DR"}))
    return out


FD_NUMBERS = [0, 1, 2, 3, 255, 1024, 65536, 2147483647]


def gen_fdnums(rng, tier, cases):
    """any descriptor number is a descriptor: the library's own open() handing out 0, 1, 2 (a
    process without standard descriptors), small and huge numbers; the caller's descriptors of
    from_fd / from_fd_ex / to_fd taking the same values — re-runs of lines of every kind under "@<n>" """
    out = []
    by_op = {}
    for (line, meta) in cases:
        f = line.split(" ")
        op = f[1] + (f[2] if f[1] == "F" else "")
        if len(line) < 600 and not meta["kind"].startswith("small-scope"):
            by_op.setdefault(op, []).append(line)
    per = 6 if tier == "quick" else 60
    for n in FD_NUMBERS:
        for op in sorted(by_op):
            ls = by_op[op]
            picks = ls[:3] + [rng.choice(ls) for _ in range(per)]
            if op in ("FR", "FW", "Fw", "P"):
                picks += [rng.choice(ls) for _ in range(2 * per)]
            for l in picks:
                f = l.split(" ")
                out.append((" ".join([f[0], "@%d" % n] + f[1:]), {"kind": "fdnum-%d/%s" % (n, op)}))
    # enumerated: the file entry points on descriptors 0 and INT_MAX, every schedule of <= 3 transfers
    for (line, meta) in cases:
        if meta["kind"] in ("small-scope/FR", "small-scope/FW"):
            f = line.split(" ")
            sc = f[5] if f[2] == "R" else f[6]
            if sc.count(",") <= 2 and "*" not in sc:
                for n in (0, 2147483647):
                    out.append((" ".join([f[0], "@%d" % n] + f[1:]), {"kind": "small-scope/fdnum"}))
    return out


# ---------------------------------------------------------------- small-scope exhaustive block
# transfer alphabet: each symbol selects a different branch of the loops — nothing moved (read: the
# end-of-file exit; not offered to writes: a 0-byte write() is the documented spin, the stub would
# go on where the model says Spin), one byte, a short count, everything asked for, a failing call
# with a plain and with the "interrupted" errno
READ_SYMS = [0, 1, 2, 1000000, "E", "E:EINTR"]
WRITE_SYMS = [1, 2, 1000000, "E", "E:EINTR"]
# texts: empty; a literal the end of the data completes (second tokener call); complete containers
# within / beyond depth 1; an unfinished literal (second call, then error); a text with trailing byte
SMALL_READS = [(b"", "-1"), (b"7", "-1"), (b"[]", "1"), (b"[1]", "-1"), (b"[1]", "1"), (b"tru", "-1"), (b'"a"\n', "fd")]
# trees: serializations of 1, 2, 4, 5 bytes and the refused NULL object
SMALL_TREES = ["i7", "[]", "t", "[i1,i2]", "n"]


def seqs(alphabet, upto):
    for n in range(upto + 1):
        for s in itertools.product(alphabet, repeat=n):
            yield list(s)


def gen_small_scope(tier, sers):
    """every transfer schedule up to a bound over the alphabets above, against tiny texts / trees,
    through every entry point; every history of file operations up to a bound; every short file
    name over the printf alphabet.  Enumerated, not sampled."""
    deep = tier != "quick"
    out = []

    def add(line, sub):
        out.append((line, {"kind": "small-scope/" + sub}))
    nr, nw = (6, 6) if deep else (5, 5)
    # from_fd_ex / from_fd: every schedule of <= nr transfers
    for (t, d) in SMALL_READS:
        for sc in seqs(READ_SYMS, nr):
            add("fd R %s %s %s" % (hx(t), d, sched_str(sc)), "R")
    # a positioned descriptor: every offset of a 5-byte file x every schedule of <= nr-1 transfers x every mode
    for off in range(6):
        for mode in "rbaw":
            for sc in seqs(READ_SYMS, nr - 1 if mode == "r" else nr - 2):
                add("fd DR %s %s %d -1 %s" % (mode, hx(b"#\n[1]"), off, sched_str(sc)), "DR")
    # from_file: open() succeeding / failing x every schedule of <= nr-1 transfers
    for ok in ("1", "0", "EINTR"):
        for sc in seqs(READ_SYMS, nr - 1):
            add("fd F R %s %s %s" % (ok, hx(b"[1]"), sched_str(sc)), "FR")
    # to_fd: every schedule of <= nw transfers x every small tree
    for t in SMALL_TREES:
        ser = sers.get((t, 0))
        if ser is None:
            continue
        for sc in seqs(WRITE_SYMS, nw):
            add("fd W %s 0 %s %s" % (t, sched_str(sc), ser), "W")
    ser_t = sers.get(("t", 0))
    if ser_t is not None:
        # a positioned descriptor for writing: empty / 6-byte file x offsets x modes x schedules of <= nw-1
        for old in (b"", b"abcdef"):
            for off in sorted(set([0, len(old) // 2, len(old)])):
                for mode in "wbar":
                    for sc in seqs(WRITE_SYMS, nw - 1 if mode == "w" else nw - 2):
                        add("fd DW %s %s %d t 0 %s %s" % (mode, hx(old), off, sched_str(sc), ser_t), "DW")
        # to_file_ext / to_file: open() succeeding / failing x every schedule of <= nw-1
        for ok in ("1", "0", "EACCES"):
            for which in "Ww":
                for sc in seqs(WRITE_SYMS, nw - 1):
                    add("fd F %s %s t 0 %s %s" % (which, ok, sched_str(sc), ser_t), "FW")
    # file-system histories: every sequence of <= 3 (4) steps over writes of a short and a longer
    # serialization to two paths (both entry points), reads of both paths; from an empty file system
    # and from one where path a holds a longer file
    ser_l = sers.get(("[i1,i2]", 0))
    if ser_t is not None and ser_l is not None:
        steps = ["w/a/t/0/-/" + ser_t, "w/a/[i1,i2]/0/-/" + ser_l, "v/b/t/0/-/" + ser_t, "w/a/[i1,i2]/0/2,E:ENOSPC/" + ser_l,
                 "w/a/n/0/-/6e756c6c", "r/a/-", "r/b/1*9", "r/a/1,E"]
        for init in ("-", "a=" + hx(b'{"old":"xxxxxxxx"}')):
            for h in seqs(steps, 5 if deep else 4):
                if h:
                    add("fd P %s %s" % (init, ";".join(h)), "P")
    # failure reports: every file name of <= 3 characters over a printf alphabet, every entry point,
    # open() failing / the first transfer failing
    for n in range(1, 5 if not deep else 6):
        for name in itertools.product(b"%sdn.", repeat=n):
            for kind in "rwv":
                add("fd N %s o ENOENT %s" % (kind, hx(bytes(name))), "N")
                if n <= 3 or deep:
                    add("fd N %s x EIO %s" % (kind, hx(bytes(name))), "N")
    return out


HEADERS = [b"", b"#hdr\n", b"[0]\n", b'{"first":1}\n', b"\x00\x01\x02 binary header \xff", b"x" * 100 + b"\n"]


def gen_descriptors(rng, tier, docs, pool):
    """the descriptor is the caller's: a regular file opened read-only / read-write / O_APPEND /
    write-only elsewhere and left standing at ANY offset 0..len (behind a header line or an earlier
    document, in the middle of the text, at the end of the file)"""
    out = []
    texts = [b"[1,2]\n", b'{"a":[1,{"b":null}]}', b"42", b"true\n", b"null", b"[1,2", b"", b"[1] [2] [3]\n", b'"abc"  \n\n']
    texts += [t for (t, _, k) in docs if k == "valid" and len(t) < 200][:25 if tier == "quick" else 400]
    big = [t for (t, _, k) in docs if k == "sized"][:2 if tier == "quick" else 12]
    for i, t in enumerate(texts + big):
        for hdr in (HEADERS if i < 9 else [rng.choice(HEADERS)]):
            file = hdr + t
            L = len(file)
            if L <= 26 and i < 9:
                offs = list(range(L + 1))                     # every offset, the end included
            else:
                offs = sorted(set([0, len(hdr), L, max(0, L - 1), min(L, len(hdr) + 1), rng.randint(0, L), rng.randint(0, L)]))
            for off in offs:
                rest = L - off
                mode = "r" if rng.random() < 0.5 else rng.choice("rbaw")
                d = rng.choice(["-1", "-1", "fd", "3", "32"] + (["0"] if rng.random() < 0.05 else []))
                r = rng.random()
                if L > 1000:
                    sc = rng.choice(["-", sched_str([BUF] * (rest // BUF + 1)), sched_str(rand_sizes(rng, rest, True))])
                elif r < 0.35:
                    sc = "-"
                elif r < 0.55:
                    sc = sched_str([1] * (rest + 1))
                elif r < 0.85:
                    sc = sched_str(rand_sizes(rng, rest, False))
                else:
                    pre = rand_sizes(rng, rest, False)
                    sc = sched_str(pre[:rng.randint(0, len(pre))] + [err_item(rng.choice(ERRNOS_R))])
                out.append(("fd DR %s %s %d %s %s" % (mode, hx(file), off, d, sc), {"kind": "DR-" + mode + ("-at0" if off == 0 else ("-ateof" if off == L else "-mid"))}))
    # writes through a positioned descriptor
    small = sorted([x for x in pool if len(x[2]) <= 400], key=lambda x: (len(x[2]), x[0], x[1]))
    picks = small[:4] + small[len(small) // 2:len(small) // 2 + 3] + small[-3:] + [rng.choice(small) for _ in range(20 if tier == "quick" else 400)] if small else []
    for (t, fl, ser) in picks:
        S = len(unhx(ser))
        for oldlen in sorted(set([0, 1, max(0, S - 1), S, S + 1, S + 30])):
            old = junk(rng, oldlen)
            for off in sorted(set([0, oldlen, oldlen // 2, max(0, oldlen - 1)])):
                mode = "w" if rng.random() < 0.5 else rng.choice("wbar")
                r = rng.random()
                if r < 0.4:
                    sc = "-"
                elif r < 0.8:
                    sc = sched_str(rand_sizes(rng, S, False))
                else:
                    pre = rand_sizes(rng, S, False)
                    sc = sched_str(pre[:rng.randint(0, len(pre))] + [err_item(rng.choice(ERRNOS_W))])
                out.append(("fd DW %s %s %d %s %d %s %s" % (mode, hx(old), off, t, fl, sc, ser), {"kind": "DW-" + mode}))
    return out


PRINTF_NAMES = [b"plain.json", b"/no/such/dir/file.json", b"relative/missing dir/with space.json", b"caf\xc3\xa9.json", b"x",
                b"%d", b"%s", b"%n", b"%x", b"%%", b"100%", b"a%", b"%", b"%5$s", b"%1$n", b"%s%s%s%s%s%s%s%s", b"%n%n%n%n",
                b"%d%d%d%d%d%d%d%d%d%d%d%d", b"%.100000d", b"%*d", b"%*.*f", b"%c", b"%p", b"%ls", b"%hhn", b"%lln", b"%m",
                b"%9999999999d", b"%-08.3lf", b"%Lf", b"%a", b"/tmp/%s/%d.json", b"dir%2Fname%20.json", b"50%off.json",
                b"%\xff", b"%s\n%s", b"{}", b"{0}", b"\\n%s"]
OPEN_ERRNOS = ["ENOENT", "EACCES", "ENOTDIR", "EMFILE", "ENAMETOOLONG", "EROFS", "ELOOP", "EINTR", "ENOMEM"]


def gen_names(rng, tier):
    """what the failure report SAYS, for arbitrary file names: printf metacharacters in every
    position, names around the size of the 256-byte message buffer, plain names; open() failing
    with several errnos, and the first read()/write() failing after a successful open"""
    out = []
    names = list(PRINTF_NAMES)
    unit = b"abcdefghij"
    for ln in (150, 190, 200, 205, 209, 210, 211, 212, 213, 214, 215, 216, 220, 230, 254, 255, 256, 257, 300, 1000, 5000):
        names.append((unit * (ln // 10 + 1))[:ln])
        names.append(((unit * (ln // 10 + 1))[:ln - 2] + b"%s") if ln % 3 == 0 else ((b"%d" + unit * (ln // 10 + 1))[:ln]))
    for _ in range(60 if tier == "quick" else 1500):
        parts = []
        for _ in range(rng.randint(1, 6)):
            parts.append(rng.choice([b"%", b"%%", b"%s", b"%d", b"%n", b"%x", b"%5$s", b"%.3s", b"%ld", b"/", b".", b"file", b"dir", b" ", b"json",
                                     bytes([rng.choice(list(range(1, 37)) + list(range(38, 256)))]), unit * rng.randint(1, 30)]))
        names.append(b"".join(parts))
    for i, nm in enumerate(names):
        fixed = i < len(PRINTF_NAMES)
        for kind in "rwv":
            for what in "ox":
                errs = (["ENOENT", "EACCES"] if fixed else [rng.choice(OPEN_ERRNOS)]) if what == "o" else \
                       [rng.choice(ERRNOS_R[:5] if kind == "r" else ERRNOS_W[:7])]
                for e in errs:
                    out.append(("fd N %s %s %s %s" % (kind, what, e, hx(nm)), {"kind": "N-" + ("printf" if b"%" in nm else "plain") + ("-long" if len(nm) > 150 else "") + "/" + what}))
    return out


def junk(rng, n):
    """n bytes of previous file contents: an old JSON text, or arbitrary bytes"""
    if n <= 0:
        return b""
    if n >= 12 and rng.random() < 0.6:
        return b'{"old":"' + b"x" * (n - 10) + b'"}'
    return bytes(rng.choice(b"0123456789abcdef{}[],: \n") for _ in range(n))


def gen_histories(rng, tier, pool):
    """histories on the in-memory file system: what json_object_to_file(_ext)/json_object_from_file
    do with the FILE — a fresh path, an existing longer / equally long / shorter file, a second
    write to the same path (shrinking and growing), reading back, reading an absent path,
    other files left alone"""
    out = []
    small = sorted([x for x in pool if x[0] != "n" and len(x[2]) <= 2 * 400], key=lambda x: (len(x[2]), x[0], x[1]))
    if not small:
        return out
    plain = [x for x in small if x[1] == 0]

    def wstep(path, item, sc="-", legacy=False):
        t, fl, ser = item
        return "%s/%s/%s/%d/%s/%s" % ("v" if legacy and fl == 0 else "w", path, t, fl, sc, ser)

    def add(init, steps, kind):
        ini = ",".join("%s=%s" % (k, hx(v)) for k, v in init) if init else "-"
        out.append(("fd P %s %s" % (ini, ";".join(steps)), {"kind": "P-" + kind}))

    lo, hi = small[0], small[-1]
    mid = small[len(small) // 2]
    # deterministic shapes, with the shortest / a middle / the longest serialization at hand
    for it in (lo, mid, hi):
        L = len(unhx(it[2]))
        add([], [wstep("a", it)], "fresh")
        add([], [wstep("a", it, legacy=True), "r/a/-"], "fresh")
        for d in (1, 2, 17, 300):
            add([("a", junk(rng, L + d))], [wstep("a", it), "r/a/-"], "over-longer")
            add([("a", junk(rng, L + d))], [wstep("a", it, sched_str([1] * L), legacy=True)], "over-longer")
        add([("a", junk(rng, L))], [wstep("a", it)], "over-equal")
        for d in (1, 2, L):
            add([("a", junk(rng, max(0, L - d)))], [wstep("a", it), "r/a/1*%d" % (L + 1)], "over-shorter")
        add([("a", junk(rng, L + 9)), ("b", junk(rng, 7))], [wstep("a", it), "r/b/-", "r/c/-"], "others-untouched")
        add([("a", junk(rng, L + 9))], [wstep("a", it, sched_str([1, "E:ENOSPC"]))], "over-longer-error")
    add([], [wstep("a", hi), wstep("a", lo), "r/a/-"], "second-write-shrinks")
    add([], [wstep("a", lo), wstep("a", hi), "r/a/-"], "second-write-grows")
    add([], [wstep("a", hi), wstep("b", mid), wstep("a", lo, legacy=True), "r/a/-", "r/b/-"], "second-write-shrinks")
    add([], [wstep("a", hi), wstep("a", ("n", 0, "6e756c6c")), "r/a/-"], "null-object-keeps-file")
    add([], ["r/a/-"], "read-absent")
    add([("a", b"[1, 2, 3]\n")], ["r/a/1*11", "r/a/4,E:EINTR", "r/a/-"], "read-existing")
    # random histories
    n = 150 if tier == "quick" else 3000
    for _ in range(n):
        init = []
        for path in "ab":
            if rng.random() < 0.6:
                ref = len(unhx(rng.choice(small)[2]))
                init.append((path, junk(rng, max(0, ref + rng.choice([-ref, -3, -1, 0, 1, 2, 5, 40, 200])))))
        steps = []
        for _ in range(rng.randint(1, 4)):
            path = rng.choice("aab")
            if rng.random() < 0.7:
                it = rng.choice(plain if plain and rng.random() < 0.3 else small)
                L = len(unhx(it[2]))
                r = rng.random()
                if r < 0.5:
                    sc = "-"
                elif r < 0.85:
                    sc = sched_str(rand_sizes(rng, L, False))
                else:
                    pre = rand_sizes(rng, L, False)
                    sc = sched_str(pre[:rng.randint(0, len(pre))] + [err_item(rng.choice(ERRNOS_W))])
                steps.append(wstep(path, it, sc, legacy=rng.random() < 0.5))
            else:
                steps.append("r/%s/%s" % (path, rng.choice(["-", "1*40", "3,5,1000", "2,E:EINTR", "7*3,E"])))
        add(init, steps, "random")
    return out


# ---------------------------------------------------------------- direct oracle
def o_write(tree, sched, o, file, open_ok):
    want = 9 if file else 7
    if len(o) != want or o[0] != ("FW" if file else "W"):
        return ("malformed", "unexpected driver output: " + " ".join(o)[:120])
    rc, msg, dev, ser, leak = int(o[1]), o[2], unhx(o[4]), unhx(o[5]), int(o[-1])
    opens, closes = (int(o[6]), int(o[7])) if file else (0, 0)
    if leak != 0:
        return ("leak", "%d allocation(s) still live after the write call and release of the tree" % leak)
    if rc == -1 and msg != "1":
        return ("failure-without-message", "write returned -1 but json_util_get_last_err() is NULL")
    if rc not in (0, -1):
        return ("write-rc", "return code %d" % rc)
    if tree == "n":
        # documented precondition: a NULL object is refused with a message, nothing is written
        if rc != -1 or dev != b"" or opens != 0:
            return ("null-object", "NULL object: rc=%d, %d bytes written, %d open()" % (rc, len(dev), opens))
        return None
    if file and not open_ok:
        if rc != -1 or dev != b"" or closes != 0:
            return ("open-failure-unreported", "open() failed: rc=%d, %d bytes written, %d close()" % (rc, len(dev), closes))
        return None
    w = walk_write(len(ser), sched)
    kind, pos = w[0], w[1]
    if kind == "zero":
        return None
    if kind == "done":
        if rc != 0:
            return ("write-spurious-failure", "no write failed, yet rc=%d after %d of %d bytes" % (rc, len(dev), len(ser)))
        if dev != ser:
            how = "short" if ser.startswith(dev) else ("duplicated or reordered" if len(dev) >= len(ser) else "different bytes")
            return ("write-not-exact", "rc=0 but the descriptor received %d bytes for a serialization of %d (%s)" % (len(dev), len(ser), how))
    else:
        if rc != -1:
            return ("write-error-unreported", "write() failed (%s) at the call after %d bytes but rc=%d (%d bytes delivered)" % (w[2], pos, rc, len(dev)))
        if dev != ser[:pos]:
            return ("write-error-delivered", "after a failed write the descriptor holds %d bytes; the transfers before the failing call carried %d%s"
                    % (len(dev), pos, "" if ser.startswith(dev) else " (and it is not a prefix)"))
    if file and closes != 1:
        return ("fd-leak", "file opened, close() called %d times" % closes)
    return None


def calls_clause(pcalls, referr, where=""):
    """the number of tokener calls is the tokener's to decide (the model leaves it open): it must be
    that of the two-step in-memory reference, and a second call must be the NUL behind the data"""
    if pcalls.endswith("!"):
        return ("second-parse-call-not-nul", where + "a second json_tokener_parse_ex call was made that is not 'same tokener, the one NUL byte behind the data'")
    if "c" in referr and pcalls != referr.split("c")[1]:
        return ("parser-calls-differ", where + "%s json_tokener_parse_ex call(s) were made, the two-step parse from memory makes %s" % (pcalls, referr.split("c")[1]))
    return None


def o_read(doc, depth_s, sched, o, file, open_ok):
    want = 12 if file else 10
    if len(o) != want or o[0] != ("FR" if file else "R"):
        return ("malformed", "unexpected driver output: " + " ".join(o)[:120])
    result, msg, ref, leak = o[1], o[2], o[7], int(o[-1])
    opens, closes = (int(o[9]), int(o[10])) if file else (0, 0)
    depth = -1 if (file or depth_s == "fd") else int(depth_s)
    eff = 32 if depth == -1 else depth
    if leak != 0:
        return ("leak", "%d allocation(s) still live after the read call and release of its result" % leak)
    if result == "NULL" and msg != "1":
        return ("failure-without-message", "NULL returned but json_util_get_last_err() is NULL")
    if file and not open_ok:
        if result != "NULL" or closes != 0:
            return ("open-failure-unreported", "open() failed: result %s, %d close()" % (result[:40], closes))
        return None
    if eff < 1:
        if result != "NULL":
            return ("bad-depth-accepted", "depth %d: result %s" % (eff, result[:40]))
    else:
        w = walk_read(len(doc), sched)
        kind, pos = w[0], w[1]
        if kind == "err":
            # the only alternative to reporting the failure is to have resumed an interrupted read
            # and delivered the result of the complete data
            resumed = w[2] == "E:EINTR" and unhx(o[6]) == doc and o[4] in ("1", "2") and result == ref
            if result != "NULL" and not resumed:
                return ("read-error-unreported", "read() failed (%s) after %d of %d bytes but a tree was returned without any failure report: %s"
                        % (w[2], pos, len(doc), result[:60]))
        elif kind == "done":
            if result != ref:
                return ("read-differs-from-memory", "descriptor read gives %s, parsing the same %d bytes from memory (depth %d) gives %s"
                        % (result[:80], len(doc), eff, ref[:80]))
            v = calls_clause(o[4], o[8])
            if v:
                return v
    if file and closes != 1:
        return ("fd-leak", "file opened, close() called %d times" % closes)
    return None


def o_history(t, impl):
    """file-system histories: the tracked contents of every path are what the driver showed after
    the previous step; each step is judged from the property text against them"""
    fs = {}
    if t[2] != "-":
        for it in t[2].split(","):
            fs[it[0]] = unhx(it[2:])
    steps = t[3].split(";")
    obs = impl.split(" | ")
    if len(obs) != len(steps) + 1:
        return ("malformed", "unexpected driver output: " + impl[:120])
    for k, (st, ob) in enumerate(zip(steps, obs), start=1):
        f, o = st.split("/"), ob.split(" ")
        path = f[1]
        before = fs.get(path)
        if f[0] in "wv":
            if len(o) != 8 or o[0] != "w":
                return ("malformed", "step %d: %s" % (k, ob[:100]))
            tree, sched, ser = f[2], sched_parse(f[4]), unhx(f[5])
            rc, msg, opens, closes = int(o[1]), o[2], int(o[4]), int(o[5])
            after = None if o[7] == "ABSENT" else unhx(o[7])
            if rc == -1 and msg != "1":
                return ("failure-without-message", "step %d: write returned -1 but json_util_get_last_err() is NULL" % k)
            if tree == "n":
                if rc != -1 or after != before or opens != 0:
                    return ("null-object", "step %d: NULL object: rc=%d, %d open(), file %s" % (k, rc, opens, "changed" if after != before else "unchanged"))
            else:
                w = walk_write(len(ser), sched)
                if w[0] == "done":
                    if rc != 0:
                        return ("write-spurious-failure", "step %d: no write failed, yet rc=%d" % (k, rc))
                    if after != ser:
                        if after is None:
                            how = "the file does not exist"
                        elif after.startswith(ser) and before is not None and after[len(ser):] == before[len(ser):]:
                            how = "the serialization is followed by %d stale bytes of the %d-byte file that was there before" % (len(after) - len(ser), len(before))
                        elif before is not None and after.startswith(before):
                            how = "the previous %d bytes are still in front" % len(before)
                        else:
                            how = "different contents"
                        return ("file-not-exact", "step %d: rc=0 but the file holds %d bytes, the serialization has %d: %s"
                                % (k, len(after or b""), len(ser), how))
                elif w[0] == "err":
                    if rc != -1:
                        return ("write-error-unreported", "step %d: write() failed (%s) after %d bytes but rc=%d" % (k, w[2], w[1], rc))
                if closes != opens:
                    return ("fd-leak", "step %d: %d open(), %d close()" % (k, opens, closes))
            if after is None:
                fs.pop(path, None)
            else:
                fs[path] = after
        else:
            if len(o) != 13 or o[0] != "r":
                return ("malformed", "step %d: %s" % (k, ob[:100]))
            result, msg, ref, opens, closes = o[1], o[2], o[7], int(o[9]), int(o[10])
            after = None if o[12] == "ABSENT" else unhx(o[12])
            if after != before:
                return ("read-modified-file", "step %d: reading %s changed it (%s -> %s bytes)"
                        % (k, path, "absent" if before is None else len(before), "absent" if after is None else len(after)))
            if result == "NULL" and msg != "1":
                return ("failure-without-message", "step %d: NULL returned but json_util_get_last_err() is NULL" % k)
            if before is None:
                if result != "NULL" or closes != 0:
                    return ("open-failure-unreported", "step %d: absent file: result %s, %d close()" % (k, result[:40], closes))
            else:
                w = walk_read(len(before), sched_parse(f[2]))
                if w[0] == "err":
                    resumed = w[2] == "E:EINTR" and unhx(o[6]) == before and o[4] in ("1", "2") and result == ref
                    if result != "NULL" and not resumed:
                        return ("read-error-unreported", "step %d: read() failed (%s) after %d of %d bytes but a tree was returned: %s"
                                % (k, w[2], w[1], len(before), result[:60]))
                elif w[0] == "done" and result != ref:
                    return ("read-differs-from-memory", "step %d: reading the file gives %s, parsing its %d bytes from memory gives %s"
                            % (k, result[:80], len(before), ref[:80]))
                elif w[0] == "done":
                    v = calls_clause(o[4], o[8], "step %d: " % k)
                    if v:
                        return v
                if closes != 1:
                    return ("fd-leak", "step %d: file opened, close() called %d times" % (k, closes))
    e = obs[-1].split(" ")
    if len(e) != 3 or e[0] != "end":
        return ("malformed", "end: " + obs[-1][:100])
    if int(e[1]) != 0:
        return ("leak", "%s allocation(s) still live after the history" % e[1])
    final = {}
    if e[2] != "-":
        for it in e[2].split(","):
            final[it[0]] = unhx(it[2:])
    if final != fs:
        bad = sorted(k for k in set(final) | set(fs) if final.get(k) != fs.get(k))
        return ("other-file-changed", "file(s) %s differ from what the steps left" % ",".join(bad))
    return None


def o_desc_read(t, o):
    """a positioned descriptor handed to from_fd(_ex): what is parsed is file[offset:], the descriptor
    ends at the end of the file, the file is untouched"""
    mode, file, off, depth_s, sched = t[2], unhx(t[3]), int(t[4]), t[5], sched_parse(t[6])
    if len(o) != 12 or o[0] != "DR":
        return ("malformed", "unexpected driver output: " + " ".join(o)[:120])
    result, msg, ref, endoff, same, leak = o[1], o[2], o[7], int(o[9]), o[10], int(o[11])
    eff = 32 if depth_s in ("-1", "fd") else int(depth_s)
    rest = file[off:]
    if leak != 0:
        return ("leak", "%d allocation(s) still live after the read call and release of its result" % leak)
    if same != "=":
        return ("read-modified-file", "reading through the descriptor changed the file")
    if result == "NULL" and msg != "1":
        return ("failure-without-message", "NULL returned but json_util_get_last_err() is NULL")
    if eff < 1:
        if result != "NULL":
            return ("bad-depth-accepted", "depth %d: result %s" % (eff, result[:40]))
        return None
    if mode == "w":
        if result != "NULL":
            return ("read-error-unreported", "write-only descriptor: read() fails with EBADF but a tree was returned: %s" % result[:60])
        return None
    w = walk_read(len(rest), sched)
    if w[0] == "err":
        resumed = w[2] == "E:EINTR" and unhx(o[6]) == rest and o[4] in ("1", "2") and result == ref
        if result != "NULL" and not resumed:
            return ("read-error-unreported", "read() failed (%s) after %d of %d bytes but a tree was returned: %s" % (w[2], w[1], len(rest), result[:60]))
        if result == "NULL" and endoff != off + w[1]:
            return ("descriptor-position", "descriptor handed over at offset %d, %d bytes delivered before the failing read(): it stands at %d" % (off, w[1], endoff))
    elif w[0] == "done":
        if result != ref:
            return ("read-not-from-position", "descriptor handed over at offset %d of a %d-byte file: result %s, parsing file[%d:] from memory gives %s"
                    % (off, len(file), result[:70], off, ref[:70]))
        if endoff != len(file):
            return ("descriptor-position", "descriptor handed over at offset %d of a %d-byte file stands at %d afterwards, not at the end" % (off, len(file), endoff))
        return calls_clause(o[4], o[8])
    return None


def o_desc_write(t, o):
    """a positioned descriptor handed to to_fd: the serialization lands where the descriptor stands
    (at the end with O_APPEND), the rest of the file stays, the descriptor moves behind it"""
    mode, old, off, tree, sched = t[2], unhx(t[3]), int(t[4]), t[5], sched_parse(t[7])
    if len(o) != 9 or o[0] != "DW":
        return ("malformed", "unexpected driver output: " + " ".join(o)[:120])
    rc, msg, ser, endoff, file, leak = int(o[1]), o[2], unhx(o[5]), int(o[6]), unhx(o[7]), int(o[8])
    if leak != 0:
        return ("leak", "%d allocation(s) still live after the write call and release of the tree" % leak)
    if rc == -1 and msg != "1":
        return ("failure-without-message", "write returned -1 but json_util_get_last_err() is NULL")
    at = len(old) if mode == "a" else off
    if tree == "n" or mode == "r":
        if rc != -1 or file != old or endoff != off:
            return ("null-object" if tree == "n" else "write-error-unreported",
                    "%s: rc=%d, file %s, descriptor at %d (was %d)" % ("NULL object" if tree == "n" else "read-only descriptor (EBADF)", rc, "changed" if file != old else "unchanged", endoff, off))
        return None
    w = walk_write(len(ser), sched)
    if w[0] == "zero":
        return None
    n = len(ser) if w[0] == "done" else w[1]
    want = old[:at] + ser[:n] + old[at + n:]
    if w[0] == "done" and rc != 0:
        return ("write-spurious-failure", "no write failed, yet rc=%d" % rc)
    if w[0] == "err" and rc != -1:
        return ("write-error-unreported", "write() failed (%s) after %d bytes but rc=%d" % (w[2], w[1], rc))
    if file != want:
        return ("write-not-at-position", "descriptor handed over at offset %d%s of a %d-byte file: %d of %d bytes went out, the file is not old[:%d] + them + old[%d:] (it has %d bytes)"
                % (off, " (O_APPEND)" if mode == "a" else "", len(old), n, len(ser), at, at + n, len(file)))
    if endoff != (at + n if n else off):
        return ("descriptor-position", "descriptor stands at %d after %d bytes written from %d" % (endoff, n, at))
    return None


def o_names(t, o):
    """the failure report for an arbitrary file name: a clean failure (no crash: checked by the
    caller), a retrievable NUL-terminated message naming the file verbatim and carrying the errno text"""
    kind, what, errname, name = t[2], t[3], t[4], unhx(t[5])
    if len(o) != 10 or o[0] != "N":
        return ("malformed", "unexpected driver output: " + " ".join(o)[:120])
    ret, msg, term, has_name, has_serr, closes, leak = o[1], o[2], o[3], o[4], o[5], int(o[8]), int(o[9])
    show = repr(name[:40]) + ("..." if len(name) > 40 else "")
    why = "open() failed" if what == "o" else ("read() failed" if kind == "r" else "write() failed")
    if ret != ("NULL" if kind == "r" else "-1"):
        return ("open-failure-unreported" if what == "o" else ("read-error-unreported" if kind == "r" else "write-error-unreported"),
                "%s (%s) for file name %s but the call returned %s" % (why, errname, show, ret))
    if msg != "1":
        return ("failure-without-message", "%s for file name %s: json_util_get_last_err() is NULL" % (why, show))
    if term != "1":
        return ("message-not-terminated", "%s for file name %s (%d bytes): the last-error buffer has no NUL" % (why, show, len(name)))
    if has_name == "0":
        return ("message-lacks-file-name", "%s (%s): the message does not contain the file name %s verbatim (nor ends in a prefix of it)"
                % (why, errname, show))
    if has_serr != "1":
        return ("message-lacks-errno-text", "%s for file name %s: the message does not contain strerror(%s)" % (why, show, errname))
    if closes != (0 if what == "o" else 1):
        return ("fd-leak", "%s: close() called %d times" % (why, closes))
    if leak != 0:
        return ("leak", "%d allocation(s) still live after the failed call" % leak)
    return None


def oracle(line, meta, impl):
    if impl == "MISSING":
        return None     # never run (the driver was restarted too often after crashes): the correspondence flags it
    if "CRASH" in impl:
        if " N " in line[:20]:
            f = [x for x in line.split(" ") if not x.startswith("@")]
            return ("crash-in-failure-report", "reporting a failed %s (%s) for file name %r crashed: %s"
                    % ("open()" if f[3] == "o" else "read()/write()", f[4], unhx(f[5])[:40], impl[:80]))
        return ("crash", "implementation crashed: " + impl[:100])
    t = [x for x in line.split(" ") if not x.startswith("@")]     # "@<n>": the descriptor number, nothing depends on it
    o = impl.split(" ")
    if "BADFD" in o:
        return ("bad-fd", "read/write/close called on a descriptor other than the one given/opened")
    other = [x for x in o if x.startswith("OTHER:")]
    flags = [x for x in o if x.startswith("FLAGS:")]
    o = [x for x in o if not x.startswith("OTHER:") and not x.startswith("FLAGS:")]
    impl = " ".join(o)
    if "DEVOVERFLOW" in o:
        return ("write-overrun", "more than twice the serialization was written")
    v = dispatch(t, o, impl)
    if v is None and flags:
        fl, _, mode = flags[0][6:].partition("/")
        return ("open-flags", "json_util.c opened a file with flags 0x%s mode 0%s; the documented requests are O_RDONLY (reading) and "
                "O_WRONLY|O_TRUNC|O_CREAT with mode 0644 (writing), nothing more and nothing less" % (fl, mode))
    if v is None and other:
        # the behaviour was right, but the descriptor is the caller's: nothing but read()/write()
        return ("foreign-descriptor-call", "json_util.c did more to the descriptor than read()/write() (and open()/close() of its own files): %s"
                % other[0][6:].replace("+", ", "))
    return v


def dispatch(t, o, impl):
    try:
        if t[1] == "W":
            return o_write(t[2], sched_parse(t[4]), o, False, True)
        if t[1] == "R":
            return o_read(unhx(t[2]), t[3], sched_parse(t[4]), o, False, True)
        if t[1] == "F" and t[2] == "R":
            return o_read(unhx(t[4]), "-1", sched_parse(t[5]), o, True, t[3] == "1")
        if t[1] == "F":
            return o_write(t[4], sched_parse(t[6]), o, True, t[3] == "1")
        if t[1] == "P":
            return o_history(t, impl)
        if t[1] == "N":
            return o_names(t, o)
        if t[1] == "DR":
            return o_desc_read(t, o)
        if t[1] == "DW":
            return o_desc_write(t, o)
        if t[1] == "S":
            return None
    except (ValueError, IndexError) as e:
        return ("malformed", "unexpected driver output (%r): %s" % (e, impl[:120]))
    return ("malformed", "unknown op in " + " ".join(t)[:60])


def classify(line, meta, mo, co):
    return None


def nontrivial(line, meta, impl):
    o = impl.split(" ")
    t = [x for x in line.split(" ") if not x.startswith("@")]
    try:
        if o[0] in ("W", "FW"):
            if (o[1] == "0" and int(o[3]) >= 2) or (o[1] == "-1" and int(o[3]) >= 1):
                return line
        if o[0] in ("w", "r") and " | " in impl:
            if any(x.startswith("w 0 ") for x in impl.split(" | ")) or impl.count(" | ") >= 2:
                return line
        if o[0] == "N" and o[2] == "1":
            return line
        if o[0] == "DR" and t[4] != "0":
            return line
        if o[0] == "DW" and o[1] == "0":
            return line
        if o[0] in ("R", "FR"):
            if int(o[3]) >= 3 or o[4] == "2" or (o[1] == "NULL" and o[4] == "0" and int(o[3]) >= 1):
                return line
    except (ValueError, IndexError):
        pass
    return None


def shrink(ck, line, cls):
    import fw
    at = [x for x in line.split(" ") if x.startswith("@")]
    t = [x for x in line.split(" ") if not x.startswith("@")]
    if at:
        small = shrink_inner(ck, " ".join(t), cls, at[0])
        f = small.split(" ")
        return " ".join([f[0], at[0]] + f[1:])
    return shrink_inner(ck, line, cls, None)


def shrink_inner(ck, line, cls, at):
    import fw
    t = line.split(" ")

    def fails(l):
        if at:
            f = l.split(" ")
            l = " ".join([f[0], at] + f[1:])
        m, c, _ = ck.run_pair([l], "shrink")
        v = oracle(l, {}, c.get(1, "MISSING"))
        return v is not None and v[0] == cls
    if t[1] in ("DR", "DW"):
        si = 6 if t[1] == "DR" else 7
        items = sched_parse(t[si])
        if len(items) >= 2:
            t[si] = sched_str(fw.ddmin(items, lambda sub: fails(" ".join(t[:si] + [sched_str(sub)] + t[si + 1:])), budget=10))
        return " ".join(t)
    if t[1] == "N":
        name = list(unhx(t[5]))
        if len(name) >= 2:
            name = fw.ddmin(name, lambda sub: fails(" ".join(t[:5] + [hx(bytes(sub))])), budget=20)
        return " ".join(t[:5] + [hx(bytes(name))])
    if t[1] == "P":
        steps = t[3].split(";")
        if len(steps) >= 2:
            steps = fw.ddmin(steps, lambda sub: fails(" ".join(t[:3] + [";".join(sub)])), budget=12)
        return " ".join(t[:3] + [";".join(steps)])
    si = {"W": 4, "R": 4}.get(t[1], 5 if t[2] == "R" else 6)
    items = sched_parse(t[si])
    if len(items) >= 2:
        small = fw.ddmin(items, lambda sub: fails(" ".join(t[:si] + [sched_str(sub)] + t[si + 1:])), budget=10)
        t[si] = sched_str(small)
    if t[1] == "R" or (t[1] == "F" and t[2] == "R"):
        di = 2 if t[1] == "R" else 4
        doc = list(unhx(t[di]))
        if 2 <= len(doc):
            small = fw.ddmin(doc, lambda sub: fails(" ".join(t[:di] + [hx(bytes(sub))] + t[di + 1:])), budget=16)
            t[di] = hx(bytes(small))
    return " ".join(t)


def search(rng, broken_lines):
    """only reached when the model and the implementation disagree somewhere: the short cases
    (every call position x errno, all fixed texts and trees) are where a concrete failure shows"""
    return [c for c in gen(rng, "quick") if len(c[0]) < 1500][:2500]


LEVEL_TEXT = ("Machine-checked (Coq, induction on transfer schedules, no axioms, no size bound): for every byte string and every schedule of "
              "write sizes >= 1 the write loop of json_object_to_fd returns 0 with exactly the string delivered once and in order; an error at "
              "call k gives -1, a message and exactly the bytes of the first k-1 transfers (a strict prefix); for every schedule whatsoever 0 is "
              "returned only with the exact string delivered; a 0-byte write spins (stated). For every data, parser and schedule of read sizes "
              ">= 1 json_object_from_fd_ex hands the tokener exactly the data with the configured depth (32 for -1) — parse2: one call, plus one on the terminating NUL when the first answers continue without a value — and returns that "
              "call's result; any two error-free schedules agree; a read error, an unopenable file, an uncreatable tokener and a NULL parse give NULL "
              "with a message; no path leaves the buffer or the tokener allocated; files are closed exactly once. On a file system path -> contents with "
              "open() flags as data (O_WRONLY|O_TRUNC|O_CREAT, O_RDONLY): for every initial file system a successful json_object_to_file_ext leaves exactly "
              "the serialization in the file and every other file untouched, a failed one leaves the delivered prefix, a refused open changes nothing; "
              "without O_TRUNC a longer file keeps its stale tail (stated); reading never changes the file system; write-then-read is the one "
              "in-memory parse of the serialization. A descriptor handed to json_object_from_fd_ex at any position 0..|file| yields the parse of file[pos:] and "
              "is left at the end of the file (C20_read_as_memory_at); json_object_to_fd puts the serialization at the position (at the end with O_APPEND) and "
              "leaves the rest of the file alone. The model is tied to json_util.c "
              "on every run by differential execution against the sanitizer build with interposed read/write/open/close.")
LEVEL_NOTE = ("Trusted: Coq kernel; extraction + OCaml glue; the scripted stubs; the theorems are about the Gallina model, tied to the C code only by "
              "the sampled correspondence. The serializer, the tokener and the print buffer are arguments/oracles of this model (C02, C01, C19). "
              "That json_util.c makes no call on a descriptor other than read()/write() (open()/close() for its own files) is an observation of the recording "
              "stubs (the model simply has no other descriptor operation). What a failure message SAYS (NUL-terminated inside its buffer, names the file verbatim or ends in a prefix of it, carries the strerror text) "
              "is an oracle-only observation on the C side, printed as three booleans, never as text: the model only states THAT a message is set and which one. "
              "json_object_to_fd(NULL object) is a refused call (-1 with message), and a successfully parsed top-level 'null' is returned as NULL "
              "with a message set: both are modelled as written. Allocation failure is not exercised here (C08).")


# ---- source -> Gallina translator for the header constants this model uses (tr/lib_consts.py; LibImplCheck.v)
LIB_TRANSLATOR = {}


def coq_extra():
    import sys as _sys, os as _os
    import fw as _fw
    _sys.path.insert(0, _os.path.join(_fw.VERIF, "tr"))
    import lib_consts
    files, info = lib_consts.coq_extra_for(_fw)
    LIB_TRANSLATOR.update(info)
    return files


def extra_coverage():
    return dict(lib_translator=dict(LIB_TRANSLATOR))
