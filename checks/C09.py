"""C09 — json_object_equal is a structural equivalence that coincides with equality of the
denoted values; json_object_deep_copy gives an equal, identical-looking, disjoint tree.

Script ops (domain `eq`, trees in the jvtext format):
  E a b      equal(a,b) equal(b,a) equal(a,a) equal(b,b)
  T a b c    equal over ab bc ac ba cb ca
  X a        two arrays / two objects holding the SAME node a (pointer shortcut at depth)
  C a mut    deep copy of a, comparisons, typed dumps, address sets, serializations under
             six flag sets, mutation probe on copy and on source (with the comparisons and a
             further deep copy repeated on the mutated trees), destruction, live blocks
  H a ha b hb   both trees first get a HISTORY of public mutators (setters that grow / shrink
             strings, switch int64<->uint64, drop retained text; adds, replaces, deletes,
             put_idx with gaps, del_idx), then equal both ways / on themselves, deep copy of
             a' compared with a' and b'.  Equality and copying must depend on the value
             reached only, never on how the tree got there.
             A step may also be a PROCESS-WIDE SETTING (@H0/@H1 json_global_set_string_hash,
             @F<fmt> json_c_set_serialization_double_format) issued at any point between
             building, mutating, copying (optional 6th field hg: after the copy) and comparing;
             it must change nothing.  The drivers restore the defaults after every case.

  Y a rules tags   deep copy through a caller-supplied json_c_shallow_copy_fn that wraps
             json_c_shallow_copy_default and answers 1 / 2 / 2+application userdata / -1 as a
             scripted predicate on the node (type, parent type, depth, index / key, call number,
             every k-th call) says; some source nodes carry application userdata.  Whatever the
             answers: a successful copy is equal, structurally complete, disjoint; a failing
             one returns -1, leaves *dst NULL and leaks nothing.

  B a conds mut   the source borrows the names of the members selected by conds from exact-size
             heap buffers of the driver (JSON_C_OBJECT_ADD_CONSTANT_KEY); after the deep copy no
             name of the copy may be stored where a name of the source is, nor in a driver
             buffer, nor be marked constant; the driver then overwrites its buffers in place,
             destroys the source, poisons and frees the buffers: the copy must dump, serialize,
             answer lookups and compare exactly as before (ASan watches the freed buffers).
             Optional 4th field ud: source nodes of any type given the stock serializer
             json_object_userdata_to_json_string with a text in a block of their own (D, delete
             function json_object_free_userdata) or in a driver buffer with a NULL delete function
             (N): the userdata pointers, texts and delete functions are treated like the names.

The direct oracle below is a Python statement of the property (denotation equality with
Python's own float comparison, its own mutation semantics); it does not use the Coq model."""
import itertools
import re
import jvtext as J

PROP = "C09"
DOMAIN = "eq"
LEVEL = "proof"
TECHNIQUE = "Coq proof over all trees (EqProofs.v, structural induction) + extracted-model/C differential correspondence + direct denotational oracle"
RULE = ("pairs/triples of trees generated independently from small alphabets (so that equal pairs occur), as one-position "
        "mutations, as member permutations / representation changes (int64<->uint64, +0<->-0, retained text) of one another, "
        "plus a fixed table of boundary pairs (2^63 in both representations, NaN, empty containers vs null, strings with "
        "embedded NUL); copy sources of every shape with a mutation probe addressed by a path, the comparisons and the copy "
        "repeated on the mutated trees; pairs of trees that first get a history of public mutators (value-preserving round "
        "trips that change only the memory representation — strings grown and set back, int64<->uint64 setters, members "
        "added and deleted incl. table resizes, put_idx gaps and del_idx —, start trees grown into the target value, random "
        "walks) compared with directly built trees of the same / another value; deep copies through a caller-supplied "
        "shallow-copy callback whose answers (1, 2, 2 + application userdata, -1 before / after creating the node) follow "
        "scripted predicates on type, parent type, depth, index / key, call number, every k-th call, with source nodes "
        "carrying application userdata that the callback does or does not take care of; process-wide settings "
        "(json_global_set_string_hash default / perl-like, json_c_set_serialization_double_format) changed at random points "
        "between building, mutating, deep-copying and comparing the trees, restored after every case; sources whose member "
        "names (selected by the same predicates) live in exact-size driver-owned heap buffers (JSON_C_OBJECT_ADD_CONSTANT_KEY), "
        "with the key pointers of the copy checked against the source's and the buffers, the buffers changed in place, then "
        "poisoned and freed after the source was destroyed, the copy observed after each step; fixed histories on objects created "
        "under the seedless perl-like hash whose member names collide at the last / a middle slot of a 16- and a 32-slot table "
        "(first, second, both deleted, one re-added, every member looked up); plus a small-scope EXHAUSTIVE "
        "block (kind small-scope; sizes in coverage.small_scope): every pair of a 60-value branch table and of all trees of "
        "<= 2 slots through equal, every triple of an 18-value table, every tree of <= 3 slots x every callback answer "
        "schedule, every history of <= 2 of 23 steps (one per mutator / refusal / setting) on two documents, every tree of "
        "<= 3 slots x every subset of borrowed member names, every tree of <= 2 slots x one probe per mutator (thorough: one "
        "step deeper); a case is non-trivial when "
        "the implementation produced a well-formed observation for it; distinct = distinct script line")
TRUSTED = ["Coq 8.16.1 kernel (coqc), no axioms (Print Assumptions: closed under the global context)",
           "extraction (ExtrOcamlBasic only) + ocaml/mdrv glue (drv_eq.ml, jvtext.ml)",
           "harness/drv_eq.c, jvtext.h, xalloc.c, gcc -fsanitize=address,undefined",
           "Python oracle in checks/C09.py (denotation, mutation semantics, IEEE comparison by the host's floats)"]
ASSUMPTIONS = ["trees are well formed: int64/uint64 nodes in range, keys of one object pairwise distinct (hash-table invariant), "
               "keys and retained number texts contain no NUL",
               "the heap is abstracted to trees whose nodes carry addresses (one fresh address per allocated node); buffers "
               "owned by a node (string bytes, retained text, array storage, hash table) are covered only by the "
               "correspondence run under ASan (mutation / destruction probes), not by a theorem",
               "serializers are functions of the tree (default serializers; custom user serializers are out of scope)"]

NANBITS = 0x7ff8000000000000
FLAGNAMES = ["PLAIN", "SPACED", "PRETTY", "PRETTY|PRETTY_TAB", "NOZERO", "NOSLASHESCAPE"]


# ------------------------------------------------------------------ trees
def is_obj(v):
    return isinstance(v, tuple) and v[0] == "o"


def is_num(v, k):
    return isinstance(v, tuple) and v[0] == k


def kids(v):
    if isinstance(v, list):
        return list(v)
    if is_obj(v):
        return [x for _, x in v[1]]
    return []


def with_kids(v, ks):
    if isinstance(v, list):
        return list(ks)
    return ("o", [(k, x) for (k, _), x in zip(v[1], ks)])


def paths(v, pre=()):
    yield pre
    for i, c in enumerate(kids(v)):
        for p in paths(c, pre + (i,)):
            yield p


def get(v, p):
    for i in p:
        v = kids(v)[i]
    return v


def put(v, p, new):
    if not p:
        return new
    ks = kids(v)
    ks[p[0]] = put(ks[p[0]], p[1:], new)
    return with_kids(v, ks)


def delete(v, p):
    """remove the child addressed by p (non-empty) from its parent"""
    if len(p) == 1:
        if isinstance(v, list):
            return v[:p[0]] + v[p[0] + 1:]
        return ("o", v[1][:p[0]] + v[1][p[0] + 1:])
    ks = kids(v)
    ks[p[0]] = delete(ks[p[0]], p[1:])
    return with_kids(v, ks)


def count_nodes(v):
    return (0 if v is None else 1) + sum(count_nodes(c) for c in kids(v))


def is_nan_bits(b):
    return (b >> 52) & 0x7ff == 0x7ff and (b & ((1 << 52) - 1)) != 0


def has_nan(v):
    if is_num(v, "d"):
        return is_nan_bits(v[1])
    return any(has_nan(c) for c in kids(v))


def canon(v):
    """what a typed dump shows: NaN payloads collapsed"""
    if is_num(v, "d") and is_nan_bits(v[1]):
        return ("d", NANBITS, v[2])
    if isinstance(v, list):
        return [canon(x) for x in v]
    if is_obj(v):
        return ("o", [(k, canon(x)) for k, x in v[1]])
    return v


# ------------------------------------------------------------------ the property statement
def den(v):
    """mathematical value of a NaN-free tree: integers by value whatever the representation,
    doubles by IEEE value (host floats: -0.0 == 0.0), strings by bytes, arrays by sequence,
    objects as key->value maps, kinds kept apart"""
    if v is None:
        return ("null",)
    if v is True or v is False:
        return ("bool", v)
    if isinstance(v, bytes):
        return ("str", v)
    if isinstance(v, list):
        return ("arr", tuple(den(x) for x in v))
    if v[0] in "iu":
        return ("int", v[1])
    if v[0] == "d":
        return ("dbl", J.bits2d(v[1]) + 0.0 if J.bits2d(v[1]) != 0 else 0.0)
    if v[0] == "o":
        return ("obj", tuple(sorted(((k, den(x)) for k, x in v[1]), key=lambda kv: kv[0])))
    raise ValueError(v)


def should_equal(a, b):
    """two distinct nodes are equal iff neither contains a NaN and they denote the same value"""
    return (not has_nan(a)) and (not has_nan(b)) and den(a) == den(b)


# mutation semantics of the public setters (independent restatement)
STEP = re.compile(r"/(i(\d+)|k(-|[0-9a-f]*))")


def unhex(h):
    return b"" if h == "-" else bytes.fromhex(h)


def py_mutate(v, mut):
    """returns (ok, tree')"""
    if mut[0] == "@":
        # a process-wide setting: accepted iff its argument is valid; never touches a tree
        if mut[1] == "H":
            return mut[2:] in ("0", "1"), v
        return mut[1] == "F", v
    pos = 0
    path = []
    while pos < len(mut) and mut[pos] == "/":
        m = STEP.match(mut, pos)
        path.append(("i", int(m.group(2))) if m.group(2) is not None else ("k", unhex(m.group(3))))
        pos = m.end()
    assert mut[pos] == ":"
    op, arg = mut[pos + 1], mut[pos + 2:]

    def apply(x):
        if x is None:
            return None
        if op == "A" and isinstance(x, list):
            return x + [J.parse(arg)[0]]
        if op == "P" and is_obj(x):
            k, rest = arg.split("=", 1)
            k, val = unhex(k), J.parse(rest)[0]
            if any(kk == k for kk, _ in x[1]):
                return ("o", [(kk, val if kk == k else xx) for kk, xx in x[1]])
            return ("o", x[1] + [(k, val)])
        if op == "K" and is_obj(x):
            k = unhex(arg)
            return ("o", [(kk, xx) for kk, xx in x[1] if kk != k])
        if op == "I" and (is_num(x, "i") or is_num(x, "u")):
            return ("i", int(arg))
        if op == "U" and (is_num(x, "i") or is_num(x, "u")):
            return ("u", int(arg))
        if op == "B" and (x is True or x is False):
            return arg == "1"
        if op == "Z" and isinstance(x, list):
            i, rest = arg.split("=", 1)
            i, val = int(i), J.parse(rest)[0]
            if i < len(x):
                return x[:i] + [val] + x[i + 1:]
            return x + [None] * (i - len(x)) + [val]
        if op == "X" and isinstance(x, list):
            i, c = [int(t) for t in arg.split(",")]
            if i >= len(x) or i + c > len(x):
                return None
            return x[:i] + x[i + c:]
        if op == "S" and isinstance(x, bytes):
            return unhex(arg)
        if op == "D" and is_num(x, "d"):
            return ("d", int(arg, 16), None)
        return None

    class Bad(Exception):
        pass

    def go(x, steps):
        if not steps:
            r = apply(x)
            if r is None:
                raise Bad()
            return r
        kind, key = steps[0]
        if kind == "i":
            if not isinstance(x, list) or key >= len(x):
                raise Bad()
            return x[:key] + [go(x[key], steps[1:])] + x[key + 1:]
        if not is_obj(x) or all(kk != key for kk, _ in x[1]):
            raise Bad()
        return ("o", [(kk, go(xx, steps[1:]) if kk == key else xx) for kk, xx in x[1]])
    try:
        return True, go(v, path)
    except Bad:
        return False, v


def py_history(v, hist):
    """returns (ok-string, tree')"""
    if hist == "-":
        return "-", v
    oks = []
    for m in hist.split(";"):
        ok, v = py_mutate(v, m)
        oks.append("1" if ok else "0")
    return "".join(oks), v


# ------------------------------------------------------------------ generator
D = J.dbits
S_INTS = [("i", 0), ("u", 0), ("i", 1), ("u", 1), ("i", -1), ("i", 2), ("i", J.INT64_MAX), ("u", J.INT64_MAX),
          ("u", J.INT64_MAX + 1), ("i", J.INT64_MIN), ("u", J.UINT64_MAX), ("i", 2**53), ("u", 2**53)]
S_DBLS = [("d", 0, None), ("d", 1 << 63, None), ("d", D(1.0), None), ("d", D(1.0), b"1.0"), ("d", D(1.0), b"1"),
          ("d", D(1.0), b"1.00"), ("d", D(-1.0), None), ("d", D(0.5), None), ("d", D(2.0**63), None), ("d", D(2.0**53), None),
          ("d", 0x7ff0000000000000, None), ("d", 0xfff0000000000000, None), ("d", 1, None), ("d", (1 << 63) | 1, None),
          ("d", 0, b"0.0"), ("d", 1 << 63, b"-0.0"), ("d", D(1e300), b"1e300")]
S_NANS = [("d", NANBITS, None), ("d", 0xfff8000000000000, None), ("d", 0x7ff0000000000001, None), ("d", NANBITS, b"NaN")]
S_STRS = [b"", b"a", b"b", b"ab", b"a\0", b"a\0b", b"a\0c", b"\0", b"\0\0", b"a" * 40, b"a" * 39 + b"b", b"/", b"\xc3\xa9"]
S_KEYS = [b"", b"a", b"b", b"c", b"ab", b"k"]
TEXTS = [None, b"1.0", b"1", b"-0", b"0.0", b"1e0", b"0.10", b"123456789012345678901234567890"]


def small_tree(rng, depth, size=3, nan=0.0):
    r = rng.random()
    if depth > 0 and r < 0.22:
        return [small_tree(rng, depth - 1, size, nan) for _ in range(rng.randint(0, size))]
    if depth > 0 and r < 0.44:
        ks = rng.sample(S_KEYS, rng.randint(0, min(size, len(S_KEYS))))
        return ("o", [(k, small_tree(rng, depth - 1, size, nan)) for k in ks])
    if r < 0.52:
        return None
    if r < 0.58:
        return rng.random() < 0.5
    if r < 0.74:
        return rng.choice(S_INTS)
    if r < 0.88:
        if rng.random() < nan:
            return rng.choice(S_NANS)
        return rng.choice(S_DBLS)
    return rng.choice(S_STRS)


def big_tree(rng, nan=False):
    return J.gen_tree(rng, depth=rng.choice([1, 2, 3]), size=rng.choice([2, 3, 5]), nan=nan)


def add_texts(rng, v, p=0.3):
    """retain a number text on some doubles (any NUL-free text: equality ignores it, copy keeps it)"""
    if is_num(v, "d") and v[2] is None and rng.random() < p:
        return ("d", v[1], rng.choice(TEXTS[1:]))
    if isinstance(v, list):
        return [add_texts(rng, x, p) for x in v]
    if is_obj(v):
        return ("o", [(k, add_texts(rng, x, p)) for k, x in v[1]])
    return v


def permute(rng, v):
    if isinstance(v, list):
        return [permute(rng, x) for x in v]
    if is_obj(v):
        ms = [(k, permute(rng, x)) for k, x in v[1]]
        rng.shuffle(ms)
        return ("o", ms)
    return v


def repflip(rng, v):
    """another representation of the same value"""
    if isinstance(v, list):
        return [repflip(rng, x) for x in v]
    if is_obj(v):
        ms = [(k, repflip(rng, x)) for k, x in v[1]]
        if rng.random() < 0.7:
            rng.shuffle(ms)
        return ("o", ms)
    if (is_num(v, "i") or is_num(v, "u")) and 0 <= v[1] <= J.INT64_MAX and rng.random() < 0.6:
        return ("u" if v[0] == "i" else "i", v[1])
    if is_num(v, "d"):
        bits = v[1]
        if bits & ~(1 << 63) == 0 and rng.random() < 0.6:
            bits ^= 1 << 63
        return ("d", bits, rng.choice(TEXTS) if rng.random() < 0.5 else v[2])
    return v


def mutate_one(rng, v):
    """change one position"""
    ps = list(paths(v))
    p = rng.choice(ps)
    x = get(v, p)
    r = rng.random()
    if x is None:
        new = rng.choice([[], ("o", []), False, ("i", 0), b"", ("d", 0, None)])
    elif x is True or x is False:
        new = (not x) if r < 0.6 else rng.choice([None, ("i", int(x)), b"true"])
    elif is_num(x, "i") or is_num(x, "u"):
        z = x[1]
        cands = [("i", z + 1), ("i", z - 1), ("u", z + 1), ("i", -z), ("d", D(float(z)), None), ("u", z % (1 << 64)), ("i", z - (1 << 64)),
                 b"%d" % z]
        cands = [c for c in cands if not isinstance(c, tuple) or c[0] == "d" or (c[0] == "i" and J.INT64_MIN <= c[1] <= J.INT64_MAX)
                 or (c[0] == "u" and 0 <= c[1] <= J.UINT64_MAX)]
        new = rng.choice(cands)
    elif is_num(x, "d"):
        b = x[1]
        new = rng.choice([("d", b ^ (1 << 63), x[2]), ("d", b ^ 1, x[2]), ("d", NANBITS, x[2]), ("d", b ^ (1 << 52), x[2]),
                          ("i", 0), ("d", b, None)])
    elif isinstance(x, bytes):
        cands = [x + b"\0", x + b"a", x[:-1], x[:-1] + bytes([(x[-1] + 1) % 256]) if x else b"\0", bytes([x[0] ^ 1]) + x[1:] if x else b"a"]
        if b"\0" in x:
            i = x.index(b"\0")
            cands.append(x[:i + 1] + b"Z" + x[i + 2:])
            cands.append(x[:i])
        new = rng.choice(cands)
    elif isinstance(x, list):
        if x and r < 0.3:
            i = rng.randrange(len(x))
            new = x[:i] + x[i + 1:]
        elif x and r < 0.45:
            new = x[:-1]                     # drop the LAST element
        elif len(x) >= 2 and r < 0.6:
            i, j = rng.sample(range(len(x)), 2)
            new = list(x)
            new[i], new[j] = new[j], new[i]
        elif r < 0.8:
            new = x + [rng.choice([None, ("i", 0), []])]
        else:
            new = rng.choice([None, ("o", []), b""])
    else:
        ms = x[1]
        used = set(k for k, _ in ms)
        free = [k for k in S_KEYS + [b"z", b"a\xff"] if k not in used]
        if ms and r < 0.3:
            i = rng.randrange(len(ms))
            new = ("o", ms[:i] + ms[i + 1:])
        elif ms and r < 0.5 and free:
            i = rng.randrange(len(ms))
            new = ("o", ms[:i] + [(rng.choice(free), ms[i][1])] + ms[i + 1:])     # rename one key
        elif r < 0.8 and free:
            new = ("o", ms + [(rng.choice(free), rng.choice([None, ("i", 0)]))])  # one more member
        elif ms:
            i = rng.randrange(len(ms))
            new = ("o", ms[:i] + [(ms[i][0], None if ms[i][1] is not None else ("i", 0))] + ms[i + 1:])
        else:
            new = rng.choice([None, []])
    return put(v, p, new)


EDGE_PAIRS = [
    ("i9223372036854775807", "u9223372036854775807"), ("u9223372036854775808", "i-9223372036854775808"),
    ("i-9223372036854775808", "u9223372036854775808"), ("u18446744073709551615", "i-1"), ("i-1", "u18446744073709551615"),
    ("u9223372036854775808", "i9223372036854775807"), ("u9223372036854775808", "u9223372036854775808"), ("i0", "u0"),
    ("u18446744073709551615", "u18446744073709551615"), ("i-9223372036854775808", "i-9223372036854775808"),
    ("i1", "d3ff0000000000000"), ("d3ff0000000000000", "u1"), ("i0", "d0000000000000000"), ("i0", "f"), ("i1", "t"), ("i0", "n"),
    ("d0000000000000000", "d8000000000000000"), ("d8000000000000000", "d0000000000000000"), ("d8000000000000000", "d8000000000000000"),
    ("d7ff8000000000000", "d7ff8000000000000"), ("dfff8000000000000", "d7ff8000000000000"), ("d7ff0000000000001", "d7ff0000000000001"),
    ("d7ff8000000000000", "d0000000000000000"), ("d7ff0000000000000", "d7ff0000000000000"), ("d7ff0000000000000", "dfff0000000000000"),
    ("d0000000000000001", "d8000000000000001"), ("d0000000000000001", "d0000000000000001"), ("d3ff0000000000000:312e30", "d3ff0000000000000:31"),
    ("d3ff0000000000000:322e30", "d4000000000000000:322e30"), ("d3ff0000000000000", "d3ff0000000000001"),
    ("[d7ff8000000000000]", "[d7ff8000000000000]"), ("{61=d7ff8000000000000}", "{61=d7ff8000000000000}"),
    ("[]", "n"), ("{}", "n"), ("n", "[]"), ("n", "{}"), ("[]", "{}"), ("{}", "[]"), ("[]", "[]"), ("{}", "{}"), ("n", "n"), ("[n]", "[]"),
    ("[]", "[n]"), ("[n]", "[n]"), ("[n,n]", "[n]"), ("{61=n}", "{}"), ("{}", "{61=n}"), ("{61=n}", "{61=n}"), ("{61=n}", "{62=n}"),
    ("{-=n}", "{}"), ("{-=i1}", "{-=i1}"), ("s-", "n"), ("s-", "s-"), ("s-", "s00"), ("s00", "s00"), ("s00", "s0000"), ("s6100", "s61"),
    ("s610062", "s610063"), ("s610062", "s610062"), ("s6100", "s6100"), ("s61", "s62"), ("s6161", "s61"), ("s-", "[]"), ("s30", "i0"),
    ("s" + "61" * 40, "s" + "61" * 39 + "62"), ("s" + "61" * 40, "s" + "61" * 40), ("s" + "61" * 31 + "00", "s" + "61" * 31),
    ("t", "f"), ("t", "t"), ("f", "n"), ("f", "i0"),
    ("{61=i1,62=i2}", "{62=i2,61=i1}"), ("{61=i1,62=i2}", "{61=i1}"), ("{61=i1}", "{61=i1,62=i2}"), ("{61=i1,62=i2}", "{61=i1,63=i2}"),
    ("{61=i1,62=i2}", "{61=i1,62=i3}"), ("{61=i1,62=i2}", "{62=i1,61=i2}"), ("{61=i1,62=n}", "{61=i1}"), ("{61=i1}", "{61=i1,62=n}"),
    ("{61=i1,62=i2,63=i3}", "{63=i3,61=i1,62=i2}"), ("{61={62=[i1,u2]}}", "{61={62=[u1,i2]}}"), ("{61=[i1,i2]}", "{61=[i2,i1]}"),
    ("[i1,i2,i3]", "[i1,i2,i4]"), ("[i1,i2,i3]", "[i1,i2]"), ("[i1,i2]", "[i1,i2,i3]"), ("[i1,i2,i3]", "[i1,i2,n]"), ("[i1,[i2,[i3]]]", "[i1,[i2,[i4]]]"),
    ("[i1,[i2,[i3]]]", "[u1,[u2,[u3]]]"), ("[[],{}]", "[{},[]]"), ("[[]]", "[[[]]]"), ("{61=[]}", "{61={}}"), ("[s00]", "[s-]"),
]

COPY_EDGES = [
    "d3ff0000000000000:312e30", "d3ff0000000000000:31", "d0000000000000000:2d30", "d8000000000000000", "d7ff8000000000000", "d7ff0000000000000",
    "[d3fb999999999999a:302e31,d3fb999999999999a,d3fb999999999999a:302e313030]", "{61=d4059000000000000:313030,62=d4059000000000000:3165322e30}",
    "i9223372036854775807", "u9223372036854775807", "u9223372036854775808", "u18446744073709551615", "i-9223372036854775808", "u0", "i0",
    "[i9223372036854775807,u9223372036854775807,u9223372036854775808,i-1,u1]", "s-", "s00", "s610062", "s" + "61" * 100, "s2f", "[]", "{}", "[n]",
    "{61=n}", "{-=n}", "[[],{},[[]],{61={}}]", "t", "f", "n", "[n,n,n]", "{61=i1,62=i2,63=i3,64=i4,65=i5,66=i6,67=i7,68=i8,69=i9,6a=i10,6b=i11,6c=i12,6d=i13,6e=i14,6f=i15,70=i16,71=i17}",
    "[i0,i1,i2,i3,i4,i5,i6,i7,i8,i9,i10,i11,i12,i13,i14,i15,i16,i17,i18,i19,i20,i21,i22,i23,i24,i25,i26,i27,i28,i29,i30,i31,i32,i33]",
    "[d7ff8000000000000,i1]", "{61=[d7ff8000000000000]}", "[s2f2f,d3ff8000000000000,d4024000000000000]",
]


def path_text(v, p):
    out = []
    for i in p:
        if isinstance(v, list):
            out.append("/i%d" % i)
        else:
            out.append("/k" + J.hx(v[1][i][0]))
        v = kids(v)[i]
    return "".join(out)


def gen_mut(rng, a):
    """a mutation probe addressed into `a` (mostly fitting the node's type)"""
    if rng.random() < 0.08:
        return rng.choice(GLOBAL_STEPS)      # the probe is a process-wide setting
    ps = list(paths(a))
    for _ in range(6):
        p = rng.choice(ps)
        x = get(a, p)
        if x is not None and x is not True and x is not False:
            break
    x = get(a, p)
    pt = path_text(a, p)
    val = J.dump(rng.choice([None, ("i", 7), b"new", [("i", 1), None], ("o", [(b"q", b"r")]), ("d", D(2.5), b"2.50")]))
    r = rng.random()
    if r < 0.08:     # deliberately unfitting / unresolvable
        return rng.choice([pt + "/i99:I1", pt + "/k7a7a:I1", pt + ":I5" if not (is_num(x, "i") or is_num(x, "u")) else pt + ":S61",
                           pt + ":A" + val if not isinstance(x, list) else pt + ":K61"])
    if isinstance(x, list):
        if r < 0.45:
            return pt + ":A" + val
        if r < 0.7:
            return pt + ":Z%d=%s" % (rng.choice([0, len(x), len(x) + 3, max(0, len(x) - 1), 17]), val)
        return pt + ":X%d,%d" % (rng.choice([0, max(0, len(x) - 1), len(x) // 2, len(x)]), rng.choice([0, 1, 1, 2, len(x)]))
    if x is True or x is False:
        return pt + ":B%d" % rng.choice([0, 1])
    if is_obj(x):
        ks = [k for k, _ in x[1]]
        if ks and r < 0.35:
            return pt + ":K" + J.hx(rng.choice(ks))
        if ks and r < 0.6:
            return pt + ":P" + J.hx(rng.choice(ks)) + "=" + val          # replace an existing member
        return pt + ":P" + J.hx(rng.choice([b"new", b"", b"zz"] + ks)) + "=" + val
    if (is_num(x, "i") or is_num(x, "u")) and r < 0.5:
        return pt + ":U%d" % rng.choice([0, 42, J.INT64_MAX, J.INT64_MAX + 1, J.UINT64_MAX, x[1] if x[1] >= 0 else 1])
    if is_num(x, "i") or is_num(x, "u"):
        return pt + ":I%d" % rng.choice([0, -1, 42, J.INT64_MAX, J.INT64_MIN, x[1] + 1 if x[1] < J.INT64_MAX else 5])
    if is_num(x, "d"):
        return pt + ":D%016x" % rng.choice([D(9.75), 0, 1 << 63, NANBITS, x[1] ^ 1])
    if isinstance(x, bytes):
        return pt + ":S" + J.hx(rng.choice([b"", b"x", x + b"!", x[:-1], b"\0z", b"y" * 70, x + b"w" * rng.choice([1, 8, 30, 200]), x]))
    return pt + ":I1"    # null / boolean: no setter fits


LONG = [b"L" * 20, b"a considerably longer piece of text", b"z" * 33, b"q" * 200, b"\0" * 9]


def noise_history(rng, t, density=0.6):
    """mutations that leave the VALUE of t unchanged but not its memory representation:
    strings grown and set back (or set to themselves), ints re-set through the other setter,
    members / elements added and removed again, members replaced by equal values, ..."""
    h = []
    for p in paths(t):
        if rng.random() > density:
            continue
        x = get(t, p)
        pt = path_text(t, p)
        r = rng.random()
        if isinstance(x, bytes):
            big = x + rng.choice(LONG) if r < 0.7 else rng.choice(LONG)
            if r < 0.85:
                h += [pt + ":S" + J.hx(big), pt + ":S" + J.hx(x)]
            else:
                h += [pt + ":S" + J.hx(x)]
        elif is_num(x, "i") or is_num(x, "u"):
            back = pt + (":I%d" if x[0] == "i" else ":U%d") % x[1]
            if r < 0.5:
                h += [pt + ":U%d" % rng.choice([0, J.UINT64_MAX, J.INT64_MAX + 1]), back]
            elif r < 0.8:
                h += [pt + ":I%d" % rng.choice([-1, J.INT64_MIN, 5]), back]
            elif 0 <= x[1] <= J.INT64_MAX:
                h += [pt + (":U%d" if x[0] == "i" else ":I%d") % x[1]]       # same value, other representation
        elif is_num(x, "d"):
            if r < 0.5 and not is_nan_bits(x[1]):
                h += [pt + ":D%016x" % (x[1] ^ 1), pt + ":D%016x" % x[1]]     # value back, retained text gone
        elif x is True or x is False:
            h += [pt + ":B%d" % (not x), pt + ":B%d" % x]
        elif isinstance(x, list):
            n = len(x)
            v = J.dump(rng.choice([None, ("i", 3), b"tmp", [b"t"]]))
            if r < 0.4:
                h += [pt + ":A" + v, pt + ":X%d,1" % n]
            elif r < 0.7:
                k = rng.choice([1, 3, 20])
                h += [pt + ":Z%d=%s" % (n + k, v), pt + ":X%d,%d" % (n, k + 1)]
            elif n:
                i = rng.randrange(n)
                h += [pt + ":Z%d=%s" % (i, J.dump(x[i]))]                       # element replaced by an equal one
        elif is_obj(x):
            ks = [k for k, _ in x[1]]
            fresh = [k for k in [b"tmp", b"zz9", b"", b"k0"] if k not in ks]
            if r < 0.5 and fresh:
                many = rng.choice([1, 1, 2, 20])                                  # 20: forces a table resize
                names = [fresh[0] + b"%d" % j for j in range(many)]
                names = [nm for nm in names if nm not in ks]
                h += [pt + ":P" + J.hx(nm) + "=i1" for nm in names] + [pt + ":K" + J.hx(nm) for nm in names]
            elif ks:
                k = rng.choice(ks)
                h += [pt + ":P" + J.hx(k) + "=" + J.dump(dict(x[1])[k])]         # member replaced by an equal one
    return h


def shrunk_start(rng, t):
    """a start tree whose strings / ints differ from t's, and the history that sets them to t's"""
    a0, h = t, []
    for p in paths(t):
        x = get(t, p)
        pt = path_text(t, p)
        if isinstance(x, bytes) and rng.random() < 0.7:
            a0 = put(a0, p, rng.choice([b"", x[:1], x[:len(x) // 2], b"x"]))
            h.append(pt + ":S" + J.hx(x))
        elif (is_num(x, "i") or is_num(x, "u")) and rng.random() < 0.5:
            a0 = put(a0, p, rng.choice([("i", 0), ("u", J.UINT64_MAX), ("i", -1)]))
            h.append(pt + (":I%d" if x[0] == "i" else ":U%d") % x[1])
    return a0, h


def walk_history(rng, t, n):
    """n arbitrary probes applied one after the other (value changes)"""
    h = []
    for _ in range(n):
        m = gen_mut(rng, t)
        h.append(m)
        _, t = py_mutate(t, m)
    return h


GLOBAL_STEPS = ["@H1", "@H1", "@H1", "@H0", "@F" + b"%.3f".hex(), "@F" + b"%.1f".hex(), "@F" + b"%.17g".hex(), "@F" + b"%e".hex(), "@F-"]


def sprinkle_globals(rng, h, p=0.5):
    """insert settings changes at random points of a history"""
    h = list(h)
    if rng.random() < p:
        for _ in range(rng.choice([1, 1, 2, 3])):
            h.insert(rng.randint(0, len(h)), rng.choice(GLOBAL_STEPS))
    return h


def hist_text(h):
    return ";".join(h) if h else "-"


def gen_H(rng, out):
    r = rng.random()
    if r < 0.5:
        t = add_texts(rng, small_tree(rng, 3, 3, nan=0.02))
    elif r < 0.85:
        t = add_texts(rng, J.gen_tree(rng, depth=rng.choice([1, 2, 3]), size=rng.choice([2, 3, 5]), nan=rng.random() < 0.1), 0.3)
    else:
        t = rng.choice(S_STRS + S_INTS + [[b"x"], ("o", [(b"k", [b"x"])])])
    if t is None:
        t = [None]
    r = rng.random()
    if r < 0.40:
        a0, ha, kind = t, noise_history(rng, t), "H-noise"
    elif r < 0.70:
        a0, ha = shrunk_start(rng, t)
        kind = "H-grown"
    elif r < 0.85:
        a0, ha = shrunk_start(rng, t)
        ha = ha + noise_history(rng, t, 0.3)
        kind = "H-grown+noise"
    else:
        a0, ha, kind = t, walk_history(rng, t, rng.randint(1, 6)), "H-walk"
    _, ta = py_history(a0, hist_text(ha))
    r = rng.random()
    if r < 0.35:
        b0 = ta                       # the value a reaches, built directly
    elif r < 0.55:
        b0 = repflip(rng, ta)
    elif r < 0.70:
        b0 = permute(rng, ta)
    elif r < 0.88:
        b0 = mutate_one(rng, ta)
    else:
        b0 = t
    if b0 is None:
        b0 = [None]
    hb = noise_history(rng, b0, 0.4) if rng.random() < 0.35 else []
    hg = []
    if rng.random() < 0.45:      # process-wide settings changed somewhere between building and comparing
        ha, hb = sprinkle_globals(rng, ha), sprinkle_globals(rng, hb, 0.3)
        hg = sprinkle_globals(rng, [], 0.5)
        kind += "+settings"
    out.append(("eq H %s %s %s %s %s" % (J.dump(a0), hist_text(ha), J.dump(b0), hist_text(hb), hist_text(hg)), {"kind": kind}))


def gen_G(rng, out):
    """no tree mutation at all: build, change a setting, compare / copy / compare"""
    t = add_texts(rng, small_tree(rng, 3, 4, nan=0.02)) if rng.random() < 0.6 else J.gen_tree(rng, depth=rng.choice([2, 3]), size=rng.choice([3, 5, 9]))
    if not (isinstance(t, list) or is_obj(t)) or rng.random() < 0.3:
        t = ("o", [(b"k", t), (b"l", [t, ("o", [(b"m", t)])])])
    b = rng.choice([t, t, permute(rng, t), repflip(rng, t), mutate_one(rng, t)])
    ha = sprinkle_globals(rng, [], 0.8)
    hb = sprinkle_globals(rng, [], 0.3)
    hg = sprinkle_globals(rng, [], 0.6)
    out.append(("eq H %s %s %s %s %s" % (J.dump(t), hist_text(ha), J.dump(b), hist_text(hb), hist_text(hg)), {"kind": "H-settings-only"}))


# ---- deep copy through a scripted callback -------------------------------------------
def type_char(v):
    if v is None:
        return "n"
    if isinstance(v, list):
        return "a"
    if is_obj(v):
        return "o"
    if isinstance(v, bytes):
        return "s"
    if v is True or v is False:
        return "b"
    return {"i": "i", "u": "i", "d": "d"}[v[0]]


def atom_match(a, c):
    k, arg = a[0], a[1:]
    if k == "*":
        return True
    if k == "t":
        return arg == c["type"]
    if k == "p":
        return arg == c["ptype"]
    if k == "d":
        return c["depth"] == int(arg)
    if k == "D":
        return c["depth"] >= int(arg)
    if k == "i":
        return c["idx"] is not None and c["idx"] == int(arg)
    if k == "k":
        return c["key"] is not None and c["key"] == unhex(arg)
    if k == "m":
        kk, r = arg.split(",")
        return c["n"] >= 0 and int(kk) > 0 and c["n"] % int(kk) == int(r)
    if k == "c":
        return c["n"] >= 0 and c["n"] == int(arg)
    return False


def cond_match(cond, c):
    return all(a != "" and atom_match(a, c) for a in cond.split("&"))


def cb_answer(rules, c):
    if rules == "-":
        return "1"
    for r in rules.split(";"):
        if len(r) >= 2 and r[-2] == "=" and cond_match(r[:-2], c):
            return r[-1]
    return "1"


def cb_tagged(tags, c):
    return tags != "-" and c["type"] != "d" and any(cond_match(t, c) for t in tags.split(";"))


def cb_simulate(a, rules, tags):
    """what the documented contract of json_object_deep_copy says for this callback:
    (succeeds, number of callback calls, nodes of the copy carrying the application tag)"""
    st = {"n": 0, "tags": 0}

    def visit(x, ptype, depth, idx, key):
        c = dict(n=st["n"], type=type_char(x), ptype=ptype, depth=depth, idx=idx, key=key)
        st["n"] += 1
        ans = cb_answer(rules, c)
        if ans in "FG":
            return False
        if isinstance(x, list):
            for i, ch in enumerate(x):
                if ch is not None and not visit(ch, "a", depth + 1, i, None):
                    return False
        elif is_obj(x):
            for k, ch in x[1]:
                if ch is not None and not visit(ch, "o", depth + 1, None, k):
                    return False
        if ans not in "2T" and cb_tagged(tags, c):
            return False          # the library cannot copy userdata of a serializer it does not know
        if ans == "T" and c["type"] != "d":
            st["tags"] += 1
        return True
    if a is None:
        return False, 0, 0
    ok = visit(a, "r", 0, None, None)
    return ok, st["n"], st["tags"]


def gen_cond(rng, a):
    ks = [k for p in paths(a) if is_obj(get(a, p)) for k, _ in get(a, p)[1]]
    atoms = ["to", "ta", "ts", "ti", "td", "tb", "po", "pa", "pr", "d0", "d1", "d2", "D1", "D2", "i0", "i1", "i2",
             "m2,0", "m2,1", "m3,0", "m3,2", "m5,1", "c0", "c1", "c%d" % rng.randint(0, 12)]
    if ks:
        atoms += ["k" + J.hx(rng.choice(ks))] * 3
    c = rng.choice(atoms)
    if rng.random() < 0.25:
        c += "&" + rng.choice(atoms)
    return c


def gen_Y(rng, out):
    r = rng.random()
    if r < 0.55:
        a = add_texts(rng, small_tree(rng, 3, 4, nan=0.02), 0.5)
    elif r < 0.9:
        a = add_texts(rng, J.gen_tree(rng, depth=rng.choice([1, 2, 3, 4]), size=rng.choice([2, 4, 6]), nan=rng.random() < 0.1), 0.4)
    else:
        a = J.parse(rng.choice(COPY_EDGES))[0]
    n = count_nodes(a)
    r = rng.random()
    tags = []
    if r < 0.30:       # containers answered 2 / T, the rest anything that does not fail
        rules = [rng.choice(["to=2", "ta=2", "to=T", "ta=T", "to=2;ta=T", "*=2", "*=T", "pr=2", "d0=T;d1=2", "D1&to=2", "D1&ta=T"])]
        kind = "Y-containers-2"
    elif r < 0.60:     # arbitrary never-failing answer pattern
        rules = ["%s=%s" % (gen_cond(rng, a), rng.choice("12T2T")) for _ in range(rng.randint(1, 5))]
        if rng.random() < 0.5:
            rules.append("*=" + rng.choice("12T"))
        kind = "Y-pattern"
    elif r < 0.78:     # source nodes carry application userdata and the callback takes care of them
        tags = [gen_cond(rng, a) for _ in range(rng.randint(1, 3))]
        rules = ["%s=%s" % (t, rng.choice("T2T")) for t in tags]
        rules += ["%s=%s" % (gen_cond(rng, a), rng.choice("12T")) for _ in range(rng.randint(0, 3))]
        kind = "Y-tagged-handled"
    elif r < 0.86:     # ... or does not (the library must refuse)
        tags = [gen_cond(rng, a) for _ in range(rng.randint(1, 2))]
        rules = ["%s=%s" % (gen_cond(rng, a), rng.choice("12T")) for _ in range(rng.randint(0, 3))]
        kind = "Y-tagged-unhandled"
    else:              # the callback fails at the n-th call / on some kind of node
        rules = ["%s=%s" % (rng.choice(["c%d" % rng.randint(0, n), "c%d" % rng.randint(0, n), gen_cond(rng, a)]), rng.choice("FG"))]
        rules += ["%s=%s" % (gen_cond(rng, a), rng.choice("12T")) for _ in range(rng.randint(0, 3))]
        rng.shuffle(rules)
        kind = "Y-fails"
    out.append(("eq Y %s %s %s" % (J.dump(a), ";".join(rules) if rules else "-", ";".join(tags) if tags else "-"), {"kind": kind}))


def const_members(a, conds):
    """(tree with the first byte of every selected member name overwritten as the driver does,
    number of selected members, number of members)"""
    st = {"n": 0, "sel": 0, "tot": 0}

    def flip(k):
        return k if not k else (b"Y" if k[:1] == b"Z" else b"Z") + k[1:]

    def go(x, depth):
        if x is None:
            return None
        st["n"] += 1
        if isinstance(x, list):
            return [go(ch, depth + 1) for ch in x]
        if is_obj(x):
            ms = []
            for k, ch in x[1]:
                no = -1 if ch is None else st["n"]
                ch2 = go(ch, depth + 1)
                c = dict(n=no, type=type_char(ch), ptype="o", depth=depth + 1, idx=None, key=k)
                st["tot"] += 1
                if conds != "-" and any(cond_match(t, c) for t in conds.split(";")):
                    st["sel"] += 1
                    ms.append((flip(k), ch2))
                else:
                    ms.append((k, ch2))
            return ("o", ms)
        return x
    t = go(a, 0)
    return t, st["sel"], st["tot"]


def apply_ud(a, rules):
    """source nodes given the stock serializer: (tree whose annotated doubles carry the text, [(number, text, 'D'|'N')])"""
    st = {"n": 0}
    anns = []

    def go(x, ptype, depth, idx, key):
        if x is None:
            return None
        n = st["n"]
        st["n"] += 1
        c = dict(n=n, type=type_char(x), ptype=ptype, depth=depth, idx=idx, key=key)
        ans = cb_answer(rules, c)
        text = b"<u%d>" % n
        hit = ans in ("D", "N")
        if hit:
            anns.append((n, text, ans))
        if isinstance(x, list):
            return [go(ch, "a", depth + 1, i, None) for i, ch in enumerate(x)]
        if is_obj(x):
            return ("o", [(k, go(ch, "o", depth + 1, None, k)) for k, ch in x[1]])
        if is_num(x, "d") and hit:
            return ("d", x[1], text)
        return x
    return go(a, "r", 0, None, None), anns


def flip_anns(anns):
    """the driver overwrites the first byte of each of its (N) buffers"""
    return [(n, ((b"Y" if t[:1] == b"Z" else b"Z") + t[1:]) if k == "N" else t, k) for n, t, k in anns]


def ud_text(anns):
    return ",".join("%d:%s:%s" % (n, J.hx(t), k) for n, t, k in anns) if anns else "-"


def retext(v, anns):
    """doubles show the text of the stock serializer as their retained text"""
    by = dict((n, t) for n, t, _ in anns)
    st = {"n": 0}

    def go(x):
        if x is None:
            return None
        n = st["n"]
        st["n"] += 1
        if isinstance(x, list):
            return [go(ch) for ch in x]
        if is_obj(x):
            return ("o", [(k, go(ch)) for k, ch in x[1]])
        if is_num(x, "d") and n in by:
            return ("d", x[1], by[n])
        return x
    return go(v)


OBSERVATIONS = {}


def gen_B(rng, out):
    r = rng.random()
    if r < 0.5:
        a = add_texts(rng, small_tree(rng, 3, 4, nan=0.02), 0.3)
    elif r < 0.9:
        a = J.gen_tree(rng, depth=rng.choice([1, 2, 3, 4]), size=rng.choice([2, 4, 6]), nan=rng.random() < 0.1)
    else:
        a = ("o", [(k, rng.choice(S_INTS + S_STRS)) for k in rng.sample(J.KEY_EDGES, rng.randint(1, 8))])
    if not any(is_obj(get(a, p)) and get(a, p)[1] for p in paths(a)):
        a = ("o", [(b"alpha", a), (b"beta", ("o", [(b"gamma", ("i", 3))])), (b"", [a])])
    r = rng.random()
    if r < 0.35:
        conds = "*"
    elif r < 0.9:
        conds = ";".join(gen_cond(rng, a) for _ in range(rng.randint(1, 3)))
    else:
        conds = "-"
    r = rng.random()
    if r < 0.35:
        ud = "-"
    elif r < 0.55:
        ud = rng.choice(["*=N", "*=D", "m2,0=N;*=D", "to=N;ta=D", "ts=N;ti=D;td=N", "td=N", "td=D;tb=N"])
    else:
        ud = ";".join("%s=%s" % (gen_cond(rng, a), rng.choice("DNN")) for _ in range(rng.randint(1, 4)))
    mut = gen_mut(rng, a)
    if ":D" in mut:       # json_object_set_double keeps the text of the PUBLIC stock serializer (only new_double_s's private one is reset)
        mut = ":K61"
    out.append(("eq B %s %s %s %s" % (J.dump(a), conds, ud, mut), {"kind": "B-const-keys" if ud == "-" else "B-keys+userdata"}))


B_EDGES = [
    ("{616c706861=i1,62657461={67616d6d61=i3},64656c7461=s78}", "k616c706861;k62657461;k67616d6d61", "/k62657461:P7a=i9"),
    ("{616c706861=i1,62657461={67616d6d61=i3},64656c7461=s78}", "-", ":K616c706861"), ("{61=i1}", "*", ":K61"), ("{-=i1}", "*", ":P-=n"),
    ("{5a=i1,59=i2}", "*", ":K5a"), ("[{61={62={63=n}}}]", "*", "/i0/k61/k62:P64=t"), ("{61=i1,62=i2,63=i3}", "m2,1", ":P62=s78"),
    ("{61=d7ff8000000000000}", "*", ":I1"), ("{}", "*", ":P61=i1"), ("[[],{}]", "*", ":A{61=n}"), ("i1", "*", ":I2"), ("n", "*", ":I2"),
    ("{6b6b6b6b6b6b6b6b6b6b6b6b6b6b6b6b6b6b6b6b6b6b6b6b6b6b6b6b6b6b6b6b6b6b6b6b6b6b6b6b=s78}", "*", ":K6b"),
]

Y_EDGES = [
    # the documented use: tagged containers carried over by the callback
    ("{6e=s6e,63={61=i1,62=[t,n,d4004000000000000:322e3530],63={64=s65}},6c=[i1,{78=i-7},[u18446744073709551615]],74=n}", "k63=T;k6c=T", "k63;k6c"),
    ("{61=[i1,i2]}", "to=2", "-"), ("{61=[i1,i2]}", "ta=2", "-"), ("[[i1],[]]", "*=2", "-"), ("[]", "*=2", "-"), ("{}", "*=T", "-"),
    ("[d3ff0000000000000:312e30]", "td=2", "-"), ("[d3ff0000000000000:312e30]", "td=T", "-"), ("d3ff0000000000000:312e30", "*=2", "-"),
    ("[d3ff0000000000000:312e30,d3ff0000000000000]", "i0=2", "-"), ("[u9223372036854775808,i-1,s00,t,n]", "m2,0=2", "-"),
    ("{61={62={63=[s78]}}}", "D2=2", "-"), ("{61={62={63=[s78]}}}", "d1=T", "d1"), ("{61={62={63=[s78]}}}", "-", "d1"),
    ("[i1,i2,i3]", "c0=F", "-"), ("[i1,i2,i3]", "c3=F", "-"), ("[i1,i2,i3]", "c3=G", "-"), ("[i1,[i2,[i3]]]", "c4=G", "-"), ("i1", "c0=G", "-"),
    ("[i1,i2,i3]", "c4=F", "-"), ("{61=i1,62=[s78,s79]}", "ts=F;*=2", "-"), ("n", "*=2", "-"), ("[n,n]", "*=2", "-"), ("[s78]", "-", "ts"),
]


# ---- small-scope exhaustive enumeration ---------------------------------------------------
SS_LEAVES = [None, True, ("i", 1), ("u", 1), b"a", ("d", 0, None)]
SS_KEYS = [b"a", b"b"]
_ss_memo = {}


def ss_trees(n):
    """every tree with exactly n slots (a null slot counts) over SS_LEAVES / SS_KEYS"""
    if n in _ss_memo:
        return _ss_memo[n]
    if n == 1:
        r = list(SS_LEAVES) + [[], ("o", [])]
    else:
        r = []
        for k in range(1, n):
            for comp in itertools.product(range(1, n), repeat=k):
                if sum(comp) != n - 1:
                    continue
                for kids_ in itertools.product(*[ss_trees(c) for c in comp]):
                    r.append(list(kids_))
                    if k <= len(SS_KEYS):
                        for ks in itertools.permutations(SS_KEYS, k):
                            r.append(("o", list(zip(ks, kids_))))
    _ss_memo[n] = r
    return r


def ss_upto(n):
    return [t for i in range(1, n + 1) for t in ss_trees(i)]


# one value per branch of json_object_equal (and a few that look alike)
SS_VALUES = ["n", "t", "f", "i0", "u0", "i1", "u1", "i-1", "i9223372036854775807", "u9223372036854775807", "u9223372036854775808",
             "i-9223372036854775808", "u18446744073709551615", "d0000000000000000", "d8000000000000000", "d3ff0000000000000",
             "d3ff0000000000000:312e30", "d3ff0000000000000:31", "dbff0000000000000", "d7ff8000000000000", "dfff8000000000001",
             "d7ff0000000000000", "dfff0000000000000", "d0000000000000001", "d43e0000000000000", "s-", "s00", "s61", "s6100", "s610062",
             "s610063", "s62", "s6161", "s30", "s" + "61" * 40, "[]", "[n]", "[n,n]", "[i1]", "[u1]", "[i1,i2]", "[i2,i1]", "[[]]", "[{}]",
             "[d7ff8000000000000]", "{}", "{61=n}", "{62=n}", "{61=i1}", "{61=u1}", "{62=i1}", "{61=i1,62=i2}", "{62=i2,61=i1}",
             "{61=i2,62=i1}", "{61=i1,62=n}", "{-=i1}", "{61={}}", "{61=[]}", "{61={61=i1}}", "{61=d7ff8000000000000}"]
SS_TRIPLE = ["n", "i1", "u1", "i-1", "u18446744073709551615", "d3ff0000000000000", "d0000000000000000", "d8000000000000000",
             "d7ff8000000000000", "s61", "s6100", "[i1]", "[u1]", "[]", "{61=i1,62=i2}", "{62=u2,61=u1}", "{61=i1}", "{}"]
# one history step per mutator and per way of being refused, on documents shaped {a:int, b:[str]} / [int,{a:str}]
SS_DOCS = [("{61=i1,62=[s78]}", ["/k61", "/k62", "/k62/i0", "", "/k7a"]), ("[i1,{61=s78}]", ["/i0", "/i1", "/i1/k61", "", "/i5"])]
SS_LONG = b"a considerably longer piece of text".hex()


def ss_ops(pint, pcont, pstr, proot, pbad):
    """pint: path of an int, pcont: of the inner container, pstr: of a string, proot: the root, pbad: resolves nowhere"""
    return [pint + ":I5", pint + ":U5", pint + ":I1", pint + ":S61", pstr + ":S" + SS_LONG, pstr + ":S78", pstr + ":S-", pstr + ":I1",
            pcont + ":A" + "n", pcont + ":Z2=i1", pcont + ":X0,1", pcont + ":X1,1", pcont + ":P63=n", pcont + ":P61=s78", pcont + ":K61",
            proot + ":P61=i1", proot + ":K61", proot + ":K7a", proot + ":A" + "t", proot + ":X0,1", pbad + ":I1", "@H1", "@H0"]


SS_COUNTS = {}


def gen_small_scope(tier, out):
    q = tier == "quick"
    n0 = len(out)

    def add(line, sub):
        out.append((line, {"kind": "small-scope", "sub": sub}))
        SS_COUNTS[sub] = SS_COUNTS.get(sub, 0) + 1
    SS_COUNTS.clear()
    # 1. every ordered pair of the branch table through json_object_equal
    for a, b in itertools.product(SS_VALUES, repeat=2):
        add("eq E %s %s" % (a, b), "E: pairs of the %d-value branch table" % len(SS_VALUES))
    # 2. every ordered pair of trees of <= 3 x <= 2 (thorough: <= 3 x <= 3) slots
    big = [J.dump(t) for t in ss_upto(3)]
    small = [J.dump(t) for t in ss_upto(2 if q else 3)]
    for a, b in itertools.product(big, small):
        add("eq E %s %s" % (a, b), "E: pairs of all trees of <= 3 x <= %d slots" % (2 if q else 3))
    # 3. every ordered triple of a table (transitivity at small scope)
    tri = SS_TRIPLE + ["t", "f", "s-", "[n]", "{61=n}", "dfff8000000000001", "i9223372036854775807", "u9223372036854775807"]
    if not q:
        tri = tri + ["u9223372036854775808", "i-9223372036854775808", "d3ff0000000000000:31", "s610062", "s610063", "[i1,i2]", "{61=i2,62=i1}", "[{}]"]
    for a, b, c in itertools.product(tri, repeat=3):
        add("eq T %s %s %s" % (a, b, c), "T: triples of a %d-value table" % len(tri))
    # 4. the pointer shortcut on every tree of <= 3 (4) slots
    for t in ss_upto(3 if q else 4):
        add("eq X " + J.dump(t), "X: every tree of <= %d slots shared" % (3 if q else 4))
    # 5. every tree of <= 4 slots x every callback answer schedule
    for t in ss_upto(4):
        n = count_nodes(t)
        if n == 0:
            add("eq Y n *=2 -", "Y: NULL source")
            continue
        alpha = "12TFG" if n <= 2 else ("12F" if n <= 3 or not q else "12")
        for sched in itertools.product(alpha, repeat=n):
            rules = ";".join("c%d=%s" % (i, x) for i, x in enumerate(sched))
            add("eq Y %s %s -" % (J.dump(t), rules), "Y: trees of <= 4 slots x every answer schedule (1,2,T,F,G up to 2 nodes; 1,2,F for 3; %s for 4)" % ("1,2" if q else "1,2,F"))
        if n == 4 and not q:   # failure after creating the node, at each position
            for i in range(n):
                add("eq Y %s c%d=G -" % (J.dump(t), i), "Y: 4-node trees, one call failing after it created the node")
        if n <= (2 if q else 3):   # application userdata on one source node, every schedule over 1,2,T
            for tagged in range(n):
                for sched in itertools.product("12T", repeat=n):
                    rules = ";".join("c%d=%s" % (i, x) for i, x in enumerate(sched))
                    add("eq Y %s %s c%d" % (J.dump(t), rules, tagged), "Y: trees of <= %d nodes, one node with userdata x schedules over 1,2,T" % (2 if q else 3))
    # 6. every history of <= 2 (3) steps over one step per mutator / refusal / setting, against the value it reaches and the start value
    for doc, (pa, pb, pc, pr, pbad) in SS_DOCS:
        ops = ss_ops(pa, pb, pc, pr, pbad)
        d0 = J.parse(doc)[0]
        for ln in range(0, (2 if q else 3) + 1):
            for hist in itertools.product(ops, repeat=ln):
                ht = hist_text(list(hist))
                _, reached = py_history(d0, ht)
                add("eq H %s %s %s - -" % (doc, ht, J.dump(reached)), "H: histories of <= %d of %d steps vs the value reached" % (2 if q else 3, len(ops)))
                if 1 <= ln <= 2:
                    add("eq H %s %s %s - @H0" % (doc, ht, doc), "H: histories of <= 2 steps vs the start value")
    # 7. every tree of <= 3 (4) slots with members x every subset of members whose names the source borrows
    for t in ss_upto(3 if q else 4):
        _, _, nm = const_members(t, "-")
        if nm == 0:
            continue
        for sub in itertools.product([0, 1], repeat=nm):
            conds = []           # a member is addressed by (depth of its value, name)
            i = 0
            for p in paths(t):
                x = get(t, p)
                if is_obj(x):
                    for k, _ in x[1]:
                        if sub[i]:
                            conds.append("d%d&k%s" % (len(p) + 1, J.hx(k)))
                        i += 1
            for mut in ([":K61", ":A" + "n", ":P62=i7", "/k61:I3"] if count_nodes(t) <= 3 else [":K61", ":A" + "n"]):
                add("eq B %s %s - %s" % (J.dump(t), ";".join(conds) if conds else "-", mut), "B: trees of <= %d slots x every subset of borrowed names" % (3 if q else 4))
    # 7b. every tree of <= 3 (4) slots x every assignment of {no userdata, stock serializer + delete fn, stock serializer + caller buffer} to its nodes
    for t in ss_upto(3 if q else 4):
        n = count_nodes(t)
        if n == 0 or (n == 4 and q):
            continue
        for assign in itertools.product("-DN", repeat=n):
            if all(x == "-" for x in assign):
                continue
            rules = ";".join("c%d=%s" % (i, x) for i, x in enumerate(assign) if x != "-")
            add("eq B %s * %s %s" % (J.dump(t), rules, ":K61" if n % 2 else ":A" + "n"), "B: trees of <= %d slots x every assignment of stock-serializer userdata (none / with delete fn / caller buffer)" % (3 if q else 4))
    # 8. every tree of <= 3 slots as a copy source x one probe per mutator at the root (thorough: 4 slots, 5 probes)
    probes = [":A" + "n", ":P61=i2", ":K61", ":I7", ":U7", ":S" + SS_LONG, ":S-", ":D3ff0000000000000", ":B0", ":Z1=t", ":X0,1", "@H1", "/i0:I1", "/k61:I1"]
    for t in ss_upto(3):
        for mut in probes:
            add("eq C %s %s" % (J.dump(t), mut), "C: every tree of <= 3 slots x one probe per mutator")
    if not q:
        for t in ss_trees(4):
            for mut in [":A" + "n", ":P61=i2", ":K61", "/i0:S" + SS_LONG, "/k61:I1"]:
                add("eq C %s %s" % (J.dump(t), mut), "C: every tree of 4 slots x 5 probes")
    return len(out) - n0


def extra_coverage():
    return {"small_scope": dict(SS_COUNTS), "small_scope_total": sum(SS_COUNTS.values()),
            "observations_outside_the_property_text": dict(OBSERVATIONS)}


# ---- deterministic hash-table layouts ------------------------------------------------------
def perl_hash(key):
    """lh_perllike_str_hash (JSON_C_STR_HASH_PERLLIKE): unsigned 32-bit, h = h*33 + c from 1; no seed"""
    h = 1
    for c in key:
        h = (h * 33 + c) & 0xffffffff
    return h


def keys_at(slot, size, n, avoid=()):
    """n short ASCII names whose perl-like hash lands in `slot` of a table of `size` slots"""
    out = []
    i = 0
    while len(out) < n:
        k = b"k%d" % i
        i += 1
        if perl_hash(k) % size == slot and k not in avoid:
            out.append(k)
    return out


def gen_lastslot(out):
    """objects created AFTER json_global_set_string_hash(PERLLIKE) (inside the history, by :A<jv>), so
    that the slot of every member name is known: names colliding at the LAST slot of the table (the
    probe sequence wraps to slot 0) and, for contrast, at a middle slot; the first / second / both of
    the colliding members deleted, one re-added; then every remaining member is looked up (set to its
    own value through its path), the tree compared with an independently built identical one and
    with its deep copy, both ways."""
    def obj(ms):
        return "{" + ",".join("%s=i%d" % (J.hx(k), v) for k, v in ms) + "}"

    def case(ms, dels, readd, size_note):
        keep = [(k, v) for k, v in ms if k not in dels]
        steps = ["@H1", ":A" + obj(ms)] + ["/i0:K" + J.hx(k) for k in dels]
        if readd:
            steps.append("/i0:P%s=i99" % J.hx(dels[0]))
            keep = keep + [(dels[0], 99)]
        steps += ["/i0/k%s:I%d" % (J.hx(k), v) for k, v in keep]            # look every member up
        steps += ["/i0/k%s:I5" % J.hx(k) for k in dels if not (readd and k == dels[0])]   # and the deleted ones (refused)
        out.append(("eq H [] %s [] %s @H0" % (";".join(steps), ":A" + obj(keep)), {"kind": "H-table-layout"}))
    for size, nfill in ((16, 0), (16, 4), (32, 12)):
        for slot in (size - 1, size // 2):
            ks = keys_at(slot, size, 3)
            # fillers far from the probed slots (forces the growth to 32 slots when there are 12 of them)
            fill = []
            j = 0
            while len(fill) < nfill:
                cand = keys_at(3 + (len(fill) * 2) % (size - 8), size, 1 + j, avoid=ks)[-1]
                if cand not in fill:
                    fill.append(cand)
                else:
                    j += 1
            fm = [(k, 100 + i) for i, k in enumerate(fill)]
            ms3 = fm + [(k, i + 1) for i, k in enumerate(ks)]
            ms2 = fm + [(k, i + 1) for i, k in enumerate(ks[:2])]
            for ms, dels, readd in [(ms2, [ks[0]], False), (ms3, [ks[0]], False), (ms3, [ks[1]], False), (ms3, [ks[0], ks[1]], False),
                                    (ms3, [ks[1], ks[0]], False), (ms3, [ks[0]], True), (ms2, [ks[0]], True), (ms3, [ks[2]], False)]:
                case(ms, dels, readd, size)


def gen(rng, tier):
    q = tier == "quick"
    out = []

    def E(a, b, kind):
        out.append(("eq E %s %s" % (J.dump(a), J.dump(b)), {"kind": kind}))

    def T(a, b, c, kind):
        out.append(("eq T %s %s %s" % (J.dump(a), J.dump(b), J.dump(c)), {"kind": kind}))
    for a, b in EDGE_PAIRS:
        out.append(("eq E %s %s" % (a, b), {"kind": "E-edge"}))
    # every edge value against every other (ints, doubles, strings)
    flat = S_INTS + S_DBLS + S_NANS[:2] + S_STRS[:9] + [None, True, False, [], ("o", [])]
    for _ in range(400 if q else 6000):
        E(rng.choice(flat), rng.choice(flat), "E-scalars")
    for _ in range(500 if q else 20000):
        E(small_tree(rng, 2, 3, nan=0.03), small_tree(rng, 2, 3, nan=0.03), "E-indep")
    for _ in range(700 if q else 30000):
        a = add_texts(rng, small_tree(rng, 3, 3, nan=0.03)) if rng.random() < 0.6 else big_tree(rng, nan=rng.random() < 0.2)
        r = rng.random()
        if r < 0.40:
            E(a, mutate_one(rng, a), "E-mut1")
        elif r < 0.55:
            E(a, permute(rng, a), "E-perm")
        elif r < 0.80:
            E(a, repflip(rng, a), "E-rep")
        elif r < 0.90:
            E(mutate_one(rng, a), repflip(rng, a), "E-rep+mut1")
        else:
            E(a, a, "E-twin")                 # two separately built trees with the same text
    for _ in range(500 if q else 15000):
        r = rng.random()
        a = add_texts(rng, small_tree(rng, 2, 3, nan=0.02)) if rng.random() < 0.7 else big_tree(rng)
        if r < 0.35:
            T(a, repflip(rng, a), permute(rng, repflip(rng, a)), "T-equal-chain")
        elif r < 0.6:
            b = repflip(rng, a)
            T(a, b, mutate_one(rng, b), "T-broken-end")
        elif r < 0.75:
            T(mutate_one(rng, a), a, repflip(rng, a), "T-broken-start")
        elif r < 0.9:
            T(small_tree(rng, 1, 2), small_tree(rng, 1, 2), small_tree(rng, 1, 2), "T-indep")
        else:
            fl = [rng.choice(flat) for _ in range(3)]
            T(fl[0], fl[1], fl[2], "T-scalars")
    for t in ["d7ff8000000000000", "[d7ff8000000000000]", "{61=[i1,d7ff8000000000000]}", "n", "i1", "[]", "{}", "s00", "d0000000000000000"]:
        out.append(("eq X " + t, {"kind": "X-shared"}))
    for _ in range(80 if q else 2000):
        out.append(("eq X " + J.dump(small_tree(rng, 2, 3, nan=0.3)), {"kind": "X-shared"}))
    for t in COPY_EDGES:
        a = J.parse(t)[0]
        out.append(("eq C %s %s" % (t, gen_mut(rng, a)), {"kind": "C-edge"}))
    for _ in range(650 if q else 20000):
        r = rng.random()
        if r < 0.5:
            a = add_texts(rng, small_tree(rng, 3, 4, nan=0.02), 0.5)
        elif r < 0.9:
            a = add_texts(rng, J.gen_tree(rng, depth=rng.choice([1, 2, 3, 4]), size=rng.choice([2, 4, 8]), nan=rng.random() < 0.15), 0.4)
        else:
            a = add_texts(rng, rng.choice(flat), 0.5)
        out.append(("eq C %s %s" % (J.dump(a), gen_mut(rng, a)), {"kind": "C-copy"}))
    # trees with a history
    for a0, ha, b0, hb in [
            ("{6b=[s78]}", "/k6b/i0:S" + b"a considerably longer piece of text".hex(), "{6b=[s" + b"a considerably longer piece of text".hex() + "]}", "-"),
            ("s78", ":S" + "61" * 40 + ";:S78", "s78", "-"), ("s78", "-", "s78", ":S" + "61" * 40 + ";:S78"),
            ("s78", ":S" + "61" * 40 + ";:S78", "s78", ":S" + "62" * 90 + ";:S78"), ("s" + "61" * 40, ":S-", "s-", "-"),
            ("s" + "61" * 40, ":S78;:S" + "61" * 40, "s" + "61" * 40, "-"), ("s-", ":S00", "s00", "-"),
            ("i5", ":U5", "i5", "-"), ("i5", ":U9223372036854775808", "u9223372036854775808", "-"), ("u18446744073709551615", ":I-1", "i-1", "-"),
            ("u18446744073709551615", ":I-1", "u18446744073709551615", "-"), ("i-9223372036854775808", ":U9223372036854775808", "i-9223372036854775808", "-"),
            ("d3ff0000000000000:312e30", ":D3ff0000000000000", "d3ff0000000000000:312e30", "-"), ("d3ff0000000000000:312e30", ":D7ff8000000000000", "d7ff8000000000000", "-"),
            ("[i1]", ":Z3=i2", "[i1,n,n,i2]", "-"), ("[i1,i2,i3]", ":X1,1", "[i1,i3]", "-"), ("[i1,i2,i3]", ":X0,3", "[]", "-"), ("[]", ":Z0=n", "[n]", "-"),
            ("{61=i1,62=i2}", ":K61;:P61=i1", "{61=i1,62=i2}", "-"), ("{61=i1}", ":K61", "{}", "-"), ("{}", ":P61=n;:K61", "{}", "-"),
            ("t", ":B0", "f", "-"), ("[t]", "/i0:B0;/i0:B1", "[t]", "-")]:
        out.append(("eq H %s %s %s %s" % (a0, ha, b0, hb), {"kind": "H-edge"}))
    for _ in range(700 if q else 25000):
        gen_H(rng, out)
    for a0, ha, b0, hb, hg in [
            ("{61=i1,62={63=[d3ff8000000000000]}}", "@H1", "{62={63=[d3ff8000000000000]},61=i1}", "-", "-"),
            ("{61=i1}", "-", "{61=i1}", "-", "@H1"), ("{61=i1}", "@H1;@H0", "{61=i1}", "-", "-"), ("{61=i1}", "-", "{61=i1}", "@H1", "@H0"),
            ("{61=i1}", "@H1;:P62=i2;@H0", "{61=i1,62=i2}", "-", "-"), ("{61=i1,62=i2}", "@H1;:K62", "{61=i1}", "-", "@H0"),
            ("[{61={62=s78}}]", "@H1", "[{61={62=s78}}]", "@H1", "@H1"), ("{61=d3ff8000000000000}", "@F252e3166", "{61=d3ff8000000000000:312e35}", "-", "@F-"),
            ("{61=i1}", "@H7", "{61=i1}", "-", "-"), ("n", "@H1", "n", "-", "@H1;:I1")]:
        out.append(("eq H %s %s %s %s %s" % (a0, ha, b0, hb, hg), {"kind": "H-edge"}))
    for _ in range(300 if q else 8000):
        gen_G(rng, out)
    # deep copy through a caller-supplied callback
    for a, rules, tags in Y_EDGES:
        out.append(("eq Y %s %s %s" % (a, rules, tags), {"kind": "Y-edge"}))
    for _ in range(800 if q else 25000):
        gen_Y(rng, out)
    # member names in caller-owned memory
    for a, conds, mut in B_EDGES:
        out.append(("eq B %s %s - %s" % (a, conds, mut), {"kind": "B-edge"}))
    for a, conds, ud, mut in [
            ("{61=i1}", "-", "*=N", ":K61"), ("{61=i1}", "*", "*=D", ":K61"), ("i1", "-", "*=N", ":I2"), ("s78", "-", "*=N", ":S-"), ("t", "-", "*=N", ":B0"),
            ("d3ff8000000000000", "-", "*=N", ":I1"), ("d3ff8000000000000:312e35", "-", "*=N", ":I1"), ("d3ff8000000000000:312e35", "-", "*=D", ":I1"),
            ("[]", "-", "*=N", ":A" + "n"), ("{}", "-", "*=N", ":P61=n"), ("[i1,[s78,{61=t}]]", "*", "m2,0=N;m2,1=D", "/i1:A" + "n"),
            ("{61=i1,62=[s78,d3ff8000000000000:312e35],63={64=t}}", "k61", "to=D;ts=N;td=N;tb=D", "/k62:A[]"), ("[d7ff8000000000000]", "-", "td=N", ":X0,1")]:
        out.append(("eq B %s %s %s %s" % (a, conds, ud, mut), {"kind": "B-edge"}))
    for _ in range(500 if q else 15000):
        gen_B(rng, out)
    # deterministic hash-table layouts (perl-like hash: no per-process seed)
    gen_lastslot(out)
    # small-scope exhaustive block (no randomness)
    gen_small_scope(tier, out)
    return out


# ------------------------------------------------------------------ direct oracle
def bits(tokens):
    if any(t not in ("0", "1") for t in tokens):
        return None
    return [t == "1" for t in tokens]


def live_of(tok):
    return tok[5:] if tok.startswith("live=") else None


def oracle(line, meta, impl):
    if "CRASH" in impl:
        return ("crash", "implementation crashed: " + impl[:200])
    f = line.split(" ")
    op = f[1]
    t = impl.split(" ")
    if "BADTREE" in impl or "BADLINE" in impl:
        return ("malformed", "driver could not read the case: " + impl[:100])
    if op == "E":
        a, b = J.parse(f[2])[0], J.parse(f[3])[0]
        bs = bits(t[1:5]) if len(t) == 6 and t[0] == "E" else None
        if bs is None or live_of(t[5]) is None:
            return ("malformed", "unexpected driver output: " + impl[:100])
        ab, ba, aa, bb = bs
        if not aa or not bb:
            return ("refl", "a node is not equal to itself: equal(a,a)=%d equal(b,b)=%d" % (aa, bb))
        if ab != ba:
            return ("sym", "equal(a,b)=%d but equal(b,a)=%d" % (ab, ba))
        want = should_equal(a, b)
        if ab and not want:
            return ("equal-but-denote-differs", "equal(a,b)=1 for trees with different values (or a NaN in another node)")
        if want and not ab:
            return ("denote-same-but-unequal", "equal(a,b)=0 for trees denoting the same value")
        if t[5] != "live=0":
            return ("leak", "allocations left: " + t[5])
        return None
    if op == "T":
        tr = [J.parse(x)[0] for x in f[2:5]]
        bs = bits(t[1:7]) if len(t) == 8 and t[0] == "T" else None
        if bs is None or live_of(t[7]) is None:
            return ("malformed", "unexpected driver output: " + impl[:100])
        e = {(0, 1): bs[0], (1, 2): bs[1], (0, 2): bs[2], (1, 0): bs[3], (2, 1): bs[4], (2, 0): bs[5]}
        for (i, j) in [(0, 1), (1, 2), (0, 2)]:
            if e[(i, j)] != e[(j, i)]:
                return ("sym", "equal is not symmetric on trees %d,%d of the triple" % (i, j))
        for i in range(3):
            for j in range(3):
                for k in range(3):
                    if len({i, j, k}) == 3 and e[(i, j)] and e[(j, k)] and not e[(i, k)]:
                        return ("trans", "equal(%d,%d) and equal(%d,%d) but not equal(%d,%d)" % (i, j, j, k, i, k))
        for (i, j), got in e.items():
            want = should_equal(tr[i], tr[j])
            if got and not want:
                return ("equal-but-denote-differs", "trees %d,%d of the triple compare equal but denote different values" % (i, j))
            if want and not got:
                return ("denote-same-but-unequal", "trees %d,%d of the triple denote the same value but compare unequal" % (i, j))
        if t[7] != "live=0":
            return ("leak", "allocations left: " + t[7])
        return None
    if op == "X":
        bs = bits(t[1:3]) if len(t) == 4 and t[0] == "X" else None
        if bs is None:
            return ("malformed", "unexpected driver output: " + impl[:100])
        if not all(bs):
            return ("identical-node-unequal", "containers holding the identical node compare unequal: %s" % impl)
        if t[3] != "live=0":
            return ("leak", "allocations left: " + t[3])
        return None
    if op == "C":
        a = J.parse(f[2])[0]
        mut = f[3]
        parts = impl.split(" | ")
        if a is None:
            if parts[0].split(" ")[:2] != ["C", "-1"]:
                return ("copy-of-null", "deep copy of a NULL source did not fail: " + impl[:80])
            return None if parts[-1] == "live=0" else ("leak", "allocations left: " + parts[-1])
        h = parts[0].split(" ")
        if len(h) >= 2 and h[0] == "C" and h[1] != "0":
            return ("copy-failed", "deep copy failed: " + parts[0][:60])
        if len(parts) != 7 or len(h) != 22 or h[9] != "S" or live_of(parts[6]) is None:
            return ("malformed", "unexpected driver output: " + impl[:100])
        ta = J.dump(canon(a))
        nf = not has_nan(a)
        eqs = bits(h[2:4])
        if eqs is None:
            return ("malformed", "unexpected driver output: " + impl[:100])
        if h[4] != ta:
            return ("malformed", "source dump differs from the script tree: " + h[4][:80])
        if h[5] != ta:
            return ("copy-dump-differs", "typed dump of the copy differs from the source: %s vs %s" % (h[5][:100], ta[:100]))
        if nf and not all(eqs):
            return ("copy-unequal", "deep copy of a NaN-free tree does not compare equal (%s %s)" % (h[2], h[3]))
        if not nf and any(eqs):
            return ("copy-nan-equal", "a tree containing a NaN compares equal to a different node")
        if eqs[0] != eqs[1]:
            return ("sym", "equal(a,copy) != equal(copy,a)")
        n = count_nodes(a)
        if h[6] != str(n) or h[7] != str(n):
            return ("copy-node-count", "node counts: source %s copy %s, expected %d" % (h[6], h[7], n))
        if h[8] != "0":
            return ("copy-shares-node", "%s json_object node(s) reachable from both source and copy" % h[8])
        for i in range(6):
            if h[10 + 2 * i + 1] != "=" and h[10 + 2 * i + 1] != h[10 + 2 * i]:
                return ("copy-text-differs", "serialization under %s differs: %s vs %s" % (FLAGNAMES[i], h[10 + 2 * i][:80], h[11 + 2 * i][:80]))
        ok, am = py_mutate(a, mut)
        tm = J.dump(canon(am))
        okt = "ok" if ok else "bad"
        m1, m2, kc, d1, d2 = [p.split(" ") for p in parts[1:6]]
        if len(m1) != 6 or len(m2) != 7 or len(kc) != 5 or len(d1) != 3 or len(d2) != 3 or m1[0] != "M1" or m2[0] != "M2" or kc[0] != "K":
            return ("malformed", "unexpected driver output: " + impl[:100])
        if m1[2] != ta:
            return ("mutation-reaches-source", "mutating the copy (%s) changed the source: %s" % (mut[:60], m1[2][:100]))
        if m1[1] != okt or m1[3] != tm:
            return ("mutation-result", "mutation %s of the copy gave %s %s, expected %s %s" % (mut[:60], m1[1], m1[3][:80], okt, tm[:80]))
        if m2[3] != ta:
            return ("mutation-reaches-copy", "mutating the source (%s) changed a copy: %s" % (mut[:60], m2[3][:100]))
        if m2[1] != okt or m2[2] != tm:
            return ("mutation-result", "mutation %s of the source gave %s %s, expected %s %s" % (mut[:60], m2[1], m2[2][:80], okt, tm[:80]))
        # the comparisons again, now that one / both sides have a history
        e1, e2, ek = bits(m1[4:6]), bits(m2[4:7]), bits(kc[2:4])
        if e1 is None or e2 is None or ek is None:
            return ("malformed", "unexpected driver output: " + impl[:100])
        nfm = not has_nan(am)
        for got, want, what in [(e1[0], should_equal(a, am), "equal(source, mutated copy)"), (e1[1], should_equal(am, a), "equal(mutated copy, source)"),
                                (e2[0], nfm, "equal(mutated source, equally mutated copy)"), (e2[1], nfm, "equal(equally mutated copy, mutated source)"),
                                (e2[2], should_equal(am, a), "equal(mutated source, fresh copy of the old value)")]:
            if got and not want:
                return ("equal-but-denote-differs", "%s = 1 after %s although the values differ" % (what, mut[:60]))
            if want and not got:
                return ("denote-same-but-unequal", "%s = 0 after %s although the values are the same" % (what, mut[:60]))
        if kc[1] != "0":
            return ("copy-failed", "deep copy of the mutated source failed: " + parts[3][:60])
        if kc[4] != tm:
            return ("copy-dump-differs", "typed dump of the copy of the mutated source differs: %s vs %s" % (kc[4][:100], tm[:100]))
        if nfm and not all(ek):
            return ("copy-unequal", "deep copy of a NaN-free tree with a history (%s) does not compare equal (%s %s)" % (mut[:60], kc[2], kc[3]))
        if not nfm and any(ek):
            return ("copy-nan-equal", "a tree containing a NaN compares equal to a different node")
        if d1[1] != "1" or d1[2] != tm:
            return ("destroy-reaches-source", "after destroying a copy the source reads %s (put=%s)" % (d1[2][:100], d1[1]))
        if d2[1] != "1" or d2[2] != ta:
            return ("destroy-reaches-copy", "after destroying the source the copy reads %s (put=%s)" % (d2[2][:100], d2[1]))
        if parts[6] != "live=0":
            return ("leak", "allocations left: " + parts[6])
        return None
    if op == "H":
        a0, b0 = J.parse(f[2])[0], J.parse(f[4])[0]
        oa, a = py_history(a0, f[3])
        ob, b = py_history(b0, f[5])
        parts = impl.split(" | ")
        h = parts[0].split(" ")
        if len(parts) != 3 or len(h) != 9 or h[0] != "H" or live_of(parts[2]) is None:
            return ("malformed", "unexpected driver output: " + impl[:100])
        hg = f[6] if len(f) > 6 else "-"
        og, _ = py_history(None, hg)
        sett = " (process-wide settings were changed on the way)" if "@" in " ".join(f[3:]) else ""
        ta, tb = J.dump(canon(a)), J.dump(canon(b))
        if h[1] != oa or h[2] != ob or h[3] != ta or h[4] != tb:
            return ("mutation-result", "history gave %s %s / %s %s, expected %s %s / %s %s" % (h[1], h[3][:60], h[2], h[4][:60], oa, ta[:60], ob, tb[:60]))
        e = bits(h[5:9])
        if e is None:
            return ("malformed", "unexpected driver output: " + impl[:100])
        ab, ba, aa, bb = e
        if not aa or not bb:
            return ("refl", "a node with a history is not equal to itself")
        if ab != ba:
            return ("sym", "equal(a',b')=%d but equal(b',a')=%d after the histories" % (ab, ba))
        want = should_equal(a, b)
        if ab and not want:
            return ("equal-but-denote-differs", "equal(a',b')=1 after the histories although the values differ")
        if want and not ab:
            return ("denote-same-but-unequal", "equal(a',b')=0 although both histories reach the same value %s%s" % (ta[:80], sett))
        k = parts[1].split(" ")
        if a is None:
            if k[:2] != ["K", "-1"]:
                return ("copy-of-null", "deep copy of a NULL source did not fail")
            if len(k) != 5 or k[3] != og or k[4] != ("1" if want else "0"):
                return ("settings-visible", "after the settings steps %s: %s, expected %s %d" % (hg[:40], " ".join(k[3:]), og, want))
        else:
            if len(k) >= 2 and k[0] == "K" and k[1] != "0":
                return ("copy-failed", "deep copy failed: " + parts[1][:60])
            ek = bits(k[2:4] + k[11:13]) if len(k) == 13 else None
            e2 = bits(k[7:10]) if len(k) == 13 else None
            if ek is None or e2 is None:
                return ("malformed", "unexpected driver output: " + impl[:100])
            if k[6] != og:
                return ("mutation-result", "settings steps %s answered %s, expected %s" % (hg[:40], k[6], og))
            k = k[:6] + k[10:]          # K rc e1 e2 dump shared same ecb ebc
            nf = not has_nan(a)
            if k[4] != ta:
                return ("copy-dump-differs", "typed dump of the copy differs from its source (a tree with a history): %s vs %s" % (k[4][:100], ta[:100]))
            if nf and not (ek[0] and ek[1]):
                return ("copy-unequal", "deep copy of a NaN-free tree with a history does not compare equal (%s %s)%s" % (k[2], k[3], sett))
            if not nf and (ek[0] or ek[1]):
                return ("copy-nan-equal", "a tree containing a NaN compares equal to a different node")
            # the same three comparisons again after the settings steps that follow the copy
            if e2[0] != ek[0] or e2[1] != ek[1] or e2[2] != ab:
                return ("settings-visible", "after the settings steps %s the comparisons (a',copy) (copy,a') (a',b') changed from %d %d %d to %d %d %d"
                        % (hg[:40], ek[0], ek[1], ab, e2[0], e2[1], e2[2]))
            if k[5] != "0":
                return ("copy-shares-node", "%s json_object node(s) reachable from both source and copy" % k[5])
            if k[6] != "6":
                return ("copy-text-differs", "serialization of the copy differs from its source under %d of 6 flag sets" % (6 - int(k[6])))
            if ek[2] != ek[3]:
                return ("sym", "equal(copy,b') != equal(b',copy)")
            if ek[2] and not want:
                return ("equal-but-denote-differs", "equal(copy of a', b')=1 although the values differ")
            if want and not ek[2]:
                return ("trans", "a' equals its copy and equals b', but the copy does not equal b'" + sett)
        if parts[2] != "live=0":
            return ("leak", "allocations left: " + parts[2])
        return None
    if op == "B":
        a0 = J.parse(f[2])[0]
        conds = f[3]
        udrules, mut = (f[4], f[5]) if len(f) > 5 else ("-", f[4])
        parts = impl.split(" | ")
        if a0 is None:
            if parts[0].split(" ")[:2] != ["B", "-1"]:
                return ("copy-of-null", "deep copy of a NULL source did not fail: " + impl[:80])
            return None if parts[-1] == "live=0" else ("leak", "allocations left: " + parts[-1])
        h = parts[0].split(" ")
        if len(h) >= 2 and h[0] == "B" and h[1] != "0":
            return ("copy-failed", "deep copy failed: " + parts[0][:60])
        if len(h) != 16 or live_of(parts[-1]) is None:
            return ("malformed", "unexpected driver output: " + impl[:100])
        a, anns = apply_ud(a0, udrules)                 # doubles carry the stock-serializer text as retained text
        nnull = sum(1 for x in anns if x[2] == "N")
        ta = J.dump(canon(a))
        ud = ud_text(anns)
        flipped, nsel, ntot = const_members(a, conds)
        flipped = retext(flipped, flip_anns(anns))
        nf = not has_nan(a)
        eqs = bits(h[2:4])
        if eqs is None:
            return ("malformed", "unexpected driver output: " + impl[:100])
        if h[4] != ta or h[6] != str(nsel) or h[7] != str(nsel) or h[11] != ud or h[13] != str(nnull):
            return ("malformed", "source was not built as scripted: %s, %s buffers, %s constant names (expected %d), userdata %s (expected %s)"
                    % (h[4][:60], h[6], h[7], nsel, h[11][:60], ud[:60]))
        if h[5] != ta:
            return ("copy-dump-differs", "typed dump of the copy differs from the source: %s vs %s" % (h[5][:100], ta[:100]))
        if h[12] != ud:
            return ("copy-userdata-differs", "stock-serializer texts / delete functions of the copy: %s, of the source: %s" % (h[12][:100], ud[:100]))
        if nf and not all(eqs):
            return ("copy-unequal", "deep copy of a NaN-free tree does not compare equal (%s %s)" % (h[2], h[3]))
        if not nf and any(eqs):
            return ("copy-nan-equal", "a tree containing a NaN compares equal to a different node")
        if h[8] != "0" or h[9] != "0" or h[10] != "0":
            return ("copy-shares-key-storage", "of the copy's member names %s are stored where a name of the source is, %s inside a caller buffer, "
                    "%s are marked as not owned (source built with constant-key members %s)" % (h[8], h[9], h[10], conds[:40]))
        if h[14] != "0" or h[15] != "0":
            return ("copy-shares-userdata-storage", "of the copy's stock-serializer texts %s are stored where a text of the source is, %s inside a caller "
                    "buffer (source nodes given userdata by %s)" % (h[14], h[15], udrules[:40]))
        if len(parts) != 5:
            return ("malformed", "unexpected driver output: " + impl[:100])
        st_i, st_f, st_p = [p.split(" ") for p in parts[1:4]]
        if len(st_i) != 9 or len(st_f) != 8 or len(st_p) != 3 or st_i[0] != "I" or st_f[0] != "F" or st_p[0] != "P":
            return ("malformed", "unexpected driver output: " + impl[:100])
        if st_i[1] != J.dump(canon(flipped)) or st_i[2] != ud_text(flip_anns(anns)):
            return ("malformed", "source after the in-place change of the buffers: %s %s, expected %s %s"
                    % (st_i[1][:80], st_i[2][:40], J.dump(canon(flipped))[:80], ud_text(flip_anns(anns))[:40]))
        want = "%s %d/%d %d %d 2 %s" % (ta, ntot, ntot, nf, nf, ud)
        if " ".join(st_i[3:]) != want:
            cls = "userdata-buffer-change-reaches-copy" if (nnull and (st_i[8] != ud or st_i[3] != ta or st_i[7] != "2")) else "key-buffer-change-reaches-copy"
            return (cls, "after the caller changed its buffers in place the copy reads [%s], expected [%s]" % (" ".join(st_i[3:])[:140], want[:140]))
        if st_f[1] != "1" or " ".join(st_f[2:]) != want:
            return ("destroy-reaches-copy", "after the source was destroyed and the caller's buffers freed the copy reads [%s] (put=%s), expected [%s]"
                    % (" ".join(st_f[2:])[:140], st_f[1], want[:140]))
        ok, am = py_mutate(a, mut)
        if st_p[1] != ("ok" if ok else "bad") or st_p[2] != J.dump(canon(am)):
            return ("mutation-result", "mutation %s of the copy gave %s %s" % (mut[:60], st_p[1], st_p[2][:80]))
        # json_object_copy_serializer_data takes the delete function over from the source: the text it
        # duplicated for a node WITHOUT delete function is released by nobody.  Not part of the text of
        # C09 (recorded as an observation, see OBSERVATIONS); anything beyond exactly that is a leak.
        live = live_of(parts[-1])
        if live == str(nnull) and nnull > 0:
            o = OBSERVATIONS.setdefault("copy-userdata-null-delete-leak", {"cases": 0, "blocks": 0, "witness": line[:200]})
            o["cases"] += 1
            o["blocks"] += nnull
        elif live != "0":
            return ("leak", "allocations left: %s (expected 0%s)" % (parts[-1], " or %d" % nnull if nnull else ""))
        return None
    if op == "Y":
        a = J.parse(f[2])[0]
        rules, tags = f[3], f[4]
        ok, calls, ntags = cb_simulate(a, rules, tags)
        parts = impl.split(" | ")
        h = parts[0].split(" ")
        if len(parts) != 2 or len(h) < 5 or h[0] != "Y" or live_of(parts[1]) is None:
            return ("malformed", "unexpected driver output: " + impl[:100])
        ta = J.dump(canon(a))
        what = "deep copy with callback [%s] (userdata on [%s])" % (rules[:60], tags[:40])
        if not ok:
            if h[1] == "0":
                return ("cb-copy-should-fail", what + " succeeded although the callback failed / userdata could not be copied")
            if len(h) != 5:
                return ("malformed", "unexpected driver output: " + impl[:100])
            if h[3] != "1":
                return ("cb-failed-dst-not-null", what + " failed but left *dst non-NULL")
            if h[2] != str(calls):
                return ("cb-call-count", what + ": %s callback calls, expected %d (abort at the first failure)" % (h[2], calls))
            if h[4] != ta:
                return ("cb-copy-changed-source", what + " failed and changed the source: " + h[4][:100])
            if parts[1] != "live=0":
                return ("leak", "allocations left after a failed deep copy: " + parts[1])
            return None
        if h[1] != "0":
            return ("copy-failed", what + " failed (rc=%s) although every answer was 1 or 2" % h[1])
        if len(h) != 13:
            return ("malformed", "unexpected driver output: " + impl[:100])
        eqs = bits(h[4:6])
        if eqs is None:
            return ("malformed", "unexpected driver output: " + impl[:100])
        if h[6] != ta:
            return ("cb-copy-changed-source", what + " changed the source: " + h[6][:100])
        if h[7] != ta:
            return ("copy-dump-differs", what + ": the copy is not structurally the source: %s vs %s" % (h[7][:100], ta[:100]))
        nf = not has_nan(a)
        if nf and not all(eqs):
            return ("copy-unequal", what + ": copy of a NaN-free tree does not compare equal (%s %s)" % (h[4], h[5]))
        if not nf and any(eqs):
            return ("copy-nan-equal", "a tree containing a NaN compares equal to a different node")
        n = count_nodes(a)
        if h[8] != str(n) or h[9] != str(n):
            return ("copy-node-count", what + ": node counts source %s copy %s, expected %d" % (h[8], h[9], n))
        if h[10] != "0":
            return ("copy-shares-node", what + ": %s json_object node(s) reachable from both source and copy" % h[10])
        if h[11] != "6":
            return ("copy-text-differs", what + ": serialization differs under %d of 6 flag sets" % (6 - int(h[11])))
        if h[2] != str(calls):
            return ("cb-call-count", what + ": %s callback calls, expected one per node = %d" % (h[2], calls))
        if h[3] != "0":
            return ("malformed", "rc 0 but *dst NULL")
        if h[12] != str(ntags):
            return ("cb-userdata-lost", what + ": %s nodes of the copy carry the userdata the callback set, expected %d" % (h[12], ntags))
        if parts[1] != "live=0":
            return ("leak", "allocations left: " + parts[1])
        return None
    return ("malformed", "unknown op")


def classify(line, meta, mo, co):
    return None


def nontrivial(line, meta, impl):
    if "CRASH" in impl or "BAD" in impl or not impl or impl == "MISSING":
        return None
    return line


# ------------------------------------------------------------------ shrinking
def shrink(ck, line, cls):
    f = line.split(" ")
    op = f[1]
    if op == "H":
        return shrink_H(ck, line, cls)
    if op == "Y":
        line = shrink_rules(ck, line, cls)
        f = line.split(" ")
    ntrees = {"E": 2, "T": 3, "X": 1, "C": 1, "Y": 1, "B": 1}[op]
    trees = [J.parse(x)[0] for x in f[2:2 + ntrees]]
    tail = f[2 + ntrees:]
    budget = [70]

    def mk(ts):
        return " ".join(f[:2] + [J.dump(x) for x in ts] + tail)

    def fails(ts):
        if budget[0] <= 0:
            return False
        budget[0] -= 1
        l = mk(ts)
        try:
            _, c, _ = ck.run_pair([l], "shrink")
        except Exception:
            return False
        v = oracle(l, {}, c.get(1, "MISSING"))
        return v is not None and v[0] == cls

    def candidates(ts):
        # the same child path removed from all trees that have it, then from one tree; then hoisting a child
        seen = set()
        for ti, t in enumerate(ts):
            for p in sorted(paths(t), key=lambda p: (len(p), p)):
                if not p:
                    continue
                if p not in seen:
                    seen.add(p)
                    both = []
                    okb = True
                    for u in ts:
                        try:
                            get(u, p)
                            both.append(delete(u, p))
                        except (IndexError, TypeError):
                            both.append(u)
                            okb = False
                    if okb or True:
                        yield both
                yield [delete(u, p) if i == ti else u for i, u in enumerate(ts)]
        if op != "C":
            n = max(len(kids(t)) for t in ts)
            for i in range(n):
                if all(len(kids(t)) > i for t in ts):
                    yield [kids(t)[i] for t in ts]
    progress = True
    while progress and budget[0] > 0:
        progress = False
        for cand in candidates(trees):
            if mk(cand) != mk(trees) and fails(cand):
                trees = cand
                progress = True
                break
    return mk(trees)


def shrink_rules(ck, line, cls):
    """drop answer rules / tag conds of a Y case one at a time while the failure persists"""
    f = line.split(" ")
    budget = 25
    for fi in (3, 4):
        items = [] if f[fi] == "-" else f[fi].split(";")
        i = 0
        while i < len(items) and budget > 0:
            g = list(f)
            rest = items[:i] + items[i + 1:]
            g[fi] = ";".join(rest) if rest else "-"
            l = " ".join(g)
            budget -= 1
            try:
                _, c, _ = ck.run_pair([l], "shrink")
                v = oracle(l, {}, c.get(1, "MISSING"))
            except Exception:
                v = None
            if v is not None and v[0] == cls:
                items, f = rest, g
            else:
                i += 1
    return " ".join(f)


def shrink_H(ck, line, cls):
    """drop history steps (delta debugging), then children not touched by the histories"""
    import fw
    f = line.split(" ")
    budget = [70]

    def fails_line(l):
        if budget[0] <= 0:
            return False
        budget[0] -= 1
        try:
            _, c, _ = ck.run_pair([l], "shrink")
        except Exception:
            return False
        v = oracle(l, {}, c.get(1, "MISSING"))
        return v is not None and v[0] == cls
    for hi in (3, 5, 6):
        if hi >= len(f) or f[hi] == "-":
            continue
        steps = f[hi].split(";")

        def fails(sub, hi=hi):
            g = list(f)
            g[hi] = ";".join(sub) if sub else "-"
            return fails_line(" ".join(g))
        if fails([]):
            steps = []
        else:
            steps = fw.ddmin(steps, fails, budget=25)
        f[hi] = ";".join(steps) if steps else "-"
    # remove children of both start trees at the same path while the failure persists
    progress = True
    while progress and budget[0] > 0:
        progress = False
        ta, tb = J.parse(f[2])[0], J.parse(f[4])[0]
        for p in sorted(set(paths(ta)) | set(paths(tb)), key=lambda p: (-len(p), p)):
            if not p:
                continue
            g = list(f)
            for ti, t in ((2, ta), (4, tb)):
                try:
                    get(t, p)
                    g[ti] = J.dump(delete(t, p))
                except (IndexError, TypeError):
                    pass
            l = " ".join(g)
            if l != " ".join(f) and fails_line(l):
                f = g
                progress = True
                break
    return " ".join(f)


def search(rng, broken_lines):
    return gen(rng, "quick")


LEVEL_TEXT = ("Machine-checked for all trees (Coq, structural induction with jv_ind', no size bound, no axioms): on well-formed trees "
              "(int ranges, distinct keys) jv_equal — json_object_equal written as the C code is, incl. the mixed int64/uint64 branches, "
              "IEEE == on decoded doubles, length+bytes strings, length-checked element-wise arrays and the two loops over object "
              "members — is symmetric and transitive, reflexive on NaN-free trees and on the identical node, equals equality of the "
              "denotation (integers in Z, doubles by value class proved faithful to the real value, objects as key-sorted maps) exactly "
              "when no NaN is present, is false between different kinds and whenever a NaN sits in a non-shared node; deep_copy (shallow "
              "copy + children re-added + retained text copied, as coded) returns the identical tree, hence equal iff NaN-free and with "
              "the same text under any serializer of the tree; on trees whose nodes carry addresses the copy consists of fresh, pairwise "
              "distinct addresses (disjoint from the source), a store through any address of one tree leaves the other unchanged, and "
              "the pointer shortcut of json_object_equal is invisible on NaN-free or non-sharing trees.  Tied to json_object.c on every "
              "run by differential execution of the extracted model against the ASan/UBSan build (equality bits, typed dumps, address-set "
              "intersection, serializations under 6 flag sets, mutation and destruction probes, live allocations) and by a direct "
              "Python oracle of the property statement.")
LEVEL_NOTE = ("Trusted: Coq kernel; extraction + OCaml glue; harness; the Python oracle.  Heap facts are proved on the address-labelled "
              "tree model only: sharing of internal buffers (string bytes, retained text, array storage, hash table entries), reference "
              "counts and the actual allocator are covered by the sampled correspondence under ASan (mutate/destroy one side, dump the "
              "other, xa_live = 0), not by a theorem.  The theorems are about the Gallina model; the C code is tied to it by the checked "
              "correspondence on generated cases, not for all inputs.")
