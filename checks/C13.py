"""C13 — JSON Patch application follows RFC 6902 and is safe on arbitrary patch documents.

Generator (1): well-formed multi-operation patches whose paths are aimed into the EVOLVING document
(the evolution is simulated with the Python RFC 6902 evaluator below): operations inside values
placed by earlier add/copy, escaped member names ("/a~1b", "/m~0n"), array ends, "-", JSON null
as value and as target, overlapping from/path, move into own child, move onto itself, copy into
own child / onto itself, "/a" -> "/ab", test with other numeric representations (1 vs 1.0), and a
failing operation at every position (patch_failure_idx).
Generator (2): arbitrary JSON values as patch documents: scalars, arrays of scalars, operation
objects without op/path/from/value, null / number / array / object typed op, path, from, unknown
op, the empty array; optionally behind some valid operations.

Generator (3): pointer shapes: every operation kind x every shape of "path" x every shape of "from"
(existing / new / the whole document "" / no leading '/' / bad escape / bad index / empty token),
enumerated in full on two fixed documents and sampled on generated ones, mostly in place — the
error paths of an operation that has already touched the document (move removes its source first).

Generator (4): index magnitude: array reference tokens j + k * 2^w (w = 32, 63, 64, 65, 128) aliasing
an existing index / the length, in path and from of every operation kind, at any depth of the pointer.

Generator (5): small scope, exhaustive (itertools.product): every single operation over 12 paths x 4
values on three tiny documents in both modes, every operation object over the field alphabets
{absent, null, number, strings} for op/path/from/value, every patch of two operations over 7 paths x
2 values (147 operations, 21 609 patches) on two documents; thorough tier: three documents x both modes, and
every patch of three operations over 4 paths x 1 value (48 operations, 110 592 patches).

Generator (6): pointer strings of every length: for every operation kind, as "path" and as "from",
pointers of total byte length 0..300 and 1020..1030 (one long member name; nested names adding up
to the length; "~0" / "~1" as the last two bytes; a two-digit index as last token), always beside a
sibling named like the target minus its last character, so that a pointer losing its tail addresses
the wrong node rather than failing.

Direct oracle: the RFC 6902 evaluator below, written from the RFC in this file (it shares nothing
with json-c or the Coq model), plus: patch document unchanged, copy source unchanged, no node
shared between the result and the patch document / the source / two places of the result, no
allocation left, no crash, and the ownership probe: after the call — failing calls in particular —
the document is still held by exactly the caller (reference counts of the target node and of *base)."""
import re
from fractions import Fraction
import jvtext

PROP = "C13"
DOMAIN = "patch"
LEVEL = "proof"
TECHNIQUE = ("Coq proofs about a model of json_patch.c against an independent sequential RFC 6902 evaluator "
             "(PatchModel/PatchSpec/PatchProofs.v on top of C12's pointer model) + extracted-model/C differential correspondence "
             "(ASan/UBSan build) + independent Python RFC 6902 oracle with patch-unchanged / no-sharing / no-leak probes")
RULE = ("one case = one target tree, one patch document (any JSON value) and the mode (in place / copy_from); a case is "
        "non-trivial when at least one operation was applied or the patch was rejected at a definite operation; distinct = distinct "
        "scripts among the successful ones, plus distinct (kind, failing index, errno) of the failing ones")
TRUSTED = ["Coq 8.16.1 kernel (coqc), no axioms (Print Assumptions: closed under the global context)",
           "extraction (ExtrOcamlBasic only) + ocaml/mdrv glue (drv_patch.ml, jvtext.ml)",
           "harness/drv_patch.c (typed comparison against a twin of the patch document, address-set sharing probe, reference-count "
           "ownership probe through a second reference on the target), jvtext.h, "
           "xalloc.c, gcc -fsanitize=address,undefined",
           "checks/C13.py: the Python RFC 6902 evaluator used as direct oracle"]
ASSUMPTIONS = ["the target document is not JSON null (json-c represents JSON null by the NULL pointer, and json_patch_apply "
               "requires exactly one of *base / copy_from to be non-NULL: EFAULT otherwise)",
               "strings in op/path/from and member names are C strings (no 0 byte)",
               "array lengths stay below 2^32 (index_in_parent is a uint32_t); allocation does not fail (C08's subject)",
               "values in the patch document are copyable by json_object_deep_copy (no custom serializers)",
               "after a failing operation the document is whatever the earlier operations (and the removal half of a failing "
               "move) made it: RFC 6902 section 5 only says the patch as a whole is not successful"]

# ------------------------------------------------------------------ RFC 6902, from the RFC
# `D` is empty for the oracle.  Its switches reproduce, one at a time, the deviations json_patch.c
# had or has (known_findings.json) and are used ONLY to give a failure its stable class id.
CLASSES = [
    ("intdouble", "test_number_representation"),    # known: json_object_equal: 1 != 1.0
    ("nullroot", "null_document_root"),             # known: a JSON null document is the NULL pointer
    ("rawkey", "remove_escaped_key_noop"),          # fixed
    ("blindprefix", "prefix_test_token_blind"),     # fixed
    ("samepath", "move_same_path_missing"),         # fixed
    ("lenplus", "move_index_beyond_end"),           # fixed
    ("coerce", "nonstring_field_coerced"),          # fixed
]


class Bad(Exception):
    pass


def is_obj(n):
    return isinstance(n, tuple) and n[0] == "o"


def tok_syntax_ok(tok):
    i = 0
    while i < len(tok):
        if tok[i] == 0x7e:
            if i + 1 >= len(tok) or tok[i + 1] not in (0x30, 0x31):
                return False
            i += 2
        else:
            i += 1
    return True


def unesc(tok):
    return tok.replace(b"~1", b"/").replace(b"~0", b"~")


def esc(k):
    return k.replace(b"~", b"~0").replace(b"/", b"~1")


def ptr_tokens(p):
    """RFC 6901 section 3: the reference tokens, Bad when p is not a JSON Pointer"""
    if p == b"":
        return []
    if p[:1] != b"/":
        raise Bad("pointer syntax")
    toks = p[1:].split(b"/")
    if not all(tok_syntax_ok(t) for t in toks):
        raise Bad("escape syntax")
    return toks


INDEX = re.compile(rb"0|[1-9][0-9]*")


def child(n, tok):
    """RFC 6901 section 4: one evaluation step -> (key, value); key = member name or index"""
    if is_obj(n):
        name = unesc(tok)
        for k, v in n[1]:
            if k == name:
                return name, v
        raise Bad("no such member")
    if isinstance(n, list):
        if not INDEX.fullmatch(tok):
            raise Bad("not an index")
        i = int(tok)
        if i >= len(n):
            raise Bad("index out of range")
        return i, n[i]
    raise Bad("not a container")


def put(n, key, v):
    if is_obj(n):
        return ("o", [(k, v if k == key else x) for k, x in n[1]])
    return n[:key] + [v] + n[key + 1:]


def resolve(doc, p, D=()):
    if doc is None and "nullroot" in D:
        raise Bad("NULL root")
    n = doc
    for t in ptr_tokens(p):
        _, n = child(n, t)
    return n


def edit(doc, toks, f):
    """apply f(container, last token) at the container of the last token"""
    if len(toks) == 1:
        return f(doc, toks[0])
    key, c = child(doc, toks[0])
    return put(doc, key, edit(c, toks[1:], f))


def num_value(v):
    """the number a jv number denotes: Fraction, or 'inf'/'-inf'/'nan'"""
    if v[0] in "iu":
        return Fraction(v[1])
    bits = v[1]
    s, e, m = bits >> 63, (bits >> 52) & 0x7ff, bits & ((1 << 52) - 1)
    if e == 0x7ff:
        return "nan" if m else ("-inf" if s else "inf")
    mag = Fraction(m, 1 << 1074) if e == 0 else Fraction((1 << 52) + m, 1) * Fraction(2) ** (e - 1075)
    return -mag if s else mag


def is_num(v):
    return isinstance(v, tuple) and v[0] in "iud"


def rfc_equal(a, b, D=()):
    """RFC 6902 section 4.6"""
    if a is None or b is None:
        return a is None and b is None
    if isinstance(a, bool) or isinstance(b, bool):
        return isinstance(a, bool) and isinstance(b, bool) and a == b
    if is_num(a) or is_num(b):
        if not (is_num(a) and is_num(b)):
            return False
        if "intdouble" in D and (a[0] == "d") != (b[0] == "d"):
            return False
        x, y = num_value(a), num_value(b)
        return x != "nan" and x == y
    if isinstance(a, bytes) or isinstance(b, bytes):
        return isinstance(a, bytes) and isinstance(b, bytes) and a == b
    if isinstance(a, list) or isinstance(b, list):
        return isinstance(a, list) and isinstance(b, list) and len(a) == len(b) and all(rfc_equal(x, y, D) for x, y in zip(a, b))
    da, db = dict(a[1]), dict(b[1])
    return len(a[1]) == len(b[1]) and set(da) == set(db) and all(rfc_equal(da[k], db[k], D) for k in da)


def op_add(doc, p, v, D=(), move_from=None):
    toks = ptr_tokens(p)
    if not toks:
        return v

    def f(n, tok):
        if is_obj(n):
            name = unesc(tok)
            if any(k == name for k, _ in n[1]):
                return put(n, name, v)
            return ("o", n[1] + [(name, v)])
        if isinstance(n, list):
            if tok == b"-":
                return n + [v]
            if not INDEX.fullmatch(tok):
                raise Bad("not an index")
            i = int(tok)
            if i > len(n):
                if "lenplus" in D and move_from is not None and i == len(n) + 1 and move_from == tuple(toks[:-1]):
                    return n + [None, v]
                raise Bad("index beyond the end")
            return n[:i] + [v] + n[i:]
        raise Bad("not a container")
    return edit(doc, toks, f)


def op_remove(doc, p, D=()):
    if doc is None and "nullroot" in D:
        raise Bad("NULL root")
    toks = ptr_tokens(p)
    if not toks:
        return None                       # the whole document is removed

    def f(n, tok):
        key, _ = child(n, tok)
        if is_obj(n):
            if "rawkey" in D:
                key = tok
            return ("o", [(k, x) for k, x in n[1] if k != key])
        return n[:key] + n[key + 1:]
    return edit(doc, toks, f)


def op_replace(doc, p, v, D=()):
    resolve(doc, p, D)
    toks = ptr_tokens(p)
    if not toks:
        return v
    return edit(doc, toks, lambda n, tok: put(n, child(n, tok)[0], v))


def op_move(doc, frm, p, D=()):
    if "blindprefix" in D:
        if p.startswith(frm):
            if len(p) == len(frm):
                return doc
            raise Bad("parent under child (string prefix)")
    elif p.startswith(frm + b"/"):
        raise Bad("a location cannot be moved into one of its children")
    if "samepath" in D and frm == p:
        return doc
    v = resolve(doc, frm, D)
    if frm == p:
        return doc
    ftoks = ptr_tokens(frm)
    return op_add(op_remove(doc, frm, D), p, v, D, move_from=tuple(ftoks[:-1]))


def op_copy(doc, frm, p, D=()):
    if "blindprefix" in D and p.startswith(frm):
        if len(p) == len(frm):
            return doc
        raise Bad("parent under child (string prefix)")
    return op_add(doc, p, resolve(doc, frm, D), D)


def op_test(doc, p, v, D=()):
    if not rfc_equal(resolve(doc, p, D), v, D):
        raise Bad("not equal")
    return doc


def serialization(v):
    """what json_object_get_string made of a non-string (only the cases the 'coerce' switch needs)"""
    if v is True:
        return b"true"
    if v is False:
        return b"false"
    if isinstance(v, tuple) and v[0] in "iu":
        return b"%d" % v[1]
    if isinstance(v, list) and not v:
        return b"[ ]"
    if is_obj(v) and not v[1]:
        return b"{ }"
    return b"\xff?"


def apply_op(doc, o, D=()):
    if not is_obj(o):
        raise Bad("operation is not an object")
    m = {}
    for k, v in o[1]:
        m[k] = v

    def string(name):
        if name not in m:
            raise Bad("no " + name.decode())
        if isinstance(m[name], bytes):
            return m[name]
        if "coerce" in D and m[name] is not None:
            return serialization(m[name])
        raise Bad(name.decode() + " is not a string")
    op = string(b"op")
    p = string(b"path")
    if op == b"test":
        if b"value" not in m:
            raise Bad("no value")
        return op_test(doc, p, m[b"value"], D)
    if op == b"remove":
        return op_remove(doc, p, D)
    if op == b"add":
        if b"value" not in m:
            raise Bad("no value")
        if doc is None and "nullroot" in D and p != b"":
            raise Bad("NULL root")
        return op_add(doc, p, m[b"value"], D)
    if op == b"replace":
        if b"value" not in m:
            raise Bad("no value")
        return op_replace(doc, p, m[b"value"], D)
    if op == b"move":
        return op_move(doc, string(b"from"), p, D)
    if op == b"copy":
        return op_copy(doc, string(b"from"), p, D)
    raise Bad("unknown op")


def apply_patch(doc, patch, D=()):
    """('args',) | ('ok', doc) | ('fail', index)"""
    if doc is None or not isinstance(patch, list):
        return ("args",)
    for i, o in enumerate(patch):
        try:
            doc = apply_op(doc, o, D)
        except Bad:
            return ("fail", i)
    return ("ok", doc)


def canon(v):
    """objects are unordered: members sorted by name"""
    if isinstance(v, list):
        return [canon(x) for x in v]
    if is_obj(v):
        return ("o", sorted(((k, canon(x)) for k, x in v[1]), key=lambda kv: kv[0]))
    return v


# ------------------------------------------------------------------ script helpers
def mk_line(mode, doc, patch):
    return "patch %s %s %s" % (mode, jvtext.dump(doc), jvtext.dump(patch))


def parse_line(line):
    _, mode, d, p = line.split(" ")
    return mode, jvtext.parse(d)[0], jvtext.parse(p)[0]


OBS = re.compile(r"^(-?\d+) (\S+) (\S+) (\S+) P(=|!\S*) C([=!-]) S(\d+):(\d+):(\d+) R(=|!\S*) END (-?\d+)$")


def parse_obs(o):
    m = OBS.match(o)
    if not m:
        return None
    return dict(rc=int(m.group(1)), err=m.group(2), idx=m.group(3), dump=m.group(4), patch=m.group(5), src=m.group(6),
                share=(int(m.group(7)), int(m.group(8)), int(m.group(9))), refs=m.group(10), live=int(m.group(11)))


def outcome_of(obs):
    if obs["rc"] == 0:
        try:
            return ("ok", jvtext.dump(canon(jvtext.parse(obs["dump"])[0])))
        except Exception:
            return ("ok", "?" + obs["dump"])
    if obs["idx"] == "MAX":
        return ("args",)
    return ("fail", int(obs["idx"]))


def expect(doc, patch, D=()):
    r = apply_patch(doc, patch, D)
    if r[0] == "ok":
        return ("ok", jvtext.dump(canon(r[1])))
    return r


def null_field_reached(doc, patch):
    """does evaluation reach an operation whose op / from / (move, copy) path is a JSON null?"""
    if doc is None or not isinstance(patch, list):
        return False
    for o in patch:
        if is_obj(o):
            m = dict(o[1])
            if b"op" in m and m[b"op"] is None and b"path" in m:
                return True
            if m.get(b"op") in (b"move", b"copy") and b"path" in m and b"from" in m and (m[b"from"] is None or m[b"path"] is None):
                return True
        try:
            doc = apply_op(doc, o)
        except Bad:
            return False
    return False


def violations(line, impl):
    try:
        mode, doc, patch = parse_line(line)
    except Exception as e:                      # pragma: no cover
        yield ("malformed", "unreadable script line: %r" % e)
        return
    if "CRASH" in impl:
        if null_field_reached(doc, patch):
            yield ("null_field_deref", "a JSON null op/from/path is dereferenced: " + impl[-70:])
        else:
            yield ("crash", "implementation crashed (memory error / double release): " + impl[-70:])
        return
    obs = parse_obs(impl)
    if obs is None:
        yield ("malformed", "unexpected driver output: " + impl[:160])
        return
    want = expect(doc, patch)
    got = outcome_of(obs)
    if got != want:
        cls = None
        for sw, cid in CLASSES:
            if expect(doc, patch, (sw,)) == got:
                cls = cid
                break
        if cls is None:
            # two recorded deviations at once (e.g. a null root reached through a numeric test)
            for i in range(len(CLASSES)):
                for j in range(i + 1, len(CLASSES)):
                    if cls is None and expect(doc, patch, (CLASSES[i][0], CLASSES[j][0])) == got:
                        cls = CLASSES[i][1]
        if cls is None:
            if want[0] == "ok" and got[0] == "ok":
                cls = "wrong_document"
            elif want[0] == "ok":
                cls = "wrong_failure"
            elif got[0] == "ok":
                cls = "wrong_success"
            elif want[0] == "fail" and got[0] == "fail":
                cls = "wrong_failure_index"
            else:
                cls = "wrong_argument_error"
        yield (cls, "RFC 6902 evaluation gives %s, implementation %s (%s): %s"
               % (tuple(str(x)[:100] for x in want), tuple(str(x)[:100] for x in got), obs["err"], line[:200]))
    if obs["rc"] != 0 and obs["err"] == "0":
        yield ("error_without_code", "failure reported with errno_code 0: " + line[:160])
    if obs["rc"] == 0 and obs["err"] != "0":
        yield ("success_with_code", "success reported with errno_code %s: %s" % (obs["err"], line[:160]))
    if obs["refs"] != "=":
        yield ("document_reference_broken", "%s call dropped or kept a reference on the document that was not the library's "
               "(%s = found/expected holders): the caller's document %s: %s"
               % ("the failing" if obs["rc"] else "the", obs["refs"][1:], "dangles" if "target" in obs["refs"] or "base" in obs["refs"] else "leaks", line[:200]))
    if obs["patch"] != "=":
        yield ("value_shared", "the patch document was modified: now %s: %s" % (obs["patch"][1:120], line[:160]))
    if obs["src"] == "!":
        yield ("source_modified", "copy_from mode modified the source document: " + line[:160])
    if obs["share"] != (0, 0, 0):
        yield ("value_shared", "result shares nodes: %d with the patch document, %d with the source, %d at two places of "
               "the result: %s" % (obs["share"] + (line[:160],)))
    if obs["live"] != 0:
        yield ("leak", "%d allocations still live after everything was released: %s" % (obs["live"], line[:160]))


_RECORDED = None


def recorded():
    global _RECORDED
    if _RECORDED is None:
        try:
            import fw
            _RECORDED = set(fw.known_ids(PROP).keys())
        except Exception:
            _RECORDED = set()
    return _RECORDED


def oracle(line, meta, impl):
    first = None
    for v in violations(line, impl):
        if v[0] not in recorded():
            return v
        if first is None:
            first = v
    return first


def classify(line, meta, mo, co):
    """a model/implementation disagreement: the class of the direct failure on that line, if any"""
    v = oracle(line, meta, co)
    return v[0] if v else None


def nontrivial(line, meta, impl):
    obs = parse_obs(impl)
    if obs is None:
        return None
    if obs["rc"] == 0:
        return line if line.count("6f70=") else None
    if obs["idx"] == "MAX":
        return None
    return (meta.get("kind", "?"), obs["idx"], obs["err"])


# ------------------------------------------------------------------ generator
KEYS = [b"a", b"b", b"c", b"ab", b"a/b", b"m~n", b"", b"0", b"1", b"-", b"~", b"/", b"x~1y", b"foo", b"k k"]


def gen_scalar(rng):
    r = rng.random()
    if r < 0.22:
        return None
    if r < 0.50:
        return ("i", rng.choice([0, 1, 2, 7, -1, 42, 2**53, 2**53 + 1, -2**63, 2**63 - 1]))
    if r < 0.58:
        return ("u", rng.choice([0, 1, 2**63, 2**64 - 1]))
    if r < 0.72:
        return ("d", jvtext.dbits(rng.choice([0.0, -0.0, 1.0, 2.0, 7.0, 0.5, -1.0, 1e100, 9007199254740992.0, 42.0, 1.5])), None)
    if r < 0.80:
        return rng.random() < 0.5
    return rng.choice([b"", b"s", b"/a", b"~0", b"add", b"x y"])


def gen_doc(rng, depth, width):
    r = rng.random()
    if depth <= 0 or r < 0.22:
        return gen_scalar(rng)
    n = rng.randint(0, width)
    if r < 0.62:
        ms, seen = [], set()
        for _ in range(n):
            k = rng.choice(KEYS)
            if k in seen:
                continue
            seen.add(k)
            ms.append((k, gen_doc(rng, depth - 1, width)))
        return ("o", ms)
    return [gen_doc(rng, depth - 1, width) for _ in range(n)]


def locations(t, pre=b""):
    """(pointer, node) of every node"""
    yield pre, t
    if is_obj(t):
        for k, v in t[1]:
            yield from locations(v, pre + b"/" + esc(k))
    elif isinstance(t, list):
        for i, v in enumerate(t):
            yield from locations(v, pre + b"/%d" % i)


def other_repr(rng, v):
    """an RFC-equal value in another numeric representation, None if there is none"""
    if is_num(v):
        x = num_value(v)
        if isinstance(x, Fraction) and x.denominator == 1 and abs(x) < 2**53:
            n = int(x)
            cands = [("i", n), ("d", jvtext.dbits(float(n)), None)] + ([("u", n)] if n >= 0 else [])
            cands = [c for c in cands if c[0] != v[0]]
            return rng.choice(cands) if cands else None
        return None
    if isinstance(v, list):
        for j, x in enumerate(v):
            y = other_repr(rng, x)
            if y is not None:
                return v[:j] + [y] + v[j + 1:]
    if is_obj(v):
        for j, (k, x) in enumerate(v[1]):
            y = other_repr(rng, x)
            if y is not None:
                ms = v[1][:j] + [(k, y)] + v[1][j + 1:]
                rng.shuffle(ms)
                return ("o", ms)
    return None


def mk_op(op, path, **kw):
    ms = [(b"op", op), (b"path", path)]
    for k, v in kw.items():
        ms.append((k.encode(), v))
    return ("o", ms)


def target_spot(rng, doc, hot):
    """a pointer to add at / move to / copy to: new or existing member, array index 0..len, '-', rarely beyond"""
    locs = [(p, n) for p, n in locations(doc) if is_obj(n) or isinstance(n, list)]
    inside = [(p, n) for p, n in locs if any(p == h or p.startswith(h + b"/") for h in hot)]
    if inside and rng.random() < 0.55:
        locs = inside
    if not locs or rng.random() < 0.04:
        return b""
    p, n = rng.choice(locs)
    if is_obj(n):
        have = [k for k, _ in n[1]]
        k = rng.choice(have) if have and rng.random() < 0.3 else rng.choice(KEYS)
        return p + b"/" + esc(k)
    r = rng.random()
    if r < 0.25:
        return p + b"/-"
    if r < 0.33:
        return p + b"/%d" % (len(n) + rng.choice([1, 1, 2]))
    if r < 0.38:
        return p + b"/" + rng.choice([b"01", b"", b"1e0", b"-1", b"a"])
    return p + b"/%d" % rng.randint(0, len(n))


def existing_spot(rng, doc, hot, allow_root=True):
    locs = [p for p, _ in locations(doc) if allow_root or p]
    inside = [p for p in locs if any(p.startswith(h + b"/") or p == h for h in hot)]
    if inside and rng.random() < 0.5:
        locs = inside
    return rng.choice(locs) if locs else b""


def missing_spot(rng, doc):
    p = existing_spot(rng, doc, [])
    return p + b"/" + rng.choice([b"nope", b"9", b"-", b"", b"~", b"~2", b"0"])


def gen_value(rng):
    r = rng.random()
    if r < 0.45:
        return gen_scalar(rng)
    return gen_doc(rng, rng.choice([1, 2]), 3)


# Index magnitude: an array reference token is a decimal number of ANY size.  j + k * 2^w (w = 32:
# index_in_parent is a uint32_t; 63 / 64: the size_t / strtoull range; 65, 128: beyond) must not be
# taken for j, it is simply an index that does not exist.
WIDTHS = [32, 32, 63, 64, 64, 64, 65, 128]


def alias_number(rng, j):
    w = rng.choice(WIDTHS)
    return j + rng.choice([1, 1, 1, 2, 3, 10]) * (1 << w)


def alias_index(rng, p):
    """p with one all-digit reference token j replaced by j + k * 2^w; None when it has none"""
    toks = p.split(b"/")
    cand = [i for i, t in enumerate(toks) if i > 0 and INDEX.fullmatch(t)]
    if not cand:
        return None
    i = rng.choice(cand)
    toks[i] = b"%d" % alias_number(rng, int(toks[i]))
    return b"/".join(toks)


def alias_op(rng, o):
    """the operation with an aliased index in its path or from; None when there is no index"""
    ms = list(o[1])
    names = [i for i, (k, v) in enumerate(ms) if k in (b"path", b"from") and isinstance(v, bytes)]
    rng.shuffle(names)
    for i in names:
        q = alias_index(rng, ms[i][1])
        if q is not None:
            ms[i] = (ms[i][0], q)
            return ("o", ms)
    return None


def gen_wellformed(rng, nops):
    """(target, [ops], kind): paths follow the document as RFC 6902 evaluation changes it"""
    doc = gen_doc(rng, rng.choice([1, 2, 2, 3]), rng.choice([2, 3, 4]))
    if not (is_obj(doc) or isinstance(doc, list)) and rng.random() < 0.85:
        doc = ("o", [(rng.choice(KEYS), doc)])
    target = doc
    ops, hot, kinds = [], [], set()
    fail_at = rng.randrange(nops) if rng.random() < 0.35 else -1
    def one_op(want_fail):
        r = rng.random()
        if doc is None:
            o = mk_op(b"add", b"", value=gen_value(rng)) if rng.random() < 0.6 else mk_op(b"test", b"", value=None)
            kinds.add("null-root")
        elif r < 0.27:
            p = missing_spot(rng, doc) + b"/x" if want_fail else target_spot(rng, doc, hot)
            o = mk_op(b"add", p, value=gen_value(rng))
            kinds.add("add")
        elif r < 0.40:
            p = missing_spot(rng, doc) if want_fail else existing_spot(rng, doc, hot, allow_root=rng.random() < 0.1)
            o = mk_op(b"remove", p)
            kinds.add("remove")
        elif r < 0.52:
            p = missing_spot(rng, doc) if want_fail else existing_spot(rng, doc, hot)
            o = mk_op(b"replace", p, value=gen_value(rng))
            kinds.add("replace")
        elif r < 0.72:
            mv = rng.random() < 0.55
            f = missing_spot(rng, doc) if want_fail and rng.random() < 0.5 else existing_spot(rng, doc, hot, allow_root=rng.random() < 0.15)
            q = rng.random()
            if q < 0.12:
                p = f                                             # onto itself
            elif q < 0.24:
                p = f + b"/" + rng.choice([b"0", b"-", b"a", b"ab"])     # into own child
            elif q < 0.34 and f:
                p = f + rng.choice([b"b", b"0", b"~0"])            # shares a token prefix: "/a" -> "/ab"
            elif q < 0.42 and f.rfind(b"/") >= 0:
                par = f[:f.rfind(b"/")]
                n = None
                try:
                    n = resolve(doc, par)
                except Bad:
                    pass
                if isinstance(n, list):
                    p = par + b"/%d" % rng.choice([len(n), len(n) - 1, len(n) + 1, 0])   # within one array, around the end
                else:
                    p = par
            else:
                p = target_spot(rng, doc, hot)
            o = mk_op(b"move" if mv else b"copy", p, **{"from": f})
            kinds.add("move" if mv else "copy")
        else:
            p = missing_spot(rng, doc) if want_fail and rng.random() < 0.5 else existing_spot(rng, doc, hot)
            try:
                v = resolve(doc, p)
            except Bad:
                v = None
            q = rng.random()
            if want_fail:
                v = [v, ("i", 1)]
            elif q < 0.30:
                w = other_repr(rng, v)
                if w is not None:
                    v = w
                    kinds.add("test-number-representation")
            elif q < 0.40:
                v = gen_value(rng)
            o = mk_op(b"test", p, value=v)
            kinds.add("test")
        return o

    for j in range(nops):
        want_fail = (j == fail_at)
        # an operation that is meant to apply is re-drawn (a few times) when it happens to fail,
        # so that long patches are really carried through
        for attempt in range(4):
            o = one_op(want_fail and rng.random() < 0.6)
            if want_fail or rng.random() < 0.03:
                # an operation that would apply, with one array index replaced by an alias of huge magnitude
                a = alias_op(rng, o)
                if a is not None:
                    o = a
                    kinds.add("index-magnitude")
            try:
                apply_op(doc, o)
                applies = True
            except Bad:
                applies = False
            if applies != want_fail or rng.random() < 0.12:
                break
        if rng.random() < 0.08:
            ms = list(o[1])
            rng.shuffle(ms)
            o = ("o", ms + ([(b"comment", b"x")] if rng.random() < 0.5 else []))
        ops.append(o)
        try:
            nd = apply_op(doc, o)
        except Bad:
            continue                       # evaluation stops here; later operations are still generated
        m = dict(o[1])
        if m[b"op"] in (b"add", b"replace", b"copy", b"move") and isinstance(m[b"path"], bytes):
            hot.append(m[b"path"])
            if m[b"op"] == b"copy":
                hot.append(m[b"from"])
        doc = nd
    return target, ops, "+".join(sorted(kinds))


BAD_FIELD_VALUES = [None, ("i", 5), ("i", 0), True, False, [], [b"/a"], ("o", []), ("d", jvtext.dbits(1.5), None), ("u", 2**64 - 1),
                    ("o", [(b"op", b"add")])]


def gen_malformed(rng):
    """(target, patch document, kind)"""
    doc = gen_doc(rng, 2, 3)
    if not (is_obj(doc) or isinstance(doc, list)):
        doc = ("o", [(b"a", doc), (b"b", [("i", 1), ("i", 2)])])
    r = rng.random()
    if r < 0.12:
        return doc, gen_scalar(rng) if rng.random() < 0.7 else ("o", [(b"op", b"add"), (b"path", b"/a"), (b"value", ("i", 1))]), "patch-not-array"
    if r < 0.17:
        return doc, [], "empty-patch"
    prefix = []
    cur = doc
    for _ in range(rng.choice([0, 0, 1, 2, 3])):
        t, ops, _k = doc, [mk_op(b"add", target_spot(rng, cur, []), value=gen_value(rng))], ""
        try:
            cur = apply_op(cur, ops[0])
            prefix.append(ops[0])
        except Bad:
            pass
    q = rng.random()
    some = existing_spot(rng, cur, [])
    if q < 0.15:
        bad = rng.choice([gen_scalar(rng), [], [("i", 1)], [b"op"], ("o", [])])
        kind = "op-not-object"
    elif q < 0.30:
        full = [(b"op", rng.choice([b"add", b"test", b"replace"])), (b"path", some), (b"value", gen_value(rng))]
        drop = rng.randrange(3)
        bad = ("o", full[:drop] + full[drop + 1:])
        kind = "member-missing"
    elif q < 0.40:
        full = [(b"op", rng.choice([b"move", b"copy"])), (b"path", target_spot(rng, cur, [])), (b"from", some)]
        drop = rng.randrange(3)
        bad = ("o", full[:drop] + full[drop + 1:])
        kind = "member-missing"
    elif q < 0.62:
        opn = rng.choice([b"add", b"test", b"replace", b"remove", b"move", b"copy"])
        ms = [(b"op", opn), (b"path", some), (b"value", gen_value(rng)), (b"from", some)]
        which = rng.choice([0, 1, 1, 3, 3])
        v = None if rng.random() < 0.35 else rng.choice(BAD_FIELD_VALUES)
        ms[which] = (ms[which][0], v)
        if which == 3 and rng.random() < 0.5:
            ms[1] = (b"path", v if rng.random() < 0.5 else rng.choice(BAD_FIELD_VALUES))   # from and path both wrong-typed
        rng.shuffle(ms)
        bad = ("o", ms)
        kind = "field-wrong-type" if v is not None else "field-null"
    elif q < 0.75:
        bad = mk_op(rng.choice([b"spam", b"", b"ADD", b"add ", b"tes", b"testx", b"mov", b"copy\x01", b"null", b"5"]), some, value=("i", 1))
        kind = "unknown-op"
    elif q < 0.85:
        bad = mk_op(rng.choice([b"add", b"remove", b"test", b"replace"]), rng.choice([b"a", b"a/b", b"~", b"/~", b"/~2", b"0", b" /a", b"//"]) if rng.random() < 0.7 else some + b"~",
                    value=("i", 1))
        kind = "path-not-a-pointer"
    else:
        bad = mk_op(rng.choice([b"move", b"copy"]), some, **{"from": rng.choice([b"a", b"~", b"/~2", b"/nope/x", b"x/"])})
        kind = "from-not-a-pointer"
    tail = [mk_op(b"add", b"/zz", value=("i", 1))] if rng.random() < 0.3 else []
    return doc, prefix + [bad] + tail, kind


# Pointer shapes: every operation kind x every shape of "path" x every shape of "from" (move/copy),
# valid and malformed alike, the whole-document pointer "" included on both sides.  The cross
# product is enumerated in full on two fixed documents (so it does not depend on the seed) and
# sampled on generated documents.
SHAPES = [b"", b"/a", b"/b", b"/b/0", b"/b/-", b"/b/2", b"/0", b"/1", b"/-", b"/nope", b"/a/x", b"/",          # pointers
          b"x", b"a", b"0", b"-", b"a/b", b"b/0", b"~", b" ", b" /a",                                          # no leading '/'
          b"/~", b"/a~", b"/~2", b"/b/~0", b"/b/01", b"//", b"/b/",                                            # bad escape / index / empty token
          # index magnitude: j + k * 2^w for existing j, j = length, and below a huge index
          b"/b/4294967296", b"/b/4294967297", b"/b/9223372036854775808", b"/b/18446744073709551615",
          b"/b/18446744073709551616", b"/b/18446744073709551617", b"/b/18446744073709551618", b"/b/36893488147419103233",
          b"/b/340282366920938463463374607431768211456", b"/18446744073709551616", b"/18446744073709551617/0", b"/4294967297/0"]
SHAPE_DOCS = [("o", [(b"a", ("i", 1)), (b"b", [("i", 1), ("i", 2)])]), [("i", 1), [("i", 2)], None]]


def shape_ops(path, frm, value):
    yield mk_op(b"move", path, **{"from": frm})
    yield mk_op(b"copy", path, **{"from": frm})


def gen_shapes_exhaustive():
    out = []
    v = ("o", [(b"k", ("i", 7))])
    for di, doc in enumerate(SHAPE_DOCS):
        for pi, p in enumerate(SHAPES):
            for opn in (b"add", b"replace", b"test", b"remove"):
                mode = "ic"[(di + pi) % 2]
                o = mk_op(opn, p) if opn == b"remove" else mk_op(opn, p, value=v)
                out.append((mk_line(mode, doc, [o]), {"kind": "shapes:path"}))
            for fi, f in enumerate(SHAPES):
                for o in shape_ops(p, f, None):
                    mode = "ic"[(di + pi + fi) % 2]
                    # in place for everything that involves the whole document or a malformed string
                    if f == b"" or p == b"" or not p.startswith(b"/") or not f.startswith(b"/"):
                        out.append((mk_line("i", doc, [o]), {"kind": "shapes:from-x-path"}))
                        if (pi + fi) % 3 == 0:
                            out.append((mk_line("c", doc, [o]), {"kind": "shapes:from-x-path"}))
                    else:
                        out.append((mk_line(mode, doc, [o]), {"kind": "shapes:from-x-path"}))
    return out


def gen_shapes_random(rng):
    """the same shapes on a generated document, behind some valid operations, then a valid one"""
    doc = gen_doc(rng, 2, 3)
    if not (is_obj(doc) or isinstance(doc, list)):
        doc = ("o", [(b"a", doc), (b"b", [("i", 1), ("i", 2)])])
    cur, prefix = doc, []
    for _ in range(rng.choice([0, 0, 1, 2])):
        o = mk_op(b"add", target_spot(rng, cur, []), value=gen_value(rng))
        try:
            cur = apply_op(cur, o)
            prefix.append(o)
        except Bad:
            pass

    def shape():
        r = rng.random()
        if r < 0.30:
            return b""
        if r < 0.55:
            return existing_spot(rng, cur, [])
        if r < 0.65:
            return target_spot(rng, cur, [])
        return rng.choice(SHAPES)
    opn = rng.choice([b"move", b"move", b"move", b"copy", b"copy", b"add", b"replace", b"test", b"remove"])
    if opn in (b"move", b"copy"):
        o = mk_op(opn, shape(), **{"from": shape()})
    elif opn == b"remove":
        o = mk_op(opn, shape())
    else:
        o = mk_op(opn, shape(), value=gen_value(rng))
    if rng.random() < 0.25:
        o = alias_op(rng, o) or o
    tail = [mk_op(b"test", b"", value=cur)] if rng.random() < 0.3 else []
    return doc, prefix + [o] + tail


def J(x):
    """python literal -> tree (for the witness list)"""
    if x is None or isinstance(x, bool):
        return x
    if isinstance(x, int):
        return ("i", x)
    if isinstance(x, float):
        return ("d", jvtext.dbits(x), None)
    if isinstance(x, str):
        return x.encode()
    if isinstance(x, list):
        return [J(v) for v in x]
    return ("o", [(k.encode(), J(v)) for k, v in x.items()])


WITNESSES = [
    # the recorded deviations (known_findings.json), fixed and known
    ({"x": 1}, [{"op": "add", "path": "/a", "value": {"k": 1}}, {"op": "add", "path": "/a/z", "value": 2}]),          # value_shared
    ({"x": {"k": 1}}, [{"op": "copy", "from": "/x", "path": "/y"}, {"op": "add", "path": "/y/z", "value": 2}]),
    ({"x": [1]}, [{"op": "replace", "path": "/x", "value": [[]]}, {"op": "add", "path": "/x/0/-", "value": 2}]),
    ({"a/b": 1, "c": 2}, [{"op": "remove", "path": "/a~1b"}]),                                                       # remove_escaped_key_noop
    ({"a/b": {"q": 1}, "m~n": 3}, [{"op": "move", "from": "/a~1b", "path": "/c"}, {"op": "remove", "path": "/m~0n"}]),
    ({"a": 1}, [{"op": "move", "from": "/a", "path": "/ab"}]),                                                       # prefix_test_token_blind
    ({"c": [1]}, [{"op": "copy", "from": "/c", "path": "/c/0"}]),
    ({"a": [1, 2]}, [{"op": "copy", "from": "/a/0", "path": "/a/0"}]),
    ({"a": {"b": 1}}, [{"op": "move", "from": "/a", "path": "/a/b"}]),
    ({"a": 1}, [{"op": "move", "from": "", "path": "/a"}]),
    ({"a": 1}, [{"op": "copy", "from": "", "path": "/a"}]),
    ([1, [2]], [{"op": "copy", "from": "", "path": "/1/0"}]),
    ({"a": 1}, [{"op": "move", "from": "/zz", "path": "/zz"}]),                                                      # move_same_path_missing
    ({"a": 1}, [{"op": "move", "from": "/a", "path": "/a"}]),
    ({"c": [1, 2, 3]}, [{"op": "move", "from": "/c/0", "path": "/c/3"}]),                                            # move_index_beyond_end
    ({"c": [1, 2, 3]}, [{"op": "move", "from": "/c/0", "path": "/c/2"}]),
    ({"c": [1, 2, 3]}, [{"op": "move", "from": "/c/0", "path": "/c/-"}]),
    ({"a": 1}, [{"op": None, "path": "/a"}]),                                                                        # null_field_deref
    ({"a": 1}, [{"op": "move", "from": None, "path": "/a"}]),
    ({"a": 1}, [{"op": "copy", "from": "/a", "path": None}]),
    ({"a": 1}, [{"op": "add", "path": None, "value": 1}]),
    ({"a": 1}, [{"op": "move", "from": 5, "path": 5}]),                                                              # nonstring_field_coerced
    ({"a": 1}, [{"op": "copy", "from": True, "path": True}]),
    ({"a": 1}, [{"op": "test", "path": "/a", "value": 1.0}]),                                                        # test_number_representation (known)
    ({"a": [1.0, {"b": 2}]}, [{"op": "test", "path": "/a", "value": [1, {"b": 2.0}]}]),
    ({"a": 1}, [{"op": "remove", "path": ""}, {"op": "test", "path": "", "value": None}]),                         # null_document_root (known)
    ({"a": 1}, [{"op": "replace", "path": "", "value": None}, {"op": "replace", "path": "", "value": 1}]),
    ({"a": 1}, [{"op": "remove", "path": ""}, {"op": "add", "path": "", "value": {"b": 2}}]),
    # index magnitude (2^64 + j, 2^32 + j): no such element, for every operation kind
    ({"a": [10, 20, 30]}, [{"op": "add", "path": "/a/18446744073709551616", "value": 1}]),
    ({"a": [10, 20, 30]}, [{"op": "add", "path": "/a/18446744073709551619", "value": 1}]),
    ({"a": [10, 20, 30]}, [{"op": "remove", "path": "/a/18446744073709551617"}]),
    ({"a": [10, 20, 30]}, [{"op": "replace", "path": "/a/4294967297", "value": None}]),
    ({"a": [10, 20, 30]}, [{"op": "test", "path": "/a/18446744073709551616", "value": 10}]),
    ({"a": [10, [20]]}, [{"op": "test", "path": "/a/18446744073709551617/0", "value": 20}]),
    ({"a": [10, 20, 30], "b": {}}, [{"op": "add", "path": "/a/-", "value": 40}, {"op": "move", "from": "/a/18446744073709551616", "path": "/b/d"}]),
    ({"a": [10, 20, 30], "b": {}}, [{"op": "copy", "from": "/a/36893488147419103233", "path": "/b/d"}]),
    ({"a": [10, 20, 30], "b": {}}, [{"op": "move", "from": "/b", "path": "/a/18446744073709551617"}]),
    # RFC 6902 appendix A
    ({"foo": "bar"}, [{"op": "add", "path": "/baz", "value": "qux"}]),
    ({"foo": ["bar", "baz"]}, [{"op": "add", "path": "/foo/1", "value": "qux"}]),
    ({"baz": "qux", "foo": "bar"}, [{"op": "remove", "path": "/baz"}]),
    ({"foo": ["bar", "qux", "baz"]}, [{"op": "remove", "path": "/foo/1"}]),
    ({"baz": "qux", "foo": "bar"}, [{"op": "replace", "path": "/baz", "value": "boo"}]),
    ({"foo": {"bar": "baz", "waldo": "fred"}, "qux": {"corge": "grault"}}, [{"op": "move", "from": "/foo/waldo", "path": "/qux/thud"}]),
    ({"foo": ["all", "grass", "cows", "eat"]}, [{"op": "move", "from": "/foo/1", "path": "/foo/3"}]),
    ({"baz": "qux", "foo": ["a", 2, "c"]}, [{"op": "test", "path": "/baz", "value": "qux"}, {"op": "test", "path": "/foo/1", "value": 2}]),
    ({"baz": "qux"}, [{"op": "test", "path": "/baz", "value": "bar"}]),
    ({"foo": "bar"}, [{"op": "add", "path": "/child", "value": {"grandchild": {}}}]),
    ({"foo": "bar"}, [{"op": "add", "path": "/baz", "value": "qux", "xyz": 123}]),
    ({"foo": "bar"}, [{"op": "add", "path": "/baz/bat", "value": "qux"}]),
    ({"/": 9, "~1": 10}, [{"op": "test", "path": "/~01", "value": 10}]),
    ({"/": 9, "~1": 10}, [{"op": "test", "path": "/~01", "value": "10"}]),
    ({"foo": ["bar"]}, [{"op": "add", "path": "/foo/-", "value": ["abc", "def"]}]),
]


OPMIX = {}


def extra_coverage():
    return {"operation_mix_of_wellformed_cases": dict(sorted(OPMIX.items()))}


# ------------------------------------------------------------------ small scope, exhaustive
# Every patch up to a small bound over a small alphabet of operations in which each element
# selects a different branch of json_patch.c / json_pointer.c:
#   paths   ""  root | member | element | "-" | index = length | index beyond | new member | below a
#           JSON null | bad index | no leading '/' | bad escape
#   values  null | 1 | 1.0 (the other numeric representation) | a container to work inside later
#   kinds   add replace test (x path x value), remove (x path), move copy (x from x path)
# plus every operation OBJECT over {absent, null, number, valid string, other string} for each of
# op / path / from / value (the field-handling branches).
SS_DOCS = [("o", [(b"a", [("i", 1)]), (b"b", None)]),                       # {"a":[1],"b":null}
           [[("i", 1)], ("o", [(b"a", ("i", 2))])],                         # [[1],{"a":2}]
           ("o", [(b"a/b", ("o", [(b"~", ("i", 1))])), (b"a", [])])]        # {"a/b":{"~":1},"a":[]}
SS_PATHS_1 = {0: [b"", b"/a", b"/a/0", b"/a/1", b"/a/2", b"/a/-", b"/b", b"/x", b"/b/c", b"/a/x", b"x", b"/a~"],
              1: [b"", b"/0", b"/0/0", b"/0/1", b"/2", b"/3", b"/-", b"/1/a", b"/1/x", b"/01", b"0", b"/1/~"],
              2: [b"", b"/a~1b", b"/a~1b/~0", b"/a~1b/~", b"/a", b"/a/0", b"/a/-", b"/a/1", b"/a~1", b"/a~0b", b"a", b"/a~1b/x"]}
SS_VALUES_1 = [None, ("i", 1), ("d", jvtext.dbits(1.0), None), ("o", [(b"k", [])])]
SS_PATHS_2 = {0: [b"", b"/a", b"/a/0", b"/a/-", b"/b", b"/x", b"x"],
              1: [b"", b"/0", b"/0/0", b"/0/-", b"/1", b"/1/x", b"0"],
              2: [b"", b"/a~1b", b"/a~1b/~0", b"/a/-", b"/a", b"/a~1", b"/m~0n"]}
SS_VALUES_2 = [None, ("o", [(b"k", [])])]
SS_PATHS_3 = [b"", b"/a", b"/a/0", b"/x"]
SS_VALUES_3 = [("o", [(b"k", [])])]


def ss_ops(paths, values):
    ops = []
    for p in paths:
        for v in values:
            ops.append(mk_op(b"add", p, value=v))
            ops.append(mk_op(b"replace", p, value=v))
            ops.append(mk_op(b"test", p, value=v))
        ops.append(mk_op(b"remove", p))
        for f in paths:
            ops.append(mk_op(b"move", p, **{"from": f}))
            ops.append(mk_op(b"copy", p, **{"from": f}))
    return ops


def gen_small_scope(tier):
    import itertools
    out = []
    meta = {"kind": "small-scope"}
    # every single operation, three documents, both modes
    for di, doc in enumerate(SS_DOCS):
        for o in ss_ops(SS_PATHS_1[di], SS_VALUES_1):
            for m in "ic":
                out.append((mk_line(m, doc, [o]), meta))
    # every operation object over the field alphabets
    absent = object()
    F_OP = [absent, None, ("i", 5), b"add", b"test", b"remove", b"move", b"copy", b"bogus"]
    F_PATH = [absent, None, ("i", 5), b"/a", b""]
    F_FROM = [absent, None, ("i", 5), b"/a", b""]
    F_VALUE = [absent, None]
    for fo, fp, ff, fv in itertools.product(F_OP, F_PATH, F_FROM, F_VALUE):
        ms = [(k, v) for k, v in ((b"op", fo), (b"path", fp), (b"from", ff), (b"value", fv)) if v is not absent]
        out.append((mk_line("ic"[len(out) % 2], SS_DOCS[0], [("o", ms)]), meta))
    for elem in (None, True, ("i", 0), b"add", [], [b"op"], ("o", [])):
        for m in "ic":
            out.append((mk_line(m, SS_DOCS[0], [elem]), meta))
            out.append((mk_line(m, SS_DOCS[0], [mk_op(b"add", b"/x", value=None), elem, mk_op(b"remove", b"/a")]), meta))
    # every patch of two operations
    for di in ((0, 1) if tier == "quick" else (0, 1, 2)):
        doc = SS_DOCS[di]
        ops2 = ss_ops(SS_PATHS_2[di], SS_VALUES_2)
        for k, (o1, o2) in enumerate(itertools.product(ops2, ops2)):
            if tier == "quick":
                out.append((mk_line("ic"[k % 2], doc, [o1, o2]), meta))
            else:
                out.append((mk_line("i", doc, [o1, o2]), meta))
                out.append((mk_line("c", doc, [o1, o2]), meta))
    # thorough: every patch of three operations over a smaller alphabet
    if tier != "quick":
        ops3 = ss_ops(SS_PATHS_3, SS_VALUES_3)
        for k, seq in enumerate(itertools.product(ops3, repeat=3)):
            out.append((mk_line("ic"[k % 2], SS_DOCS[0], list(seq)), meta))
    return out


# ------------------------------------------------------------------ pointer strings of every length
# For every operation kind and for both "path" and "from": JSON Pointers whose TOTAL byte length
# sweeps 0..300 and 1020..1030.  The target always has a sibling named like the target minus its
# last character (and, for escaped endings, minus its last escape), so a pointer that loses its
# tail anywhere on the way addresses the WRONG member / element instead of merely failing.
SWEEP_LENGTHS = list(range(0, 301)) + list(range(1020, 1031))


def sweep_layouts(L):
    """(layout name, document, pointer of exactly L bytes to a node holding 1) for the layouts that exist at L"""
    T, S = ("i", 1), ("i", 2)             # target value, sibling value
    rest = [(b"z", [("i", 7)])]
    if L == 0:
        yield "root", ("o", [(b"a", T)]), b""
        return
    # one long member name
    name = b"k" * (L - 2) + b"X" if L >= 2 else b""
    ms = [(name, T)] + ([(name[:-1], S)] if name else [])
    yield "name", ("o", ms + rest), b"/" + name
    # nested names adding up to L:  /n1/n2/n3
    if L >= 6:
        l1 = (L - 3) // 3
        l2 = (L - 3) // 3
        l3 = L - 3 - l1 - l2
        n1, n2, n3 = b"p" * l1, b"q" * l2, b"r" * (l3 - 1) + b"Y"
        inner = ("o", [(n3[:-1], S), (n3, T)])
        yield "nested", ("o", [(n1, ("o", [(n2, inner), (n2[:-1], ("o", [(n3, S)]))]))] + rest), b"/" + n1 + b"/" + n2 + b"/" + n3
    # the last two bytes are an escape
    if L >= 3:
        for e, c in ((b"~0", b"~"), (b"~1", b"/")):
            pre = b"e" * (L - 3)
            yield "escape" + e.decode()[1], ("o", [(pre, S), (pre + c, T), (pre + c + c, S)] + rest), b"/" + pre + e
    # the last token is a two-digit array index below a long name: losing a digit gives element 1
    if L >= 4:
        nm = b"a" * (L - 4)
        arr = [S] * 10 + [T, S]
        yield "index", ("o", [(nm, arr)] + rest), b"/" + nm + b"/10"


def sweep_ops(ptr, is_root):
    """every operation kind with the long pointer as path, and as from"""
    yield mk_op(b"test", ptr, value=("i", 1))
    yield mk_op(b"replace", ptr, value=("o", [(b"n", None)]))
    yield mk_op(b"remove", ptr)
    yield mk_op(b"add", ptr, value=[("i", 3)])
    yield mk_op(b"move", b"/moved", **{"from": ptr})
    yield mk_op(b"copy", b"/copied", **{"from": ptr})
    yield mk_op(b"move", ptr, **{"from": b"/z"})
    yield mk_op(b"copy", ptr, **{"from": b"/z/0"})
    yield mk_op(b"move", ptr, **{"from": ptr})


def gen_length_sweep(tier):
    out = []
    meta = {"kind": "pointer-length"}
    k = 0
    for L in SWEEP_LENGTHS:
        for layout, doc, ptr in sweep_layouts(L):
            assert len(ptr) == L and resolve(doc, ptr) == (doc if L == 0 else ("i", 1)), (L, layout)
            ops = list(sweep_ops(ptr, L == 0))
            for j, o in enumerate(ops):
                # quick: every kind for the single long name, three kinds per length (rotating) for the other layouts
                if tier == "quick" and layout not in ("name", "root") and (j - L) % 3 != 0:
                    continue
                k += 1
                out.append((mk_line("ic"[k % 2], doc, [o]), meta))
            # and one patch that uses the pointer four times in a row
            seq = [mk_op(b"test", ptr, value=("i", 1)), mk_op(b"copy", b"/copied", **{"from": ptr}),
                   mk_op(b"replace", ptr, value=None), mk_op(b"test", ptr, value=None), mk_op(b"remove", ptr)]
            k += 1
            out.append((mk_line("ic"[k % 2], doc, seq), meta))
    return out


def gen(rng, tier):
    n = 8000 if tier == "quick" else 150000
    out = []
    for d, p in WITNESSES:
        for m in "ic":
            out.append((mk_line(m, J(d), J(p)), {"kind": "witness"}))
    # a JSON null target, a non-array patch
    out.append((mk_line("i", None, J([{"op": "add", "path": "", "value": 1}])), {"kind": "null-target"}))
    out.append((mk_line("c", None, J([])), {"kind": "null-target"}))
    out += gen_length_sweep(tier)
    out += gen_small_scope(tier)
    out += gen_shapes_exhaustive()
    for ci in range(n // 6):
        doc, patch = gen_shapes_random(rng)
        out.append((mk_line("i" if rng.random() < 0.65 else "c", doc, patch), {"kind": "shapes:random"}))
    for ci in range(n):
        mode = "i" if rng.random() < 0.5 else "c"
        if rng.random() < 0.68:
            nops = rng.choice([1, 2, 2, 3, 4, 5, 6, 8, 12])
            doc, ops, kind = gen_wellformed(rng, nops)
            for k in kind.split("+"):
                OPMIX[k] = OPMIX.get(k, 0) + 1
            out.append((mk_line(mode, doc, ops), {"kind": "ops:%s" % ("1" if nops == 1 else "2-3" if nops <= 3 else "4-6" if nops <= 6 else "8-12")}))
        else:
            doc, patch, kind = gen_malformed(rng)
            out.append((mk_line(mode, doc, patch), {"kind": "malformed:" + kind}))
    return [(l, m) for l, m in out if "\x00" not in l]


def shrink(ck, line, cls):
    import fw
    mode, doc, patch = parse_line(line)

    def fails_line(l):
        m, c, _ = ck.run_pair([l], "shrink")
        for v in violations(l, c.get(1, "MISSING")):
            if v[0] == cls:
                return True
        return False

    if isinstance(patch, list) and len(patch) > 1:
        small = fw.ddmin(patch, lambda sub: fails_line(mk_line(mode, doc, sub)), budget=40)
        if fails_line(mk_line(mode, doc, small)):
            patch = small

    def prune(t):
        if is_obj(t):
            for j in range(len(t[1])):
                yield ("o", t[1][:j] + t[1][j + 1:])
            for j, (k, v) in enumerate(t[1]):
                for c in prune(v):
                    yield ("o", t[1][:j] + [(k, c)] + t[1][j + 1:])
        elif isinstance(t, list):
            if t:
                yield t[:-1]
            for j, v in enumerate(t):
                for c in prune(v):
                    yield t[:j] + [c] + t[j + 1:]
    budget = 60
    progress = True
    while progress and budget > 0:
        progress = False
        for cand in prune(doc):
            budget -= 1
            if budget <= 0:
                break
            if fails_line(mk_line(mode, cand, patch)):
                doc = cand
                progress = True
                break
    return mk_line(mode, doc, patch)


def search(rng, broken_lines):
    return gen(rng, "quick")[:1500]


LEVEL_TEXT = ("Machine-checked (Coq, no axioms): a Gallina model that follows the repaired json_patch.c operation by operation (field lookups "
              "with the JSON-null = NULL string made explicit as a UB result where C would dereference it, string-typed op/path/from, the "
              "parent-under-child test on the strings, remove through parent + unescaped key / uint32 index, the inserting array callbacks, "
              "json_pointer_* from C12's model, errno values, patch_failure_idx) is compared with an independent sequential RFC 6902 "
              "evaluator written on top of C12's RFC 6901 evaluator.  Proved for all targets and all patch arrays: per-operation "
              "conformance of test, remove, add, replace, move and copy, and by induction over the operation list apply = RFC 6902 "
              "evaluation including the index of the first failing operation (guards: the two recorded deviations below and the "
              "representation bound of arrays); for ALL values used as patch documents the model never reaches a NULL dereference and "
              "answers non-arrays with EFAULT, malformed operations with an error at their index; the patch document is never written.  "
              "Seven deviations of the original code were repaired in /repo (fix: commits: null op/from/path dereference, non-string fields "
              "coerced, escaped member name in remove/move, token-blind parent-under-child test also applied to copy, move of a missing "
              "location onto itself, move beyond the end of the shortened array, add/replace/copy sharing nodes with the patch document / "
              "the source); two remain as known findings with refuted-theorems and exact guards (test compares 1 and 1.0 as different; a "
              "JSON null document is the NULL pointer and cannot be addressed).  The model is tied to json_patch.c on every run by "
              "differential execution of the extracted model and the ASan/UBSan build, in both calling modes; the Python RFC 6902 oracle "
              "judges the implementation independently of the model, together with the patch-unchanged, source-unchanged, no-sharing "
              "(address sets) and no-leak probes of the driver.")
LEVEL_NOTE = ("Trusted: Coq kernel; extraction + OCaml glue; harness; the Python oracle.  The theorems are about the Gallina model; the C code "
              "is tied to it only by the checked correspondence (sampled targets and patches, not all).  The pure model has value semantics: "
              "independence of placed values from the patch document and the copy source is what json_object_deep_copy provides (C09) and is "
              "checked at run time by the address-set probe, not proved about a heap model.  Side conditions: target not JSON null (API "
              "domain), no 0 byte in op/path/from, arrays shorter than 2^32, allocation succeeds.  After a failing move the source location is "
              "already removed (json-c leaves the effects of a partially applied patch in place; RFC 6902 does not say otherwise).")
