"""C18 — threaded build: shared reference counts are atomic; the hash seed is set once.

Two ties to the code, both re-established on every run:
 (A) tr/atomics.py re-reads the preprocessed json_object.c / linkhash.c (defines of the
     threaded build) and REGENERATES coq/theories/ThreadImpl.v (the micro-operation programs
     of json_object_get/put and of the seed initialisation); the theorems of
     Properties_C18.v are about these definitions, so non-atomic code, a destroy decision
     that re-reads the count, or a racy seed make the proofs fail to re-check; a source shape
     the translator does not know makes the generated ThreadImplCheck.v (a dependency of the
     property file) fail, while ThreadImpl.v keeps marked placeholders so that (B) still runs;
 (B) the `thr` stream: harness/drv_thr.c built with -fsanitize=thread -DENABLE_THREADING,
     one freshly forked process per case; N in {2,4,8,16} threads on shared nodes with exact
     final bookkeeping, the same while another thread changes the node's count through
     container paths (destroying / emptying / overwriting a container that holds it), racing first use of the key hash, disjoint trees.
"""
import os, sys

import fw

sys.path.insert(0, os.path.join(fw.VERIF, "tr"))
import atomics  # noqa: E402

PROP = "C18"
DOMAIN = "thr"
VARIANT = "tsan"
LEVEL = "proof"
TECHNIQUE = ("Coq proof over ALL schedules of an interleaving semantics (ThreadProofs.v) about micro-operation programs "
             "regenerated from the preprocessed C sources on every run (tr/atomics.py) + ThreadSanitizer stress stream "
             "with exact reference-count bookkeeping and racing first use of the hash seed")
RULE = ("rc cases: N in {2,4,8,16} workers x K in 50..100000 pseudo-random get/put on 1..4 shared nodes, three ways of "
        "releasing the creator's reference (after join / racing / handed to a worker), 0..3 extra references checked exactly "
        "after the join; last cases: N threads own the N (= all) references of a fresh node and release them at the same "
        "moment, many rounds; iso cases: N threads with NO shared object, each with its own thread-local double format (%.0f, %.3g, %.17g, unset, %.2f), "
        "serialise under 6 flag words / re-parse with an own tokener / deep-copy+equal / json_pointer get+set / json_patch their own trees "
        "in a loop, every text compared with what the same thread computed alone; sched: the model driver explores ALL schedules of small configurations with the regenerated programs; "
        "cont cases: one thread hands references to its own array/object and lets the library release them "
        "(put of the container, array_del_idx, array_put_idx, object_del, object_add replacing) while N workers get/put the "
        "member directly; seed cases: N threads released by a barrier on the first use of the key hash in a fresh process, "
        "random keys; seedx cases: the same with the first results of json_c_get_random_seed scripted (sentinel -1 first / "
        "throughout the racing phase / interleaved, 0, INT_MIN, INT_MAX, repeated values); trees cases: N threads on disjoint trees vs a sequential run.  A case is non-trivial when it ran to "
        "its observation; distinct = distinct (kind, N, mode/M/L or R, size bucket, seed)")
TRUSTED = ["Coq 8.16.1 kernel (coqc), no axioms (Print Assumptions: closed under the global context)",
           "tr/atomics.py (source -> micro-operation translator; fails loudly on any unrecognised statement or stray access)",
           "the __sync_* builtins are atomic as modelled (one indivisible step) and the hardware memory model gives them "
           "sequentially consistent interleaving semantics",
           "gcc -E / cmake-generated config.h (HAVE_ATOMIC_BUILTINS), gcc -fsanitize=thread, harness/drv_thr.c, extraction + ocaml glue"]
ASSUMPTIONS = ["client threads respect ownership: a thread calls get/put on a node only while it owns a reference (wf_init)",
               "initial count + number of gets <= UINT32_MAX (json-c asserts this in debug builds)",
               "json_c_get_random_seed is an arbitrary oracle (the runtime stream scripts its first results in the seedx cases); "
               "the retry loop makes the published value differ from the sentinel -1",
               "ThreadSanitizer evidence is sampled schedules only; one report class is tolerated and counted: plain (volatile) READ "
               "of the 4-byte global random_seed racing with the atomic CAS that installs it (see C18_seed_plain_read_witness)"]
LEVEL_TEXT = ("Machine-checked for ALL schedules, all thread counts and all ownership-respecting programs: with the micro-operation "
              "programs regenerated from the threaded build's sources, the count always equals the number of owned references (no lost "
              "update), the node is destroyed at most once, never while a reference is owned, exactly once iff the final count is 0, "
              "the destruction directly follows the atomic decrement that returned 0 and is the last event on the node, every count "
              "access is atomic; every hash ever computed uses the single value installed by the one successful compare-and-swap. "
              "Negative controls (load/store count, re-read decision, local seed, plain-store seed) are refuted by explicit schedules. "
              "The runtime stream under ThreadSanitizer supports the same on the compiled library.")
LEVEL_NOTE = ("Partial: atomicity of the __sync builtins and the hardware memory model are trusted, not proved; the theorems are about the "
              "regenerated micro-operation programs (tied to the C text by the translator, which is trusted) under sequentially consistent "
              "interleaving; ThreadSanitizer runs are supporting evidence over sampled schedules.")

# the driver decides about reports itself (__tsan_default_options / __tsan_on_report in drv_thr.c);
# make sure the environment does not override it
os.environ.pop("TSAN_OPTIONS", None)

_tr_info = {}
_stats = {"volrd_cases": 0, "cases": 0, "ops": 0, "crashed_cases": 0}


def tsan_defines():
    return [f for f in fw.VARIANTS[VARIANT]["flags"] if f.startswith("-D")]


def coq_extra():
    """regenerate ThreadImpl.v from the working tree; it is then compiled before the property file"""
    ok, info = atomics.regenerate(fw.REPO, fw.ensure_cfg(), tsan_defines())
    _tr_info.clear()
    _tr_info.update(info)
    th = os.path.join(fw.COQ, "theories")

    def stale(name, changed):
        v, vo = os.path.join(th, name + ".v"), os.path.join(th, name + ".vo")
        return changed or not os.path.exists(vo) or os.path.getmtime(vo) < os.path.getmtime(v)

    def drop(*names):
        for f in names:
            try:
                os.remove(os.path.join(th, f + ".vo"))
            except OSError:
                pass

    if not ok:
        print("C18: tr/atomics.py does not recognise the source: %s" % info.get("reason"))
    files = []
    # ThreadImpl.v always compiles (unrecognised functions carry marked placeholders), so the model
    # driver and the runtime stream always build; ThreadImplCheck.v compiles only when everything
    # was recognised, and Properties_C18.v depends on it.  When a generated text is new, nothing
    # compiled against the old one may survive, and the file is compiled explicitly so that its
    # failure is recorded by fw.coq_check.
    if stale("ThreadImpl", info["changed"]) or not os.path.exists(os.path.join(th, "ThreadProofs.vo")):
        drop("ThreadImpl", "ThreadProofs", "ThreadImplCheck", "Properties_C18")
        # the proofs are listed too: they are then re-checked against the new text whatever the
        # state of make's dependency information (several checks share coq/Makefile.coq), and the
        # .vo time stamps end up in dependency order
        files += ["theories/ThreadImpl.v", "theories/ThreadProofs.v"]
    if files or not ok or stale("ThreadImplCheck", info["check_changed"]):
        drop("ThreadImplCheck", "Properties_C18")
        files.append("theories/ThreadImplCheck.v")
    return files


def extra_coverage():
    return dict(translator=dict(_tr_info), tolerated_seed_read_reports=_stats["volrd_cases"],
                refcount_operations=_stats["ops"], crashed_cases=_stats["crashed_cases"],
                model_counterexample_schedule=_stats.get("model_schedule"))


# ------------------------------------------------------------------ generator
MODES = ["join", "race", "hand"]
LAST_ROUNDS = [(2, 2000), (3, 2000), (4, 1500), (8, 300), (16, 80)]
CONT_OPS = ["putc_arr", "putc_obj", "adel", "aput", "odel", "oadd"]
ARRAY_OPS, OBJECT_OPS = ["putc_arr", "adel", "aput"], ["putc_obj", "odel", "oadd"]


def rand_key(rng):
    n = rng.choice([0, 1, 2, 3, 7, 8, 12, 13, 40])
    if rng.random() < 0.5:
        b = bytes(rng.choice(b"abcdefghijklmnopqrstuvwxyz_0123456789") for _ in range(n))
    else:
        b = bytes(rng.randrange(1, 256) for _ in range(n))
    return b.hex() if b else "-"


INT_MIN, INT_MAX = -2147483648, 2147483647
# (N, R, key, draws): a thread makes at most R+2 draws while the seed is unset
SEEDX_FIXED = [
    (1, 0, "6b", "-1"),                         # single thread, first draw is the sentinel
    (1, 2, "6b6579", "-1,x3"),                  # ... on every draw of the thread
    (2, 1, "61", "-1,x5"),                      # all draws of the racing phase
    (8, 0, "6b6579", "-1,x15"),
    (16, 1, "-", "-1,x47"),
    (4, 1, "7a", "-1,7,-1,8,-1,9"),             # sentinel interleaved with real values
    (4, 0, "6b", "0,0,0,0"),                    # 0 and repeated values are ordinary seeds
    (2, 3, "6b6579", "%d,%d" % (INT_MIN, INT_MAX)),
    (8, 1, "71", "-2,-2,-1,-2"),
]


def rand_draws(rng, n, r):
    k = rng.choice([1, 2, n, n * (r + 2)])
    pool = [-1] * 6 + [0, 1, -2, INT_MIN, INT_MAX, 7, 7, rng.randrange(INT_MIN, INT_MAX + 1)]
    if rng.random() < 0.4:
        return "-1" + (",x%d" % (k - 1) if k > 1 else "")
    return ",".join(str(rng.choice(pool)) for _ in range(k))


def _fit_machine(cases):
    """fewer hardware threads than the scenario's thread count makes spin-released threads starve each other (under
    TSan a case can then run for minutes): cap the thread count of the count/container/last/isolated/trees scenarios at
    the number of CPUs and shorten them on small machines.  seed/seedx/sched lines are light and left alone."""
    import os
    try:
        ncpu = len(os.sched_getaffinity(0))
    except Exception:
        ncpu = os.cpu_count() or 2
    if ncpu >= 16:
        return cases
    out = []
    for l, m in cases:
        f = l.split(" ")
        if len(f) > 3 and f[0] == "thr" and f[1] in ("rc", "cont", "last", "iso", "trees"):
            n = int(f[2])
            f[2] = str(max(2, min(n, ncpu)))
            if ncpu < 8 and f[3].isdigit():
                f[3] = str(max(1, int(f[3]) // 4))
            l = " ".join(f)
        out.append((l, m))
    return out


def tolerate(line_, meta, mo, co):
    return "TIMEOUT" in co


def gen(rng, tier):
    return _fit_machine(_gen(rng, tier))


def _gen(rng, tier):
    out = []
    quick = tier == "quick"
    # --- shared nodes
    ks_small = [50, 200, 1000, 3000]
    ks_big = [20000, 50000] if quick else [100000, 100000]
    for n in (2, 4, 8, 16):
        for mode in MODES:
            reps = 2 if quick else 8
            for _ in range(reps):
                k = rng.choice(ks_small)
                m = rng.choice([1, 1, 2, 4])
                l = rng.choice([0, 0, 1, 3])
                out.append(("thr rc %d %d %d %s %d %d" % (n, k, m, mode, l, rng.randrange(1, 1 << 20)),
                            {"kind": "rc-" + mode}))
    for n in (2, 4, 8, 16):        # long contended runs: the stress part
        for mode in (MODES if not quick else [rng.choice(MODES)]):
            k = rng.choice(ks_big)
            out.append(("thr rc %d %d %d %s %d %d" % (n, k, rng.choice([1, 2]), mode, rng.choice([0, 2]), rng.randrange(1, 1 << 20)),
                        {"kind": "rc-" + mode}))
    if quick:
        out.append(("thr rc 16 100000 1 race 1 %d" % rng.randrange(1, 1 << 20), {"kind": "rc-race"}))
    # --- no shared object at all: own thread-local double format, own trees; serialise / parse /
    #     deep-copy / compare / pointer / patch in a loop (races on library-internal state)
    for n in (2, 4, 8, 16):
        for _ in range(2 if quick else 8):
            out.append(("thr iso %d %d %d %d" % (n, rng.choice([50, 150, 300]) if n < 16 else rng.choice([30, 60]),
                                                rng.choice([10, 40, 120]), rng.randrange(1, 1 << 20)), {"kind": "iso"}))
    # --- the LAST references released concurrently: N threads own the N (= all) references
    for n, rounds in LAST_ROUNDS:
        for _ in range(1 if quick else 3):
            out.append(("thr last %d %d %d" % (n, rounds if quick else rounds * 2, rng.randrange(1, 1 << 20)), {"kind": "last"}))
    # --- counts changed by container paths (destroy / empty / overwrite a container holding the
    #     node) in one thread while the others get/put the node directly
    for op in CONT_OPS + ["mix"]:
        for n in ((rng.choice([2, 4]), rng.choice([8, 16])) if quick else (2, 4, 8, 16)):
            out.append(("thr cont %d %d %s %d %d" % (n, rng.choice([500, 2000, 6000]), op, rng.choice([200, 1000, 3000]),
                                                    rng.randrange(1, 1 << 20)), {"kind": "cont-" + op}))
    # --- racing first use of the key hash
    for n in (2, 4, 8, 16):
        for _ in range(3 if quick else 60):
            out.append(("thr seed %d %d %s" % (n, rng.choice([0, 1, 5]), rand_key(rng)), {"kind": "seed"}))
    # --- the same with the random source scripted (the theorems hold for EVERY source): the
    #     sentinel -1 on the first draw(s), on all draws of the racing phase, in the middle;
    #     0, -2, INT_MIN/INT_MAX, repeated values.  A fixed part (every run) and a random part.
    for n, r, key, dr in SEEDX_FIXED:
        out.append(("thr seedx %d %d %s %s" % (n, r, key, dr), {"kind": "seedx"}))
    for n in (1, 2, 4, 8, 16):
        for _ in range(1 if quick else 24):
            r = rng.choice([0, 1, 3])
            out.append(("thr seedx %d %d %s %s" % (n, r, rand_key(rng), rand_draws(rng, n, r)), {"kind": "seedx"}))
    # --- disjoint trees
    for n in (2, 4, 8, 16):
        for size in ((10, 120) if quick else (10, 60, 120, 600)):
            out.append(("thr trees %d %d %d" % (n, size, rng.randrange(1, 1 << 20)), {"kind": "trees"}))
    rng.shuffle(out)
    # model side only: ALL schedules of small configurations with the regenerated programs (first,
    # so that a counterexample schedule heads the report when the proofs no longer check)
    out.insert(0, ("thr sched all", {"kind": "sched"}))
    return out


# ------------------------------------------------------------------ oracle
def parse_obs(o):
    t = o.strip().split(" ")
    d = {"kind": t[0]}
    if t[0] == "sched":
        return d
    i = 1
    while i < len(t):
        if "=" in t[i]:
            k, v = t[i].split("=", 1)
            d[k] = int(v)
            i += 1
        elif t[i] == "volrd" and i + 1 < len(t):
            d["volrd"] = t[i + 1]
            i += 2
        else:
            raise ValueError(o)
    return d


def oracle(line, meta, impl):
    """direct, model-independent: exact counts demanded by the property text"""
    if "TIMEOUT" in impl:
        return None          # the case ran out of its time budget (loaded or small machine): not judged
    if "CRASH" in impl:
        if "tsan:race" in impl:
            return ("tsan-race", "ThreadSanitizer report (data race / misuse) in the threaded build on `%s`: %s" % (" ".join(line.split(" ")[:5]), impl.strip()))
        return ("crash", "implementation crashed: " + impl)
    if impl in ("MISSING", "BADLINE", "FORKFAIL", "NODOMAIN"):
        return ("malformed", "no observation: " + impl)
    a = line.split(" ")
    try:
        d = parse_obs(impl)
    except (ValueError, IndexError):
        return ("malformed", "unexpected driver output: " + impl[:120])
    if a[1] == "rc":
        m = int(a[4])
        if d.get("kind") != "rc" or d.get("nodes") != m:
            return ("malformed", "unexpected driver output: " + impl[:120])
        if d["lost"] != 0:
            return ("lost-update", "after the join the reference count differs from initial + gets - puts by %d (sum over %d nodes)" % (d["lost"], m))
        if d["early"] != 0:
            return ("early-destroy", "%d node(s) destroyed while references were still owned (or not destroyed at the last release)" % d["early"])
        if d["destroyed"] != m or d["put1"] != m:
            return ("destroy-count", "%d nodes: delete callback ran %d times, json_object_put returned 1 %d times (want exactly once each)" % (m, d["destroyed"], d["put1"]))
        return None
    if a[1] == "sched":
        return None if d.get("kind") == "sched" else ("malformed", "unexpected driver output: " + impl[:120])
    if a[1] == "iso":
        n = int(a[2])
        if d.get("kind") != "iso" or d.get("threads") != n:
            return ("malformed", "unexpected driver output: " + impl[:120])
        if d["diff"] != 0:
            return ("isolated-threads-differ", "%d threads on DISJOINT objects, each with its own thread-local double format: %d texts "
                    "(serialise / re-parse / deep copy / pointer / patch) differ from what the same thread computed alone" % (n, d["diff"]))
        return None
    if a[1] == "last":
        n, r = int(a[2]), int(a[3])
        if d.get("kind") != "last" or d.get("rounds") != r:
            return ("malformed", "unexpected driver output: " + impl[:120])
        if d["destroyed"] != r or d["put1"] != r or d["bad"] != 0:
            return ("last-release", "%d threads released the last %d references of a node together, %d rounds: delete callback ran %d times, "
                    "json_object_put returned 1 %d times, %d rounds not exactly once" % (n, n, r, d["destroyed"], d["put1"], d["bad"]))
        return None
    if a[1] == "cont":
        if d.get("kind") != "cont":
            return ("malformed", "unexpected driver output: " + impl[:120])
        where = "container path %s in one thread, %s workers get/put the member directly" % (a[4], a[2])
        if d["lost"] != 0:
            return ("lost-update", "%s: after the join the member's count is off by %d" % (where, d["lost"]))
        if d["early"] != 0:
            return ("early-destroy", "%s: the member was destroyed while a reference was still owned" % where)
        if d["destroyed"] != 1 or d["put1"] != 1:
            return ("destroy-count", "%s: delete callback ran %d times, the last json_object_put returned 1 %d times (want 1, 1)"
                    % (where, d["destroyed"], d["put1"]))
        return None
    if a[1] in ("seed", "seedx"):
        n = int(a[2])
        if d.get("kind") != "seed":
            return ("malformed", "unexpected driver output: " + impl[:120])
        if d["distinct"] != 1 or d["late"] != 0 or d["found"] != n:
            return ("seed-inconsistent", "%d racing threads + a later call computed %d distinct hash values for the same key; %d repeated "
                    "hashes changed; the entry a thread inserted is found under the later hash in %d of %d tables" % (n, d["distinct"], d["late"], d["found"], n))
        return None
    if a[1] == "trees":
        n = int(a[2])
        if d.get("kind") != "trees":
            return ("malformed", "unexpected driver output: " + impl[:120])
        if d["same"] != n or d["destroyed"] != n:
            return ("trees-differ", "disjoint trees in %d threads: %d serialisations equal the sequential run, %d roots destroyed (want %d, %d)" % (n, d["same"], d["destroyed"], n, n))
        return None
    return ("malformed", "unknown case kind")


def classify(line, meta, mo, co):
    if line.startswith("thr sched") and "VIOLATED" in mo:
        _stats["model_schedule"] = mo
        print("C18: the regenerated micro-operation programs have a schedule that breaks the property: " + mo)
        return "model-schedule"      # the regenerated programs have a schedule that breaks a clause
    return None


def nontrivial(line, meta, impl):
    if "CRASH" in impl:
        _stats["crashed_cases"] += 1      # (the driver isolates each case in a child and reports its crash itself)
        return None
    if "=" not in impl:
        return None
    a = line.split(" ")
    _stats["cases"] += 1
    if impl.endswith("volrd 1"):
        _stats["volrd_cases"] += 1
    if a[1] == "cont":
        _stats["ops"] += int(a[2]) * int(a[3]) + 2 * int(a[5])
        return tuple(a[1:])
    if a[1] == "last":
        _stats["ops"] += int(a[2]) * int(a[3])
        return tuple(a[1:])
    if a[1] == "iso":
        return tuple(a[1:])
    if a[1] == "sched":
        return None
    if a[1] == "rc":
        _stats["ops"] += int(a[2]) * int(a[3])
        return ("rc", a[2], a[4], a[5], a[6], len(a[3]), a[7])
    return tuple(a[1:])


# ------------------------------------------------------------------ shrink / search
def _fails(ck, l, cls, tries=3):
    for _ in range(tries):       # schedules are not reproducible: a few attempts
        m, c, _ = ck.run_pair([l], "shrink")
        v = oracle(l, {}, c.get(1, "MISSING"))
        if v is not None and v[0] == cls:
            return True
    return False


def expand_draws(dr):
    out = []
    for tok in dr.split(","):
        if tok.startswith("x") and out:
            out += [out[-1]] * int(tok[1:])
        else:
            out.append(tok)
    return out


def shrink_seedx(ck, a, cls):
    """fewer threads / repeats / draws; the canonical smallest shapes first"""
    key, draws = a[4], expand_draws(a[5])
    for cand in (["thr", "seedx", "1", "0", key, draws[0]], ["thr", "seedx", "1", "0", key, ",".join(draws[:2])],
                 ["thr", "seedx", "1", a[3], key, ",".join(draws[:int(a[3]) + 2])]):
        if _fails(ck, " ".join(cand), cls, tries=2):
            return " ".join(cand)
    best = a[:5] + [",".join(draws)]
    n = int(a[2])
    while n > 1:
        n = max(1, n // 2)
        cand = best[:2] + [str(n)] + best[3:]
        if not _fails(ck, " ".join(cand), cls, tries=2):
            break
        best = cand
    return " ".join(best)


def shrink_cont(ck, a, cls):
    """fewer workers / iterations; a `mix` is replaced by the single path that still fails"""
    best = a
    if best[4] == "mix":
        for op in CONT_OPS:
            c = best[:4] + [op] + best[5:]
            if _fails(ck, " ".join(c), cls, tries=2):
                best = c
                break
    for _ in range(6):
        n, k, c = int(best[2]), int(best[3]), int(best[5])
        cand = None
        for t in ([best[:2] + [str(max(1, n // 2))] + best[3:]] if n > 1 else []) + \
                 ([best[:3] + [str(max(50, k // 4))] + best[4:]] if k > 50 else []) + \
                 ([best[:5] + [str(max(20, c // 4))] + best[6:]] if c > 20 else []):
            if _fails(ck, " ".join(t), cls):
                cand = t
                break
        if cand is None:
            break
        best = cand
    return " ".join(best)


def shrink(ck, line, cls):
    a = line.split(" ")
    if a[1] == "seedx" and len(a) == 6:
        return shrink_seedx(ck, a, cls)
    if a[1] == "cont":
        return shrink_cont(ck, a, cls)
    if a[1] != "rc":
        return line
    best = a
    for _ in range(6):
        cand = None
        n, k, m, l = int(best[2]), int(best[3]), int(best[4]), int(best[6])
        for c in ([best[:2] + [str(max(2, n // 2))] + best[3:]] if n > 2 else []) + \
                 ([best[:3] + [str(max(50, k // 4))] + best[4:]] if k > 50 else []) + \
                 ([best[:4] + ["1"] + best[5:]] if m > 1 else []) + \
                 ([best[:6] + ["0"] + best[7:]] if l > 0 else []):
            if _fails(ck, " ".join(c), cls):
                cand = c
                break
        if cand is None:
            break
        best = cand
    return " ".join(best)


def search(rng, broken_lines):
    """proof or correspondence broke: heavier stress looking for a concrete failing run"""
    out = []
    # the translator names the functions that change the count outside json_object_get/put:
    # exercise the public paths that reach them first, with many iterations and several seeds
    ops = []
    for st in _tr_info.get("stray", []):
        frm = set(st.get("reachable_from", [])) | {st.get("function", "")}
        if any(f.startswith("json_object_new_array") or "array" in f for f in frm):
            ops += ARRAY_OPS
        if any(f.startswith("json_object_new_object") or "lh_entry" in f or "object_object" in f for f in frm):
            ops += OBJECT_OPS
        if not ops:
            ops += CONT_OPS
    for op in sorted(set(ops), key=CONT_OPS.index):
        for n in (2, 8, 16):
            for _ in range(2):
                out.append(("thr cont %d 20000 %s 10000 %d" % (n, op, rng.randrange(1, 1 << 20)), {"kind": "cont-" + op}))
    for n in (2, 4, 16):
        for _ in range(3):
            out.append(("thr iso %d 400 60 %d" % (n, rng.randrange(1, 1 << 20)), {"kind": "iso"}))
    for n, rounds in LAST_ROUNDS:
        for _ in range(3):
            out.append(("thr last %d %d %d" % (n, rounds * 3, rng.randrange(1, 1 << 20)), {"kind": "last"}))
    for mode in MODES:
        for n in (16, 8, 4, 2):
            out.append(("thr rc %d %d 1 %s %d %d" % (n, 60000, mode, rng.choice([0, 2]), rng.randrange(1, 1 << 20)), {"kind": "rc-" + mode}))
    for _ in range(30):
        out.append(("thr seed 16 2 %s" % rand_key(rng), {"kind": "seed"}))
    for n in (1, 2, 8, 16):
        for _ in range(6):
            out.append(("thr seedx %d 1 %s %s" % (n, rand_key(rng), rand_draws(rng, n, 1)), {"kind": "seedx"}))
    for _ in range(6):
        out.append(("thr trees 16 200 %d" % rng.randrange(1, 1 << 20), {"kind": "trees"}))
    return out
