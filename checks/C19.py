"""C19 — print buffer.  Generator aims at capacity-doubling boundaries, memset ending
exactly at capacity, offsets -1 / inside / beyond, INT_MAX-adjacent arguments (refused
before any copy), allocation refusal (limit)."""
PROP = "C19"
DOMAIN = "pb"
LEVEL = "proof"
TECHNIQUE = "Coq refinement proof (PbProofs.v) + extracted-model/C differential correspondence"
RULE = ("histories of 1..40 print-buffer operations generated from one PRNG with a shadow of (bpos,size) used only to aim "
        "lengths at capacity boundaries; a case is non-trivial when at least one operation succeeded and one grew the "
        "buffer or was refused; distinct = distinct (script) among those")
TRUSTED = ["Coq 8.16.1 kernel (coqc), no axioms (Print Assumptions: closed under the global context)",
           "extraction (ExtrOcamlBasic only) + ocaml/mdrv glue", "harness/drv_pb.c, xalloc.c, gcc -fsanitize=address,undefined",
           "vsnprintf/vasprintf modelled as an oracle producing the formatted bytes"]
ASSUMPTIONS = ["libc vsnprintf/vasprintf produce the same bytes for the same format and arguments",
               "realloc preserves contents; memory model of C is outside the model (ASan/UBSan supporting only)"]
INT_MAX = 2147483647
HUGE = object()


def hexs(b):
    return b.hex() if b else "-"


def gen(rng, tier):
    n = 1500 if tier == "quick" else 40000
    out = []
    for ci in range(n):
        bpos, size = 0, 32
        ops = []
        limit = rng.choice([1 << 26] * 6 + [64, 200, 1000])
        kind = "mixed"
        for _ in range(rng.randint(1, 25 if rng.random() < 0.9 else 80)):
            r = rng.random()
            room = size - bpos
            if r < 0.40:   # append aimed at the boundary
                ln = rng.choice([0, 1, 2, room - 2, room - 1, room, room + 1, rng.randint(0, 70), rng.randint(0, 150)])
                ln = min(max(0, ln), 700)
                data = rng.randbytes(ln)
                ops.append("A" + hexs(data))
                need = bpos + ln + 1
                if size <= need and need <= limit:
                    size = max(size * 2, need + 8) if size < need else size
                if need <= max(size, 0):
                    bpos += ln
            elif r < 0.65:  # memset
                off = rng.choice([-1, -1, 0, bpos, max(0, bpos - 3), bpos + 1, size - 1, size, size + 1, rng.randint(0, 400)])
                o2 = bpos if off == -1 else off
                ln = rng.choice([0, 1, max(0, size - o2), max(0, size - o2 - 1), size - o2 + 1 if size - o2 + 1 > 0 else 1, rng.randint(0, 100)])
                c = rng.choice([0, 65, 255, 256 + 66, -1, rng.randrange(256)])
                ops.append("S%d,%d,%d" % (off, c, ln))
                if o2 + ln > (1 << 11):          # keep buffers small: exponential growth otherwise
                    off, o2, ln = 0, 0, rng.randint(0, 50)
                    ops[-1] = "S%d,%d,%d" % (off, c, ln)
                need = o2 + ln
                if size < need and need + 8 <= limit * 2:
                    size = max(size * 2, need + 8)
                if need <= size:
                    bpos = max(bpos, need)
            elif r < 0.78:  # sprintbuf, short and > 128 bytes; a third of them with NUL bytes inside
                ln = rng.choice([0, 1, 126, 127, 128, 129, 300, rng.randint(0, 200)])
                data = bytearray(rng.randrange(1, 256) for _ in range(ln))
                if ln and rng.random() < 0.34:
                    for _ in range(rng.choice([1, 1, 2, 3])):
                        data[rng.choice([0, ln - 1, ln // 2, rng.randrange(ln)])] = 0
                    while data.count(0) > 3:
                        data[data.index(0)] = 1
                    ops.append("G" + hexs(bytes(data)))
                else:
                    ops.append("F" + hexs(bytes(data)))
                need = bpos + ln + 1
                if size <= need:
                    size = max(size * 2, need + 8)
                bpos += ln
            elif r < 0.80 and ops and ops[-1][0] == "A" and bpos < 3000 and limit >= (1 << 26):
                # formatted print whose arguments are the buffer's own contents (right after an append: NUL-terminated)
                k = rng.choice([0, 7, -1, 123456, bpos])
                ops.append("X%d" % k)
                ln = 2 * bpos + 4 + len(str(k))      # upper bound (a NUL inside the contents cuts %s short)
                need = bpos + ln + 1
                if size <= need:
                    size = max(size * 2, need + 8)
                bpos += ln
            elif r < 0.86:
                ops.append("R")
                bpos = 0
            elif r < 0.93:  # refused: INT_MAX-adjacent sizes (never copied)
                kind = "oversize"
                which = rng.random()
                if which < 0.4:
                    nn = rng.choice([INT_MAX, INT_MAX - 1, INT_MAX - bpos, INT_MAX - bpos - 1 + rng.choice([0, 1, 2]), -1, -5, -INT_MAX - 1])
                    # INT_MAX - bpos - 1 is the largest *accepted* by the first test but then refused by extend (> INT_MAX-8)
                    ops.append("N%s,%d" % (hexs(bytes([1, 2, 3])), nn))
                elif which < 0.8:
                    off = rng.choice([-1, 0, 5, INT_MAX, INT_MAX - 1, -2, -100])
                    o2 = bpos if off == -1 else off
                    ln = rng.choice([INT_MAX, INT_MAX - o2 + 1, INT_MAX - o2, INT_MAX - 7 - o2, INT_MAX - 8 - o2 + 1, -1])
                    if o2 >= 0 and 0 <= ln and o2 + ln <= INT_MAX - 8:
                        ln = INT_MAX  # would really allocate 2 GiB: keep to refused requests
                    ops.append("S%d,%d,%d" % (off, 65, ln))
                else:
                    ops.append("N%s,%d" % (hexs(b"abc"), rng.choice([0, 1, 2, 3])))
                    bpos += 0
            else:           # explicit size argument <= |bs|
                ln = rng.randint(0, 20)
                data = rng.randbytes(ln)
                nn = rng.randint(0, ln)
                ops.append("N%s,%d" % (hexs(data), nn))
                bpos += nn
        if limit < (1 << 26):
            kind = "alloc-limit"
        out.append(("pb %d %s" % (limit, ";".join(ops)), {"kind": kind}))
    # small scope, exhaustively: every sequence of up to 3 (quick) / 4 (thorough) operations from a fixed alphabet that
    # hits the capacity boundaries of the initial 32-byte buffer
    import itertools
    alpha = ["A-", "A41", "A" + "42" * 30, "A" + "43" * 31, "A" + "44" * 32, "S-1,65,1", "S-1,0,31", "S0,66,32", "S31,67,1", "S32,68,1",
             "S5,69,0", "F" + "45" * 127, "F" + "46" * 128, "G470048", "R", "N494a,1", "X7"]
    for ln in range(1, 4 if tier == "quick" else 5):
        for seq in itertools.product(alpha, repeat=ln):
            if any(o.startswith("X") and (i == 0 or not seq[i - 1].startswith("A")) for i, o in enumerate(seq)):
                continue      # X reads the buffer as a C string: only right after an append
            out.append(("pb %d %s" % (1 << 26, ";".join(seq)), {"kind": "small-scope"}))
    # fills of every length 0..200 with the bytes a fast path would special-case (blank, NUL, '0', 0xff), at offset 0, at the
    # end of short contents, and one before the capacity
    for c in (32, 0, 48, 255, 9):
        for ln in range(0, 201):
            pre, off = [("", -1), ("A6162;", -1), ("A" + "63" * 31 + ";", 30)][ln % 3]
            out.append(("pb %d %sS%d,%d,%d;A7a" % (1 << 26, pre, off, c, ln), {"kind": "fill-sweep"}))
    # a buffer grown beyond 1 MiB, then reset / empty appends / reset: nothing the buffer does later may depend on how
    # big it once was (memset builds the big contents; the observation prints them once)
    for seq in (["S0,65,1200000", "R", "R", "A41"], ["S0,65,1100000", "R", "A-", "R", "A4142"], ["S0,66,2200000", "R", "A43", "R", "R", "S-1,0,3"],
                ["S0,67,1048577", "R", "F" + "44" * 130, "R", "R"]) if tier == "quick" else (
               ["S0,65,1200000", "R", "R", "A41"], ["S0,65,1100000", "R", "A-", "R", "A4142"], ["S0,66,2200000", "R", "A43", "R", "R", "S-1,0,3"],
               ["S0,67,1048577", "R", "F" + "44" * 130, "R", "R"], ["S0,65,5000000", "R", "R", "R", "A41"], ["S0,65,1048576", "R", "R", "A41"]):
        out.append(("pb %d %s" % (1 << 26, ";".join(seq)), {"kind": "big-then-reset"}))
    # two threads printing into their own buffers at the same time: sprintbuf keeps no shared state
    for nthr in ([20000, 100000] if tier == "quick" else [20000, 100000, 400000, 400000]):
        out.append(("pb %d A6162;T%d;A63" % (1 << 26, nthr), {"kind": "threads"}))
    return out


def parse_obs(o):
    steps = []
    for s in o.split(" | "):
        t = s.split(" ")
        if len(t) == 2 and t[0] == "threads":
            steps.append(dict(threads=int(t[1])))
            continue
        if len(t) != 6:
            steps.append(None)
        else:
            steps.append(dict(ret=int(t[0]), err=t[1], bpos=int(t[2]), size=int(t[3]),
                              data=b"" if t[4] == "-" else bytes.fromhex(t[4]), term=t[5]))
    return steps


def spec_step(s, op):
    """the byte-array model of the property statement (independent of the Coq model)"""
    k = op[0]
    if k == "A" or k == "F" or k == "G":
        b = b"" if op[1:] == "-" else bytes.fromhex(op[1:])
        return s + b, len(s) + len(b) + 1
    if k == "X":
        body = s.split(b"\0")[0]
        b = b"<" + body + b"|" + op[1:].encode() + b"|" + body + b">"
        return s + b, len(s) + len(b) + 1
    if k == "N":
        h, n = op[1:].split(",")
        b = b"" if h == "-" else bytes.fromhex(h)
        n = int(n)
        return s + b[:max(n, 0)], len(s) + n + 1
    if k == "S":
        off, c, ln = [int(x) for x in op[1:].split(",")]
        if off == -1:
            off = len(s)
        if off < 0 or ln < 0:
            return None, INT_MAX + 1
        if off + ln > (1 << 27):      # never materialise huge buffers in the oracle
            return HUGE, off + ln
        p = s + bytes(max(0, off - len(s)))
        return p[:off] + bytes([c % 256]) * ln + p[off + ln:], off + ln
    if k == "R":
        return b"", 0
    raise ValueError(op)


def oracle(line, meta, impl):
    if impl.startswith("CRASH") or "CRASH" in impl:
        return ("crash", "implementation crashed: " + impl)
    _, limit, ops = line.split(" ", 2)
    ops = ops.split(";")
    steps = parse_obs(impl.split(" | LEAK")[0])
    if "LEAK" in impl:
        return ("leak", "allocation leaked: " + impl[-40:])
    if len(steps) != len(ops) or any(s is None for s in steps):
        return ("malformed", "unexpected driver output: " + impl[:100])
    s = b""
    for op, st in zip(ops, steps):
        if op[0] == "T":
            if st.get("threads") != 0:
                return ("threads", "two threads printing into their own buffers disturbed each other: %s of their texts came out wrong" % st.get("threads"))
            continue
        if "threads" in st:
            return ("malformed", "unexpected driver output: " + impl[:100])
        want, req = spec_step(s, op)
        if want is HUGE and req <= INT_MAX:
            # would need > 128 MiB: the generator only issues these above INT_MAX - 8, where
            # the growth policy refuses; anything but an unchanged failure is wrong
            if st["ret"] >= 0 or st["data"] != s:
                return ("huge-accepted", "request of %d bytes accepted at %s" % (req, op))
            continue
        if req > INT_MAX or want is None:
            if st["ret"] >= 0 or st["data"] != s:
                return ("oversize-accepted", "request with resulting size %d not refused/unchanged at op %s" % (req, op))
            if st["err"] != "EFBIG" and want is not None:
                return ("oversize-errno", "oversize request refused with %s at %s" % (st["err"], op))
            continue
        if st["ret"] < 0:
            if st["data"] != s:
                return ("failed-op-changed", "failed op %s changed the contents" % op)
            continue
        if op[0] in "AFGNX" and st["ret"] != req - 1 - len(s):
            return ("ret", "append returned %d at %s" % (st["ret"], op))
        if st["data"] != want or st["bpos"] != len(want):
            return ("contents", "contents differ from the byte-array model after %s: got %s want %s" % (op, st["data"].hex()[:80], want.hex()[:80]))
        if op[0] in "AFGNX" and (st["term"] != "1" or st["bpos"] >= st["size"]):
            return ("nul", "appended text not followed by NUL inside the allocation after %s" % op)
        if st["bpos"] > st["size"]:
            return ("bounds", "bpos beyond size after %s" % op)
        s = want
    return None


def classify(line, meta, mo, co):
    return None


def nontrivial(line, meta, impl):
    steps = impl.split(" | ")
    oks = [s for s in steps if not s.startswith("-1")]
    sizes = set(s.split(" ")[3] for s in steps if len(s.split(" ")) == 6)
    if oks and (len(sizes) > 1 or len(oks) < len(steps)):
        return line
    return None


def shrink(ck, line, cls):
    import fw
    head, limit, ops = line.split(" ", 2)
    ops = ops.split(";")

    def fails(sub):
        l = "%s %s %s" % (head, limit, ";".join(sub))
        m, c, _ = ck.run_pair([l], "shrink")
        v = oracle(l, {}, c.get(1, "MISSING"))
        return v is not None and v[0] == cls
    small = fw.ddmin(ops, fails, budget=60)
    return "%s %s %s" % (head, limit, ";".join(small))


def search(rng, broken_lines):
    return gen(rng, "quick")[:600]

LEVEL_TEXT = ("Machine-checked refinement: for every allocator behaviour and every operation history the print-buffer model keeps "
              "its invariant, equals the byte-list specification, writes only inside the allocation, NUL-terminates appends inside "
              "the allocation, never reaches an undefined int overflow, refuses oversize requests unchanged (Coq, induction over "
              "histories, no axioms).  The model is tied to printbuf.c on every run by differential execution of the extracted model "
              "and the ASan/UBSan build on generated histories aimed at the proof's case-split boundaries.")
LEVEL_NOTE = ("Trusted: Coq kernel; extraction + OCaml glue; harness; libc vsnprintf/vasprintf/realloc; the theorems are about the Gallina "
              "model, the C code is tied to it only by the checked correspondence (sampled histories, not all).")


# ---- source -> Gallina translator for the header constants this model uses (tr/lib_consts.py; LibImplCheck.v)
LIB_TRANSLATOR = {}


def coq_extra():
    import sys as _sys, os as _os
    import fw as _fw
    _sys.path.insert(0, _os.path.join(_fw.VERIF, "tr"))
    import lib_consts
    files, info = lib_consts.coq_extra_for(_fw)
    LIB_TRANSLATOR.update(info)
    return files


def extra_coverage():
    return dict(lib_translator=dict(LIB_TRANSLATOR))
