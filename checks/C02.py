"""C02 — serialization emits valid JSON denoting the tree; parse(serialize(T)) = T.

Script line:  ser <tree in jvtext> <flags>,<flags>,... [<op>;<op>;...]
The optional history (see harness/drv_ser.c: C K R<flags> D I U B T Z W Y G A X F<who><scope> P) is applied to the tree through
the public API before it is serialized ("every tree built through the API": deep copies, in-place
setters, parser-built trees, opaque userdata, serializer resets, replaced and deleted children; F: the option
formats of json_c_set_serialization_double_format, global or thread-local, set from the serializing thread or
from helper threads; P: custom serializers that build a known piece of text with the public print-buffer API); with a history the observation starts with
"R <text hex>" per R operation, "tree <typed dump>" and, after K, "aside <typed dump>".
Observation per flag value (" | " between them):
    <text hex> <reported length> <equal(orig,reparsed)> <typed dump of reparsed> <re-serialization hex>
  | <text hex> <reported length> PARSEFAIL <err>

Direct oracle (model-independent, json-c-independent): the strict RFC 8259 reader `rfc_parse`
below (hand-written from the RFC grammar) must accept the text json-c produced (after removing
the ANSI colour sequences when JSON_C_TO_STRING_COLOR is set, as the property allows) and
the value it reads must be exactly the tree: integers exact, doubles: the token read with a
correctly rounded decimal->binary64 conversion gives the same 64 bits, strings the same
bytes, members in insertion order.  The token sequence must not depend on the flags (up to
`\\/` vs `/`), the reported length must be the text length, json-c's own re-parse must be
equal to the original and re-serialize to the same text.

Treatment of raw bytes >= 0x80: json-c copies them verbatim; the reader accepts them inside
strings as themselves (byte-level reading of the `unescaped` production), and additionally
checks that when every string of the tree is well-formed UTF-8 the whole text is."""
import os, struct, sys
sys.path.insert(0, os.path.join(os.path.dirname(os.path.abspath(__file__)), "..", "lib"))
import jvtext

PROP = "C02"
DOMAIN = "ser"
LEVEL = "proof"
TECHNIQUE = ("Coq model of the serializer (SerModel.v) proved against an independent RFC 8259 syntax/denotation (SerSpec.v) by "
             "induction on the tree, flag independence for all 64 flag words, scalar round trip through the tokener model + extracted-model/C "
             "differential correspondence + hand-written strict RFC 8259 reader as direct oracle")
RULE = ("seeded trees (strings with control bytes, NUL, bytes >= 0x80, '/', quotes; int64/uint64 edges; doubles from lattices: powers of "
        "two and ten +- ulp, subnormals, 17-significant-digit cases, exponents ending in 0, integral doubles, random bit patterns; retained-text "
        "doubles; nesting up to 8; empty containers) x flag words (quick: 0 plus a rotating covering subset of the 64; thorough: all 64); "
        "plus a grid of byte sequences that escaping code special-cases (U+2028/9 and their byte neighbours, U+007F..U+00A0, BOM, U+FFFD..FFFF, "
        "surrogate-range neighbours, 4-byte and beyond-range forms, overlong/truncated forms, lone continuation bytes) alone/first/last/doubled/next to "
        "every JSON special, as string values and member names, under all 64 flag words; plus histories: trees reached through deep copies, re-parses, in-place setters (double/int64/uint64/boolean/string), child replacement "
        "and deletion, aimed at doubles that carry retained text and at every node type; "
        "non-trivial = the text contains an escape, a double, or a container and was accepted by the RFC reader; distinct by (tree, flags, history)")
TRUSTED = ["Coq 8.16.1 kernel (coqc; vm_compute for the witnesses), no axioms",
           "extraction (ExtrOcamlBasic only) + ocaml/drv_ser.ml glue, whose %.17g oracle is OCaml Printf (libc) and whose strtod oracle is float_of_string",
           "harness/drv_ser.c, jvtext.h, xalloc.c; gcc -fsanitize=address,undefined",
           "the RFC 8259 reader in checks/C02.py; Python float() as the correctly rounded decimal->binary64 reference"]
ASSUMPTIONS = ["libc snprintf(\"%.17g\") prints a decimal that a correctly rounded reader maps back to the same double, in the shape "
               "[-]d[.d+][e(+|-)dd+] without trailing fraction zeros (checked on every generated double against Python float())",
               "the C locale's decimal point (the comma fix-up is modelled; locale independence is C14)",
               "retained number texts (json_object_new_double_s) are RFC 8259 number tokens chosen by the caller; they are emitted verbatim",
               "trees contain no NaN/Infinity (not JSON); object keys are C strings (no NUL) and distinct"]
LEVEL_TEXT = ("Machine-checked (Coq, no axioms): for every tree and every flag word without COLOR the model's output is the rendering of a "
              "syntax tree of the RFC 8259 grammar (SerSpec.v) whose value is exactly the tree (any string bytes incl. NUL/control/non-UTF-8, any "
              "int64/uint64, any finite double under the stated %.17g shape/round-trip hypotheses), by induction on the tree; all 64 flag words "
              "(NOZERO and COLOR included) change only insignificant whitespace, colour sequences and the escape form of '/' (full strength since "
              "the NOZERO scan was repaired in json-c commit c53b19e; the old scan's defect, class nozero_eats_exponent, is kept as a theorem about "
              "the old scan and as a regression class of the direct oracle).  parse(serialize v) through the tokener model is proved for EVERY "
              "tree in the serializer's domain (C02_roundtrip: all int64/uint64, all byte strings, all finite doubles under the strtod hypothesis, "
              "arrays and objects of any size and nesting below the parser's depth limit D, default and strict mode, all 32 flag words without "
              "COLOR): the parser consumes the whole output, returns a tree json_object_equal to the original, and that tree serializes to the "
              "same text; the proof composes C02_ser_is_rfc8259 with the tokener theorem C01_parse_valid.  The model is tied to "
              "json_object.c on every run by differential execution.")
LEVEL_NOTE = ("%.17g / strtod are oracles with stated hypotheses (fmt17_ok, strtod_ok / rt_node_ok) validated at run time on every generated "
              "double, not Coq theorems; the tie to the C code is sampled.")

SPACED, PRETTY, NOZERO, PRETTY_TAB, NOSLASH, COLOR = 1, 2, 4, 8, 16, 32
NOZERO_CLASS = "nozero_eats_exponent"


# ---------------------------------------------------------------- strict RFC 8259 reader
class Reject(Exception):
    pass


WS = b" \t\n\r"
DIGITS = b"0123456789"


def rfc_parse(t):
    """t: bytes.  Returns (value, tokens).  value: None|True|False|('num',token)|bytes|list|('o',[(k,v)]).
    tokens: list of (kind, payload) with string tokens in raw form except that \\/ is
    written /.  Raises Reject on anything outside the RFC 8259 grammar."""
    n = len(t)
    toks = []

    def ws(i):
        while i < n and t[i] in WS:
            i += 1
        return i

    def hex4(i):
        if i + 4 > n:
            raise Reject("short \\u at %d" % i)
        v = 0
        for c in t[i:i + 4]:
            if 48 <= c <= 57:
                d = c - 48
            elif 97 <= c <= 102:
                d = c - 87
            elif 65 <= c <= 70:
                d = c - 55
            else:
                raise Reject("bad hex digit at %d" % i)
            v = v * 16 + d
        return v

    def string(i):
        # t[i] == '"'
        i += 1
        out = bytearray()
        raw = bytearray()
        while True:
            if i >= n:
                raise Reject("unterminated string")
            c = t[i]
            if c == 0x22:
                return bytes(out), bytes(raw), i + 1
            if c < 0x20:
                raise Reject("raw control byte %02x in string at %d" % (c, i))
            if c != 0x5c:
                out.append(c)
                raw.append(c)
                i += 1
                continue
            if i + 1 >= n:
                raise Reject("dangling backslash")
            e = t[i + 1]
            simple = {0x22: 0x22, 0x5c: 0x5c, 0x2f: 0x2f, 0x62: 8, 0x66: 12, 0x6e: 10, 0x72: 13, 0x74: 9}
            if e in simple:
                out.append(simple[e])
                if e == 0x2f:
                    raw.append(0x2f)
                else:
                    raw += t[i:i + 2]
                i += 2
                continue
            if e != 0x75:
                raise Reject("bad escape \\%c at %d" % (e, i))
            u = hex4(i + 2)
            raw += t[i:i + 6].lower()
            i += 6
            if 0xD800 <= u <= 0xDBFF:
                if t[i:i + 2] != b"\\u":
                    raise Reject("lone high surrogate")
                lo = hex4(i + 2)
                if not 0xDC00 <= lo <= 0xDFFF:
                    raise Reject("high surrogate not followed by a low one")
                raw += t[i:i + 6].lower()
                i += 6
                u = 0x10000 + ((u - 0xD800) << 10) + (lo - 0xDC00)
            elif 0xDC00 <= u <= 0xDFFF:
                raise Reject("lone low surrogate")
            out += chr(u).encode("utf-8")

    def number(i):
        j = i
        if j < n and t[j] == 0x2d:
            j += 1
        if j >= n or t[j] not in DIGITS:
            raise Reject("number: digit expected at %d" % j)
        if t[j] == 0x30:
            j += 1
        else:
            while j < n and t[j] in DIGITS:
                j += 1
        if j < n and t[j] == 0x2e:
            j += 1
            if j >= n or t[j] not in DIGITS:
                raise Reject("number: digit expected after '.'")
            while j < n and t[j] in DIGITS:
                j += 1
        if j < n and t[j] in b"eE":
            j += 1
            if j < n and t[j] in b"+-":
                j += 1
            if j >= n or t[j] not in DIGITS:
                raise Reject("number: digit expected in exponent")
            while j < n and t[j] in DIGITS:
                j += 1
        return t[i:j], j

    def value(i, depth):
        if depth > 200:
            raise Reject("too deep")
        if i >= n:
            raise Reject("value expected at end")
        c = t[i]
        if c == 0x7b:
            toks.append(("p", b"{"))
            i = ws(i + 1)
            ms = []
            if i < n and t[i] == 0x7d:
                toks.append(("p", b"}"))
                return ("o", ms), i + 1
            while True:
                if i >= n or t[i] != 0x22:
                    raise Reject("member name expected at %d" % i)
                k, raw, i = string(i)
                toks.append(("s", raw))
                i = ws(i)
                if i >= n or t[i] != 0x3a:
                    raise Reject("':' expected at %d" % i)
                toks.append(("p", b":"))
                i = ws(i + 1)
                v, i = value(i, depth + 1)
                ms.append((k, v))
                i = ws(i)
                if i < n and t[i] == 0x2c:
                    toks.append(("p", b","))
                    i = ws(i + 1)
                    continue
                if i < n and t[i] == 0x7d:
                    toks.append(("p", b"}"))
                    return ("o", ms), i + 1
                raise Reject("',' or '}' expected at %d" % i)
        if c == 0x5b:
            toks.append(("p", b"["))
            i = ws(i + 1)
            xs = []
            if i < n and t[i] == 0x5d:
                toks.append(("p", b"]"))
                return xs, i + 1
            while True:
                v, i = value(i, depth + 1)
                xs.append(v)
                i = ws(i)
                if i < n and t[i] == 0x2c:
                    toks.append(("p", b","))
                    i = ws(i + 1)
                    continue
                if i < n and t[i] == 0x5d:
                    toks.append(("p", b"]"))
                    return xs, i + 1
                raise Reject("',' or ']' expected at %d" % i)
        if c == 0x22:
            s, raw, i = string(i)
            toks.append(("s", raw))
            return s, i
        for lit, v in ((b"null", None), (b"true", True), (b"false", False)):
            if t[i:i + len(lit)] == lit:
                toks.append(("l", lit))
                return v, i + len(lit)
        if c == 0x2d or c in DIGITS:
            tok, i = number(i)
            toks.append(("n", tok))
            return ("num", tok), i
        raise Reject("unexpected byte %02x at %d" % (c, i))

    i = ws(0)
    v, i = value(i, 0)
    i = ws(i)
    if i != n:
        raise Reject("trailing bytes at %d" % i)
    return v, toks


def strip_color(t):
    """remove ESC [ ... m sequences; None when an ESC is not such a sequence"""
    out = bytearray()
    i, n = 0, len(t)
    while i < n:
        if t[i] == 0x1b:
            if t[i + 1:i + 2] != b"[":
                return None
            j = i + 2
            while j < n and (t[j] in DIGITS or t[j] == 0x3b):
                j += 1
            if j >= n or t[j] != 0x6d:
                return None
            i = j + 1
        else:
            out.append(t[i])
            i += 1
    return bytes(out)


def cstr(b):
    k = b.find(b"\0")
    return b if k < 0 else b[:k]


INT_TOKEN = __import__("re").compile(rb"-?(0|[1-9][0-9]*)\Z")


def denote_mismatch(v, tree, path="$"):
    """None when the RFC value v is exactly the tree, else a message"""
    if tree is None or tree is True or tree is False:
        return None if v is tree else "%s: got %r want %r" % (path, v, tree)
    if isinstance(tree, bytes):
        return None if (isinstance(v, bytes) and v == tree) else "%s: string %r != %r" % (path, v if isinstance(v, bytes) else type(v), tree)
    if isinstance(tree, list):
        if not isinstance(v, list) or len(v) != len(tree):
            return "%s: array shape" % path
        for i, (a, b) in enumerate(zip(v, tree)):
            m = denote_mismatch(a, b, "%s[%d]" % (path, i))
            if m:
                return m
        return None
    k = tree[0]
    if k == "o":
        if not (isinstance(v, tuple) and v[0] == "o") or len(v[1]) != len(tree[1]):
            return "%s: object shape" % path
        for (ka, a), (kb, b) in zip(v[1], tree[1]):
            if ka != cstr(kb):
                return "%s: member name %r != %r" % (path, ka, kb)
            m = denote_mismatch(a, b, "%s.%s" % (path, kb.hex()))
            if m:
                return m
        return None
    if not (isinstance(v, tuple) and v[0] == "num"):
        return "%s: number expected, got %r" % (path, v)
    tok = v[1]
    if k in ("i", "u"):
        if not INT_TOKEN.match(tok) or int(tok) != tree[1]:
            return "%s: integer token %r does not denote %d" % (path, tok, tree[1])
        return None
    if k == "d":
        if tree[2] is not None and tok != cstr(tree[2]):
            return "%s: retained text %r not emitted verbatim (%r)" % (path, tree[2], tok)
        got = jvtext.dbits(float(tok.decode("ascii")))
        if got != tree[1]:
            return "%s: double token %r reads as %016x, tree has %016x" % (path, tok, got, tree[1])
        return None
    return "%s: unknown tree node" % path


def tree_doubles(tree):
    if isinstance(tree, list):
        for x in tree:
            yield from tree_doubles(x)
    elif isinstance(tree, tuple):
        if tree[0] == "o":
            for _, x in tree[1]:
                yield from tree_doubles(x)
        elif tree[0] == "d":
            yield tree


def tree_strings(tree):
    if isinstance(tree, bytes):
        yield tree
    elif isinstance(tree, list):
        for x in tree:
            yield from tree_strings(x)
    elif isinstance(tree, tuple) and tree[0] == "o":
        for k, x in tree[1]:
            yield k
            yield from tree_strings(x)


def is_finite_tree(tree):
    return all(((d[1] >> 52) & 0x7ff) != 0x7ff for d in tree_doubles(tree))


def is_utf8(b):
    try:
        b.decode("utf-8")
        return True
    except UnicodeDecodeError:
        return False


def expected_reparse(tree, tok_of):
    """what json-c's own re-parse must look like in the typed dump: uint64 <= INT64_MAX come
    back as int64; doubles come back with the emitted token as retained text.  tok_of is an
    iterator over the number tokens of the text in order."""
    if tree is None or tree is True or tree is False or isinstance(tree, bytes):
        return tree
    if isinstance(tree, list):
        return [expected_reparse(x, tok_of) for x in tree]
    if tree[0] == "o":
        return ("o", [(cstr(k), expected_reparse(x, tok_of)) for k, x in tree[1]])
    tok = next(tok_of, b"?")          # a text with fewer number tokens than the tree has numbers: reported elsewhere
    if tree[0] == "i":
        return tree
    if tree[0] == "u":
        return ("i", tree[1]) if tree[1] <= jvtext.INT64_MAX else tree
    return ("d", tree[1], tok)


# ---------------------------------------------------------------- generator
def ulp_neighbours(x):
    b = jvtext.dbits(x)
    return [b - 1, b, b + 1]


def double_lattice():
    out = []
    for e in list(range(-1074, -1060)) + list(range(-1030, -1015)) + list(range(-70, 70)) + [100, 200, 300, 511, 512, 1000, 1022, 1023]:
        out += ulp_neighbours(2.0 ** e)
    for e in list(range(-323, -300, 3)) + list(range(-30, 40)) + [50, 100, 110, 200, 290, 300, 308]:
        out += ulp_neighbours(float("1e%d" % e))
    # fraction + exponent whose last digit is 0 (the NOZERO scan's victims) and neighbours that are not
    for m in (1.5, 2.5, 1.25, 9.75, 1.0000000000000002, 7.0):
        for e in (-300, -200, -110, -100, -30, -20, -10, -9, -5, 17, 19, 20, 21, 30, 40, 100, 101, 200, 300):
            out.append(jvtext.dbits(float("%re%d" % (m, e))))
    # 17 significant digits needed / shortest repr much shorter
    for x in (0.1, 0.2, 0.3, 0.1 + 0.2, 1 / 3.0, 2 / 3.0, 1e23, 9007199254740993.0, 123456789012345678.0, 5e-324, 2.2250738585072014e-308,
              2.2250738585072009e-308, 1.7976931348623157e308, 4.35, 0.000123, 0.0001, 0.00001, 1e15, 1e16, 1e17, 99999999999999990.0,
              1234567.0, 100.0, 1.0, 0.0, 3.0e10, 1e22, 4503599627370496.5, 0.30000000000000004, 144115188075855870.0):
        out.append(jvtext.dbits(x))
    res = []
    for b in out:
        for s in (0, 1 << 63):
            bb = (b & ((1 << 63) - 1)) | s
            if ((bb >> 52) & 0x7ff) != 0x7ff and 0 <= bb < (1 << 64):
                res.append(bb)
    return res


LATTICE = double_lattice()
STRING_EDGES = [b"", b"/", b"a/b", b"</script>", b"\"", b"\\", b"\\\"", b"\x00", b"a\x00b", b"\x00\x00", b"\x01\x02\x1e\x1f", b"\x1f", b" ",
                b"\x7f", b"\x80", b"\xff\xfe", b"\xc3\xa9", b"\xe2\x82\xac", b"\xf0\x9f\x98\x80", b"\xc3", b"\xed\xa0\x80", b"\b\f\n\r\t",
                bytes(range(0, 48)), bytes(range(0x20, 0x80)), bytes(range(0x80, 0x100)), b"\\u0041", b"\x1b[0m", b"\x1b[0;32mx", b"tab\there",
                b"nul\x00/slash\\back\"quote", b"e", b"1e+20", b"[1,2]", b"{\"a\":1}", b" \n "]


# byte sequences that escaping code somewhere special-cases (JavaScript-safe escaping, HTML-safe escaping, UTF-8
# validation, BOM stripping ...): every one must survive as it is, in a string value and in a member name
def _u(cp):
    return chr(cp).encode("utf-8", "surrogatepass")


SEQ_DICT = [_u(0x2028), _u(0x2029), _u(0x7f), _u(0x80), _u(0x85), _u(0xa0), _u(0xad), _u(0xff), _u(0x100), _u(0x7ff), _u(0x800),
            _u(0x200b), _u(0x200e), _u(0x2027), _u(0x202a), _u(0x202e), _u(0x2060), _u(0xfeff), _u(0xfffd), _u(0xfffe), _u(0xffff),
            _u(0xd7ff), _u(0xe000), _u(0xd800), _u(0xdbff), _u(0xdc00), _u(0xdfff),            # the surrogate range and its neighbours
            _u(0xd83d) + _u(0xde00),                                                           # CESU-8 pair
            _u(0x10000), _u(0x1f600), _u(0x10ffff), b"\xf4\x90\x80\x80", b"\xf8\x88\x80\x80\x80",   # 4 bytes, beyond U+10FFFF, 5-byte form
            b"\xc0\x80", b"\xc0\xaf", b"\xc1\xbf", b"\xe0\x80\xaf", b"\xe0\x9f\xbf", b"\xf0\x80\x80\xaf", b"\xf0\x8f\xbf\xbf",   # overlong
            b"\xc2", b"\xe2", b"\xe2\x80", b"\xf0\x9f", b"\xf0\x9f\x98", b"\xe2\x80\xe2\x80\xa9",   # truncated
            b"\x80", b"\xbf", b"\x80\x80", b"\xa8", b"\xa9", b"\x80\xa9", b"\xfe", b"\xff", b"\xfe\xff", b"\xff\xfe", b"\xef\xbb\xbf",   # lone continuation bytes, BOMs
            b"<", b">", b"&", b"'", b"</", b"<!--", b"]]>", b"\x7f", b"\x1b", b"%", b"%s", b"\\u2029", b"\\u0000", b"u2028"]
# e2 80 a8 / e2 80 a9 with each byte moved by one, and sweeps through the neighbouring sequences
SEQ_NEAR = sorted(set(bytes([a, b, c]) for base in (b"\xe2\x80\xa8", b"\xe2\x80\xa9")
                      for i in range(3) for d in (-1, 0, 1)
                      for (a, b, c) in [tuple(base[j] + (d if j == i else 0) for j in range(3))]))
SEQ_SWEEP = ([bytes([0xe2, 0x80, x]) for x in range(0x80, 0xc0)] + [bytes([0xe2, x, 0xa8 + (x & 1)]) for x in range(0x7e, 0xc2)] +
             [bytes([x, 0x80, 0xa9]) for x in range(0xdf, 0xf1)] + [bytes([0xe2, 0x80]) + bytes([x]) for x in (0x00, 0x20, 0x22, 0x5c, 0x2f, 0x7f, 0xc0, 0xff)])
NEIGHBOURS = [b"", b"a", b"/", b"\"", b"\\", b"\x01", b"\x1f", b" ", b"\n", b"\x7f", b"\xe2", b"\x80", b"\xa9", b"\xe2\x80", b"\xc3\xa9", b"\x00"]


def special_string(rng, nul=True):
    """a string composed of dictionary sequences, ASCII, the JSON specials and control bytes"""
    parts = []
    for _ in range(rng.choice([1, 1, 2, 3, 4, 6])):
        r = rng.random()
        if r < 0.5:
            parts.append(rng.choice(SEQ_DICT))
        elif r < 0.65:
            parts.append(rng.choice(SEQ_NEAR))
        elif r < 0.8:
            parts.append(rng.choice(NEIGHBOURS))
        else:
            parts.append(bytes(rng.choice(b"abcXYZ019 /\"\\\x08\x0c\t\x1e") for _ in range(rng.randint(1, 4))))
    out = b"".join(parts)
    return out if nul else out.replace(b"\x00", b"\x01")


def string_grid():
    """every dictionary sequence alone, first, last, in the middle, doubled and next to every neighbour;
    yields trees: an array of the strings and an object that has them as member names and as values"""
    strs = []
    for q in SEQ_DICT + SEQ_NEAR:
        strs += [q, q + q]
        for n in NEIGHBOURS[1:]:
            strs += [n + q, q + n, n + q + n]
        strs += [b"ab" + q + b"cd", q + b"/" + q, b"\"" + q + b"\\"]
    strs += SEQ_SWEEP
    seen, uniq = set(), []
    for x in strs:
        if x not in seen:
            seen.add(x)
            uniq.append(x)
    for i in range(0, len(uniq), 24):
        chunk = uniq[i:i + 24]
        keys, ks = [], set()
        for x in chunk:
            k = cstr(x) if b"\x00" in x else x         # a member name is a C string
            if k not in ks:
                ks.add(k)
                keys.append((k, x))
        yield [chunk, ("o", keys)]


def retained_texts(bits):
    x = jvtext.bits2d(bits)
    cands = [repr(x), "%.17g" % x, "%.20e" % x, ("%.17g" % x).upper(), "%.25g" % x]
    if x == int(x) and abs(x) < 1e15:
        cands += ["%d.000" % int(x), "%de0" % int(x), "%d.0E+0" % int(x)]
    out = []
    for c in cands:
        c = c.replace("E+", "E+").encode()
        if c.startswith(b"-0") and x == 0:
            pass
        try:
            rfc_parse(c)
        except Reject:
            continue
        if not any(ch in c for ch in b".eE"):
            continue                    # a bare integer text would re-parse as an int node: not a double's text
        if jvtext.dbits(float(c.decode())) == bits:
            out.append(c)
    return out


def fix_doubles(rng, tree, retained_p):
    """make every double finite; draw most from the lattice; some get a retained text"""
    if isinstance(tree, list):
        return [fix_doubles(rng, x, retained_p) for x in tree]
    if isinstance(tree, tuple):
        if tree[0] == "o":
            return ("o", [(k, fix_doubles(rng, x, retained_p)) for k, x in tree[1]])
        if tree[0] == "d":
            bits = tree[1]
            if ((bits >> 52) & 0x7ff) == 0x7ff or rng.random() < 0.6:
                bits = rng.choice(LATTICE)
            if rng.random() < retained_p:
                ts = retained_texts(bits)
                if ts:
                    return ("d", bits, rng.choice(ts))
            return ("d", bits, None)
    return tree


def fix_strings(rng, tree):
    if isinstance(tree, bytes):
        r = rng.random()
        return rng.choice(STRING_EDGES) if r < 0.25 else special_string(rng) if r < 0.5 else tree
    if isinstance(tree, list):
        return [fix_strings(rng, x) for x in tree]
    if isinstance(tree, tuple) and tree[0] == "o":
        ms, seen = [], set(k for k, _ in tree[1])
        for k, x in tree[1]:
            if rng.random() < 0.25:
                k2 = special_string(rng, nul=False)
                if k2 not in seen:
                    seen.discard(k)
                    seen.add(k2)
                    k = k2
            ms.append((k, fix_strings(rng, x)))
        return ("o", ms)
    return tree


def nest(rng, depth):
    """a deep narrow tree (nesting is what the indentation depends on)"""
    v = rng.choice([None, ("i", 1), b"x", [], ("o", [])])
    for d in range(depth):
        if rng.random() < 0.5:
            v = [v] if rng.random() < 0.6 else [("i", d), v, None]
        else:
            v = ("o", [(b"k%d" % d, v)]) if rng.random() < 0.6 else ("o", [(b"a", True), (b"k", v)])
    return v


# ---------------------------------------------------------------- histories (independent of the Coq model)
def parse_path(t):
    """'@' or 'i.j.k' at the start of t -> (path, rest)"""
    if t.startswith("@"):
        return [], t[1:]
    j = 0
    while j < len(t) and (t[j].isdigit() or t[j] == "."):
        j += 1
    return [int(x) for x in t[:j].split(".")], t[j:]


def children(t):
    if isinstance(t, list):
        return t
    if isinstance(t, tuple) and t[0] == "o":
        return [v for _, v in t[1]]
    return None


def with_child(t, i, f):
    """t with child i replaced by f(child) (f returns DELETE to remove it); None when there is no such child"""
    ch = children(t)
    if ch is None or not 0 <= i < len(ch):
        return None
    new = f(ch[i])
    if isinstance(t, list):
        return t[:i] + ([] if new is DELETE else [new]) + t[i + 1:]
    ms = t[1]
    return ("o", ms[:i] + ([] if new is DELETE else [(ms[i][0], new)]) + ms[i + 1:])


DELETE = object()


def upd(t, path, f):
    """apply f at the node addressed by path; a path that leaves the tree addresses nothing"""
    if not path:
        return f(t)
    r = with_child(t, path[0], lambda c: upd(c, path[1:], f))
    return t if r is None else r


def is_bool(t):
    return t is True or t is False


def hist_step(t, aside, op, rtext):
    """the tree (and the tree kept aside) after one API call; rtext: the text json-c printed for an R op.
    Returns (tree, aside, message|None)"""
    k, body = op[0], op[1:]
    if k == "C":
        return t, aside, None
    if k == "K":
        return t, ("some", t), None
    if k == "R":
        f = int(body)
        txt = strip_color(rtext) if f & COLOR else rtext
        if txt is None:
            return t, aside, "R: ESC that is not a colour sequence"
        try:
            val, toks = rfc_parse(txt)
        except Reject as e:
            return t, aside, "R flags %d: text is not RFC 8259: %s" % (f, e)
        m = denote_mismatch(val, t)
        if m:
            return t, aside, "R flags %d: %s" % (f, m)
        return expected_reparse(t, iter([x for kk, x in toks if kk == "n"])), aside, None
    path, rest = parse_path(body)
    if k == "F":
        return t, aside, None               # an option format is not part of the tree
    if k == "P":
        # a custom serializer is not part of the node's value; set_serializer replaces the userdata, so a
        # double loses its retained text
        ppath, _ = parse_path(body)
        return upd(t, ppath, lambda n: ("d", n[1], None) if isinstance(n, tuple) and n[0] == "d" else n), aside, None
    if k in "ZYG":
        # serializer reset (with or without new opaque userdata): a double loses its retained text
        return upd(t, path, lambda n: ("d", n[1], None) if isinstance(n, tuple) and n[0] == "d" else n), aside, None
    if k == "W":
        return t, aside, None               # opaque userdata is not part of the value
    if k in "DIUBT":
        arg = rest[1:]
        if k == "D":
            return upd(t, path, lambda n: ("d", int(arg, 16), None) if isinstance(n, tuple) and n[0] == "d" else n), aside, None
        if k == "I":
            return upd(t, path, lambda n: ("i", int(arg)) if isinstance(n, tuple) and n[0] in "iu" else n), aside, None
        if k == "U":
            return upd(t, path, lambda n: ("u", int(arg)) if isinstance(n, tuple) and n[0] in "iu" else n), aside, None
        if k == "B":
            return upd(t, path, lambda n: (arg == "1") if is_bool(n) else n), aside, None
        return upd(t, path, lambda n: (b"" if arg == "-" else bytes.fromhex(arg)) if isinstance(n, bytes) else n), aside, None
    if not path:
        return t, aside, None
    parent, i = path[:-1], path[-1]
    if k == "A":
        c = jvtext.parse(rest[1:])[0]
        return upd(t, parent, lambda n: (with_child(n, i, lambda _: c) or n) if children(n) is not None else n), aside, None
    if k == "X":
        def dele(n):
            r = with_child(n, i, lambda _: DELETE)
            return n if r is None else r
        return upd(t, parent, dele), aside, None
    return t, aside, "unknown op " + op


def nodes(t, path=()):
    yield list(path), t
    ch = children(t)
    if ch:
        for i, c in enumerate(ch):
            yield from nodes(c, path + (i,))


def pstr(path):
    return ".".join(str(i) for i in path) if path else "@"


# option formats (independent of the Coq model): what json_object.h documents
FMTS = [None, b"%.17g", b"%.0f", b"%.3f", b"%f", b"%.1f x", b"%.0f items", b"%e"]


class FmtState:
    """GLOBAL: process-wide, and the caller's thread format is dropped; THREAD: the calling thread only;
    a thread uses its own format, else the global one, else %.17g"""
    def __init__(self):
        self.g = None
        self.t = {}
        self.n = 0

    def call(self, op):
        who, sc, arg = op[1], op[2], op[4:]
        fmt = None if arg == "~" else cstr(b"" if arg == "-" else bytes.fromhex(arg))
        if who == "h":
            self.n += 1
            tid = "h%d" % self.n
        else:
            tid = who
        if sc == "g":
            self.g = fmt
            self.t.pop(tid, None)
            return 0
        if sc == "t":
            if fmt is None:
                self.t.pop(tid, None)
            else:
                self.t[tid] = fmt
            return 0
        return -1

    def main_format(self):
        f = self.t.get("m", self.g)
        return None if f == b"%.17g" else f


def fop(who, scope, fmt):
    return "F%s%s=%s" % (who, scope, "~" if fmt is None else jvtext.hx(fmt))


def gen_format_ops(rng, keep_default):
    """1..5 calls; keep_default: only calls that must leave the serializing thread on the built-in format"""
    ops = []
    st = FmtState()
    for _ in range(rng.choice([1, 1, 2, 3, 5])):
        if keep_default:
            op = fop(rng.choice("hp"), "t", rng.choice(FMTS))
        else:
            op = fop(rng.choice("mmhp"), rng.choice("ggttx"), rng.choice(FMTS))
        ops.append(op)
        st.call(op)
    if not keep_default and st.main_format() is not None and rng.random() < 0.5:
        # back to the built-in format by the documented means
        for op in rng.choice([[fop("m", "t", None), fop(rng.choice("mh"), "g", None)], [fop("m", "g", None)], [fop("m", "t", b"%.17g")]]):
            ops.append(op)
            st.call(op)
    return ops, st


def whole_tree(rng):
    ws = [12.0, -3.0, 0.0, -0.0, 1.0, 100.0, 1e15, 1e16, 2.0**53, -2.0**63, 1e22, 123456789.0]
    ds = [("d", jvtext.dbits(rng.choice(ws)), None) for _ in range(rng.randint(1, 4))]
    extra = [("d", jvtext.dbits(rng.choice([1.5, 0.1, 2.5e-10, 1.5e20])), None), ("i", 12), ("d", jvtext.dbits(7.0), b"7.0"), b"12", None]
    xs = ds + rng.sample(extra, rng.randint(0, 3))
    rng.shuffle(xs)
    shape = rng.randrange(3)
    if shape == 0:
        return xs
    if shape == 1:
        return ("o", [(b"k%d" % i, x) for i, x in enumerate(xs)])
    return [xs[0], ("o", [(b"w", xs[1:])])]


# custom serializers: the piece a P operation prints and the JSON value that piece denotes
def piece_value(mode, n, tag):
    if mode in "qmc":
        return tag
    if mode == "d":
        return ("i", int("1" + "%0*d" % (n, 7)))
    if mode == "s":
        return True
    raise ValueError(mode)


def piece_len(mode, n, tag):
    return len(tag) + 2 if mode in "qmc" else (1 + max(n, 1) if mode == "d" else n + 4)


def pop(path, mode, n, tag):
    return "P%s=%s,%d,%s" % (pstr(path), mode, n, jvtext.hx(tag))


TAGCH = b"abcXYZ019 _-.:%"
EDGE_LENS = [0, 1, 2, 63, 100, 124, 125, 126, 127, 128, 129, 130, 200, 253, 254, 255, 256, 257, 300]


def rtag(rng, n):
    return bytes(rng.choice(TAGCH) for _ in range(n))


TAGS = [b"row 7 of 12", b"%.3f", b"n/a", b"", b"1e5", b"%.0f", b"%d items", b"\x01\xff", b"\"x\"", b"%5.1f%%", None]


def tag_arg(rng):
    t = rng.choice(TAGS)
    return "~" if t is None else jvtext.hx(t)


def gen_history(rng, tree, nops):
    """a history of nops API calls aimed at the nodes the tree has at that point (R is not simulated
    here: after an R the generator keeps aiming with the pre-R shape, which R preserves).  Once opaque
    userdata is attached no deep copy is taken until a re-parse made a fresh tree:
    json_c_shallow_copy_default refuses userdata it does not know (documented)."""
    ops = []
    t = tree
    tagged = False
    for _ in range(nops):
        ns = list(nodes(t))
        r = rng.random()
        if r < 0.22 and not tagged:
            ops.append(rng.choice(["C", "C", "K"]))
            continue
        if r < 0.30:
            ops.append("R%d" % rng.choice([0, 0, 1, 2, 3, 4, 10, 16, 32, 63, rng.randrange(64)]))
            tagged = False
            continue
        path, n = rng.choice(ns)
        if r < 0.48 and n is not None:
            # userdata / serializer operations, on every node type, biased to doubles
            ds = [x for x in ns if isinstance(x[1], tuple) and x[1][0] == "d"]
            if ds and rng.random() < 0.6:
                path, n = rng.choice(ds)
            k = rng.choice("ZZWWYG")
            if k == "Y":
                arg = jvtext.hx(rng.choice([b"1.5", b"x", b"", b"%s"]))
            elif k == "G":
                arg = jvtext.hx(rng.choice([b"%.3f", b"%.0f", b"%f", b"%e"]))
            else:
                arg = tag_arg(rng)
                tagged = tagged or arg != "~"
            op = "%s%s=%s" % (k, pstr(path), arg)
            ops.append(op)
            t, _, _ = hist_step(t, None, op, None)
            continue
        mism = rng.random() < 0.12            # a setter of another type: must leave the node alone
        kind = ("d" if isinstance(n, tuple) and n[0] == "d" else "i" if isinstance(n, tuple) and n[0] in "iu" else
                "b" if is_bool(n) else "s" if isinstance(n, bytes) else "c" if children(n) is not None else "n")
        if mism or kind in "cn":
            pick = rng.choice("diubs")
        else:
            pick = kind if kind != "i" else rng.choice("iu")
        if kind == "c" and rng.random() < 0.6 and children(n):
            i = rng.randrange(len(children(n)))
            if rng.random() < 0.7:
                c = fix_strings(rng, fix_doubles(rng, jvtext.gen_tree(rng, depth=rng.choice([0, 0, 1, 2]), size=3), 0.3))
                op = "A%s:%s" % (pstr(path + [i]), jvtext.dump(c))
            else:
                op = "X%s" % pstr(path + [i])
        elif pick == "d":
            nb = rng.choice(LATTICE)
            if kind == "d" and rng.random() < 0.35:      # relative to the current value: same bits, other sign, neighbour
                nb = rng.choice([n[1], n[1] ^ (1 << 63), n[1] + 1])
                if ((nb >> 52) & 0x7ff) == 0x7ff:
                    nb = n[1]
            op = "D%s=%016x" % (pstr(path), nb)
        elif pick == "i":
            op = "I%s=%d" % (pstr(path), rng.choice(jvtext.INT_EDGES))
        elif pick == "u":
            op = "U%s=%d" % (pstr(path), rng.choice(jvtext.UINT_EDGES))
        elif pick == "b":
            op = "B%s=%d" % (pstr(path), rng.randrange(2))
        else:
            op = "T%s=%s" % (pstr(path), jvtext.hx(rng.choice(STRING_EDGES) if rng.random() < 0.5 else special_string(rng)))
        ops.append(op)
        if op[0] != "R":
            t, _, _ = hist_step(t, None, op, None)
    return ops


def retained_tree(rng):
    """a tree rich in doubles that carry a retained text"""
    def dbl():
        for _ in range(20):
            b = rng.choice(LATTICE)
            ts = retained_texts(b)
            if ts:
                return ("d", b, rng.choice(ts))
        return ("d", jvtext.dbits(1.5), b"1.50")
    shape = rng.randrange(4)
    if shape == 0:
        return dbl()
    if shape == 1:
        return [dbl() for _ in range(rng.randint(1, 4))]
    if shape == 2:
        return ("o", [(b"k%d" % i, dbl()) for i in range(rng.randint(1, 3))])
    return ("o", [(b"a", [dbl(), ("i", 7), dbl()]), (b"b", ("o", [(b"x", dbl())])), (b"c", b"s")])


def double_paths(t):
    return [p for p, n in nodes(t) if isinstance(n, tuple) and n[0] == "d"]


ALL_FLAGS = list(range(64))


def flag_subset(rng, idx):
    """quick tier: PLAIN, the full word, NOZERO alone, one word from a rotation through all 64, and
    four random ones — every word is hit every 64 trees"""
    s = [0, 63, NOZERO, idx % 64, (idx * 7 + 13) % 64]
    while len(s) < 9:
        f = rng.randrange(64)
        if f not in s:
            s.append(f)
    seen, out = set(), []
    for f in s:
        if f not in seen:
            seen.add(f)
            out.append(f)
    return out


def mk(tree, flags, kind, ops=None):
    line = "ser %s %s" % (jvtext.dump(tree), ",".join(str(f) for f in flags))
    if ops:
        line += " " + ";".join(ops)
    return (line, {"kind": kind, "tree": tree, "flags": flags})


def gen(rng, tier):
    quick = tier == "quick"
    out = []
    idx = 0

    def add(tree, kind, flags=None):
        nonlocal idx
        fl = flags if flags is not None else (flag_subset(rng, idx) if quick else ALL_FLAGS)
        out.append(mk(tree, fl, kind))
        idx += 1

    # deterministic witnesses and edges, all 64 words
    add(("d", jvtext.dbits(1.5e20), None), "fixed", [0, NOZERO])
    add(("d", jvtext.dbits(1.5e20), None), "fixed", ALL_FLAGS)
    add(("d", jvtext.dbits(2.5e-10), None), "fixed", ALL_FLAGS)
    add([None, True, False, ("i", 0), ("i", jvtext.INT64_MIN), ("i", jvtext.INT64_MAX), ("u", jvtext.UINT64_MAX), ("u", 0),
         ("d", jvtext.dbits(1.0), None), ("d", jvtext.dbits(-0.0), None), ("d", jvtext.dbits(0.1), None), ("d", jvtext.dbits(1e17), None),
         b"", b"/\x00\x1f\"\\\x80\xff", [], ("o", []), ("o", [(b"", None), (b"a/b\x01", [[]]), (b"k", ("o", [(b"x", b"y")]))])], "fixed", ALL_FLAGS)
    for t in (None, True, b"a", [], ("o", []), [None], ("o", [(b"a", None)]), [[], ("o", [])], ("d", jvtext.dbits(1.5), b"1.50"),
              ("d", jvtext.dbits(100.0), b"1E2")):
        add(t, "fixed", ALL_FLAGS)
    for c in range(256):            # every byte value as string content and (non-NUL) as key
        if c % 8 == 0:
            chunk = bytes(range(c, c + 8))
            add([chunk, ("o", [(bytes(x for x in chunk if x), chunk)])], "bytes")
    # scalar lattices
    ints = [("i", x) for x in jvtext.INT_EDGES + [10**k for k in range(19)] + [-(10**k) for k in range(19)] + [10**k - 1 for k in range(1, 19)]] + \
           [("u", x) for x in jvtext.UINT_EDGES + [10**19, 10**19 - 1, 10**19 + 1]]
    for i in range(0, len(ints), 12):
        add(ints[i:i + 12], "ints")
    lat = LATTICE if not quick else rng.sample(LATTICE, min(len(LATTICE), 1800))
    for i in range(0, len(lat), 15):
        add([("d", b, None) for b in lat[i:i + 15]], "doubles")
    for i in range(120 if quick else 600):
        ds = []
        for _ in range(12):
            b = rng.getrandbits(64)
            if (b >> 52) & 0x7ff == 0x7ff:
                b &= ~(1 << 62)
            ds.append(("d", b, None))
        add(ds, "doubles-random")
    for i in range(80 if quick else 300):
        ds = []
        for _ in range(8):
            b = rng.choice(LATTICE)
            ts = retained_texts(b)
            ds.append(("d", b, rng.choice(ts) if ts else None))
        add(ds, "retained")
    for s in STRING_EDGES:
        add(s, "strings")
    # every byte sequence in a string survives: the dictionary grid, values and member names
    for t in string_grid():
        add(t, "string-grid")          # quick: 0, 63, NOZERO and a rotation through all 64 words; thorough: all 64
    for i in range(150 if quick else 2000):
        vals = [special_string(rng) for _ in range(rng.randint(1, 6))]
        keys, ks = [], set()
        for _ in range(rng.randint(0, 4)):
            k = special_string(rng, nul=False)
            if k not in ks:
                ks.add(k)
                keys.append((k, special_string(rng)))
        add(rng.choice([vals, ("o", keys), [("o", keys)] + vals, vals[0]]), "string-special")
    # general trees
    n = 1200 if quick else 5000
    for i in range(n):
        t = jvtext.gen_tree(rng, depth=rng.choice([1, 2, 3, 3, 4, 5]), size=rng.choice([2, 3, 5, 8]))
        t = fix_strings(rng, fix_doubles(rng, t, 0.15))
        add(t, "tree")
    for i in range(60 if quick else 300):
        add(nest(rng, rng.choice([1, 2, 5, 8, 12, 20, 30])), "nesting")
    # histories: the tree is reached through API calls before it is serialized
    def addh(tree, ops, kind="history", flags=None):
        fl = flags if flags is not None else ([0] + rng.sample(range(1, 64), 3) if quick else [0] + rng.sample(range(1, 64), 15))
        out.append(mk(tree, fl, kind, ops))
    # (a) every way a double gets a retained text x every way the node is then reached x set_double on it
    d15 = ("d", jvtext.dbits(1.5), b"1.50")
    parsed = ("o", [(b"a", [("d", jvtext.dbits(1.1), None), ("d", jvtext.dbits(2.5), None)]), (b"b", ("i", 7))])
    newbits = "%016x" % jvtext.dbits(-0.375)
    for pre in ([], ["C"], ["K"], ["C", "C"], ["K", "C"], ["R0"], ["R0", "C"], ["R1", "K"], ["C", "R2", "C"]):
        addh(d15, pre + ["D@=" + newbits], "history-fixed", [0, 1, 2, 4, 16, 63])
        addh(parsed, ["R0"] + pre + ["D0.1=" + newbits], "history-fixed", [0, 1, 2, 4, 16, 63])
        addh([d15, ("i", 1)], pre + ["D0=" + newbits, "I1=-5"], "history-fixed", [0, 3, 63])
    # (a') opaque userdata and serializer resets: every way a double's serializer gets reset x userdata afterwards,
    #      and userdata on every node type
    plain = ("d", jvtext.dbits(0.1), None)
    every = [None, True, ("i", -3), ("u", 2**63), ("d", jvtext.dbits(2.25), None), d15, b"s/", [("i", 1)], ("o", [(b"k", ("d", jvtext.dbits(1e-3), None))])]
    for tag in TAGS:
        a = "~" if tag is None else jvtext.hx(tag)
        addh(d15, ["D@=" + newbits, "W@=" + a], "history-fixed", [0, 4, 63])          # set_double reset the serializer
        addh(d15, ["C", "D@=" + newbits, "W@=" + a], "history-fixed", [0, 1])
        addh(parsed, ["R0", "D0.0=" + newbits, "W0.0=" + a, "Z0.1=" + a], "history-fixed", [0, 1, 2, 63])
        addh(d15, ["Z@=" + a], "history-fixed", [0, 4])                                  # explicit reset with userdata
        addh(d15, ["Z@=~", "W@=" + a], "history-fixed", [0, 16])                        # explicit reset, userdata later
        addh(plain, ["W@=" + a], "history-fixed", [0, 4, 63])                            # never had a custom serializer
        addh(plain, ["G@=" + jvtext.hx(b"%.3f"), "W@=" + a], "history-fixed", [0, 2])    # custom format, reset, userdata
        addh(d15, ["Y@=" + jvtext.hx(b"9.75"), "W@=" + a], "history-fixed", [0, 2])
        addh(every, ["%s%d=%s" % (rng.choice("ZW"), i, a) for i in range(len(every))] + ["W8.0=" + a], "history-fixed", [0, 3, 36])
    # (a'') set_double with a value chosen RELATIVE to the current one: the same bits, the zero of the other sign (the only
    #       distinct finite pair that compares equal), the neighbours, the sign flipped — on doubles without retained text,
    #       with one from json_object_new_double_s (several spellings of the same value) and from the parser; all 64 words
    def rel_values(b):
        out = [b, b ^ (1 << 63), b + 1, (b - 1) if b & ((1 << 63) - 1) else b + 2]
        return [x for x in out if ((x >> 52) & 0x7ff) != 0x7ff]
    spellings = {0.0: [None, b"0.0", b"0.00", b"0e0", b"0.0E+5", b"0.000000000000000000"], -0.0: [None, b"-0.0", b"-0.00", b"-0e0", b"-0.0e-3"],
                 1.0: [None, b"1.0", b"1.00", b"1e0", b"10e-1", b"0.1E1"], 1.5: [None, b"1.5", b"1.50", b"15e-1"], -2.5e-10: [None, b"-2.5e-10", b"-0.25E-9"],
                 1e22: [None, b"1e22", b"1.0E+22", b"10000000000000000000000.0"]}
    for x, texts in spellings.items():
        b0 = jvtext.dbits(x)
        for tx in texts:
            node = ("d", b0, tx)
            for nb in rel_values(b0):
                for pre in [[], ["C"]] + ([["R0"], ["R4", "C"]] if tx is None else [["K"]]):
                    addh(node, pre + ["D@=%016x" % nb],
                         "setdouble-relative", ALL_FLAGS if (x == 0.0 and nb == b0 ^ (1 << 63) and pre in ([], ["R0"])) else None)
    for i in range(60 if quick else 600):
        t = retained_tree(rng) if rng.random() < 0.6 else [("d", rng.choice(LATTICE), None) for _ in range(3)]
        pre = rng.choice([[], ["C"], ["R%d" % rng.randrange(64)], ["K"]])
        tt = t
        ops_ = list(pre)
        for _ in range(rng.randint(1, 3)):
            pth = rng.choice(double_paths(tt))
            cur = [n for q_, n in nodes(tt) if q_ == pth][0]
            op = "D%s=%016x" % (pstr(pth), rng.choice(rel_values(cur[1])))
            ops_.append(op)
            tt, _, _ = hist_step(tt, None, op, None)
        addh(t, ops_, "setdouble-relative")
    for i in range(150 if quick else 1500):
        t = retained_tree(rng)
        if i % 3 == 0:
            ps = double_paths(t)
            pth = pstr(rng.choice(ps))
            how = rng.choice([["D%s=%016x" % (pth, rng.choice(LATTICE))], ["Z%s=~" % pth], ["C", "D%s=%016x" % (pth, rng.choice(LATTICE))],
                              ["R%d" % rng.randrange(64), "D%s=%016x" % (pth, rng.choice(LATTICE))], ["Y%s=%s" % (pth, jvtext.hx(b"7"))], []])
            tagop = ["%s%s=%s" % ("W" if how else "Z", pth, tag_arg(rng))]
            addh(t, how + tagop + rng.choice([[], ["R0"], ["D%s=%016x" % (pth, rng.choice(LATTICE))]]), "history-userdata")
            continue
        pre = rng.choice([["C"], ["K"], ["C"], ["K"], [], ["C", "C"], ["R%d" % rng.randrange(64), "C"], ["C", "K"]])
        ps = double_paths(t)
        sets = ["D%s=%016x" % (pstr(rng.choice(ps)), rng.choice(LATTICE)) for _ in range(rng.randint(1, 2))]
        post = rng.choice([[], [], ["C"], ["K"]])
        addh(t, pre + sets + post, "history-retained")
    # (b) random histories over general trees
    for i in range(350 if quick else 4000):
        t = jvtext.gen_tree(rng, depth=rng.choice([0, 1, 2, 3]), size=rng.choice([2, 3, 5]))
        t = fix_strings(rng, fix_doubles(rng, t, 0.35))
        addh(t, gen_history(rng, t, rng.choice([1, 2, 3, 4, 6, 9])))
    # (d) custom serializers that emit through the public print-buffer API: piece lengths around the 128-byte
    #     stack buffer of sprintbuf and the growth steps of the buffer, on nodes of every type, nested
    host = [True, ("i", 5), ("u", 2**63), ("d", jvtext.dbits(1.5), None), d15, b"s", [("i", 1), None], ("o", [(b"k", None), (b"m", [b"x"])])]
    targets = [[0], [1], [2], [3], [4], [5], [6], [7], [6, 0], [7, 1], [7, 1, 0], []]
    gi = 0
    for mode in "qmdsc":
        for L in EDGE_LENS:
            if mode in "qm":
                specs = [(mode, 0, rtag(rng, L))]
            elif mode == "d":
                specs = [(mode, max(L, 1), b"")]
            elif mode == "s":
                specs = [(mode, L, b"")]
            else:
                specs = [(mode, max(L, 1), rtag(rng, n2)) for n2 in (L, 2 * L + 1, 300)]
            for (m_, n_, tg) in specs:
                tp = targets[gi % len(targets)]
                gi += 1
                addh(host, [pop(tp, m_, n_, tg)], "custom-fixed", [0, 1 + gi % 63, 63 - gi % 7])
    for i in range(100 if quick else 1500):
        t = fix_strings(rng, fix_doubles(rng, jvtext.gen_tree(rng, depth=rng.choice([1, 2, 3]), size=rng.choice([2, 3, 5])), 0.2))
        pre = gen_history(rng, t, rng.choice([0, 0, 1, 2]))
        pre = [o for o in pre if o[0] not in "RK"]
        tt = t
        for o in pre:
            tt, _, _ = hist_step(tt, None, o, None)
        ns = [pth for pth, n in nodes(tt) if n is not None]
        if not ns:                       # the tree is the NULL pointer: nothing can carry a serializer
            continue
        ps_ = []
        for _ in range(rng.randint(1, 3)):
            m_ = rng.choice("qqmdsc")
            L = rng.choice(EDGE_LENS) if rng.random() < 0.5 else rng.randint(0, 300)
            n_ = max(L, 1) if m_ in "dc" else L
            ps_.append(pop(rng.choice(ns), m_, n_, rtag(rng, L if m_ != "c" else rng.randint(0, 600)) if m_ in "qmc" else b""))
        addh(t, pre + ps_, "custom")
    # (c) option formats, global / thread-local, set here or in helper threads; the main thread serializes
    w12 = [("d", jvtext.dbits(12.0), None), ("d", jvtext.dbits(1.5), None), ("d", jvtext.dbits(-3.0), None), ("i", 12)]
    for f in FMTS:
        for who in "hp":
            addh(w12, [fop(who, "t", f)], "format-fixed", [0, 4, 63])                         # another thread, for itself
            addh(w12, [fop(who, "t", f), fop("h", "t", b"%.17g")], "format-fixed", [0, 1])
            addh(w12, [fop(who, "g", f)], "format-fixed", [0, 2])                             # another thread, for everybody
            addh(w12, [fop("m", "t", b"%.17g"), fop(who, "g", f)], "format-fixed", [0, 16])   # ... but this thread has its own
        addh(w12, [fop("m", "t", f)], "format-fixed", [0, 4])
        addh(w12, [fop("m", "g", f), fop("m", "g", None)], "format-fixed", [0, 1])
        addh(w12, [fop("m", "t", f), fop("m", "g", None)], "format-fixed", [0, 1])            # GLOBAL drops the caller's own
        addh(w12, [fop("m", "x", f)], "format-fixed", [0])
    for i in range(120 if quick else 1200):
        keep = rng.random() < 0.6
        ops, st = gen_format_ops(rng, keep)
        t = whole_tree(rng)
        if st.main_format() is None and rng.random() < 0.4:
            # and a tree operation under the built-in format
            ps = double_paths(t)
            if ps:
                ops = ops + [rng.choice(["C", "D%s=%016x" % (pstr(rng.choice(ps)), jvtext.dbits(rng.choice([5.0, -0.0, 1e15, 2.5]))), "R0"])]
        addh(t, ops, "format")
    # a few non-finite doubles: not JSON, correspondence and length/re-serialization only
    for b in (0x7ff0000000000000, 0xfff0000000000000, 0x7ff8000000000000):
        add([("d", b, None), ("i", 1)], "nonfinite", [0, 1, 2, 4, 63])
    return out


# ---------------------------------------------------------------- oracle
def parse_obs(o):
    steps = []
    for s in o.split(" | "):
        t = s.split(" ")
        if s.startswith("LEAK"):
            steps.append(("leak", s))
        elif len(t) == 5:
            steps.append(("ok", b"" if t[0] == "-" else bytes.fromhex(t[0]), int(t[1]), t[2], t[3], b"" if t[4] == "-" else bytes.fromhex(t[4])))
        elif len(t) >= 4 and t[2] == "PARSEFAIL":
            steps.append(("parsefail", b"" if t[0] == "-" else bytes.fromhex(t[0]), int(t[1]), t[3]))
        else:
            steps.append(("bad", s))
    return steps


def nozero_victim(tok_plain, tok_nz):
    """the NOZERO scan ran through the exponent: fraction and exponent present and the
    flagged token is the unflagged one with trailing exponent digits removed"""
    return (b"." in tok_plain and b"e" in tok_plain and tok_nz != tok_plain and tok_plain.startswith(tok_nz)
            and len(tok_nz) > tok_plain.index(b"e") + 1 and tok_plain[len(tok_nz):].strip(b"0") == b"")


def check_fmt17_shape(tok):
    """the hypothesis on the oracle: [-]d+[.d+][e(+|-)dd+], no trailing zero in the fraction (or exactly '.0' appended)"""
    import re
    return re.match(rb"-?[0-9]+(\.[0-9]*[1-9]|\.0)?(e[+-][0-9][0-9]+)?\Z", tok) is not None


def oracle_(line, meta, impl):
    if "CRASH" in impl:
        return ("crash", "implementation crashed: " + impl[:120])
    if impl in ("MISSING", "BADLINE", "BADTREE"):
        return ("malformed", "driver said " + impl)
    try:
        fields = line.split(" ")
        tree_s, flags_s = fields[1], fields[2]
        ops = fields[3].split(";") if len(fields) > 3 else []
        tree = jvtext.parse(tree_s)[0]
        flags = [int(x) for x in flags_s.split(",")]
    except Exception as e:                                  # replay files etc.
        return ("malformed", "bad script line: %r" % e)
    if " | LEAK " in impl:
        return ("leak", "allocation leaked: " + impl[-40:])
    hist_found = None
    custom_format = False
    has_pieces = False      # some nodes print through a custom serializer of the driver
    pieces_rt = True        # ... and json-c's re-parse of the pieces gives back nodes that print the same
    if ops:
        # the history: what the API calls denote, computed here; the driver's dump must agree
        raw = impl.split(" | ")
        pos = 0
        aside = None
        fst = FmtState()
        pieces = []
        for op in ops:
            rtext = None
            if op[0] == "P":
                ppath, prest = parse_path(op[1:])
                pm, pn, ph = prest[1:].split(",")
                pieces.append((ppath, pm, int(pn), b"" if ph == "-" else bytes.fromhex(ph)))
            if op[0] == "R":
                pieces = []
            if op[0] == "F":
                want_rc = fst.call(op)
                if pos >= len(raw) or not raw[pos].startswith("F "):
                    return ("malformed", "history: F step missing: " + impl[:120])
                if raw[pos] != "F %d" % want_rc:
                    return ("format-call-result", "json_c_set_serialization_double_format in %s returned %s, documented: %d" % (op, raw[pos][2:], want_rc))
                pos += 1
                continue
            if op[0] == "R" and fst.main_format() is not None and any(d[2] is None for d in tree_doubles(tree)):
                return None      # a re-parse under a custom option format: the caller's format decides the text; correspondence only
            if op[0] == "R":
                if pos >= len(raw) or not raw[pos].startswith("R "):
                    return ("malformed", "history: R step missing: " + impl[:120])
                rt = raw[pos].split(" ")
                pos += 1
                if len(rt) != 2:
                    return ("history-reparse-fails", "history %s: json-c does not re-parse its own output: %s" % (";".join(ops), " ".join(rt[2:])))
                rtext = b"" if rt[1] == "-" else bytes.fromhex(rt[1])
            tree, aside, msg = hist_step(tree, aside, op, rtext)
            if msg:
                return ("history-text", "history %s: %s" % (";".join(ops), msg))
        if pos >= len(raw) or not raw[pos].startswith("tree "):
            return ("malformed", "history: tree step missing: " + impl[:120])
        got = raw[pos][5:]
        pos += 1
        if got != jvtext.dump(tree):
            hist_found = ("history-tree", "after the API calls %s the tree is %s, the calls denote %s" % (";".join(ops), got[:120], jvtext.dump(tree)[:120]))
        if aside is not None:
            if pos >= len(raw) or not raw[pos].startswith("aside "):
                return ("malformed", "history: aside step missing: " + impl[:120])
            if raw[pos][6:] != jvtext.dump(aside[1]) and hist_found is None:
                hist_found = ("history-source-disturbed", "the tree a deep copy was taken from changed with the copy: %s, expected %s (history %s)"
                              % (raw[pos][6:][:120], jvtext.dump(aside[1])[:120], ";".join(ops)))
            pos += 1
        impl = " | ".join(raw[pos:])
        # custom serializers: the text must be the containers' text with exactly the known pieces in place, i.e. it
        # denotes the tree in which those nodes are the values the pieces spell
        for (ppath, pm, pn, ptag) in pieces:
            val = piece_value(pm, pn, ptag)
            tree = upd(tree, ppath, lambda n, val=val: n if n is None else val)
            has_pieces = True
            if not (pm in "qmc" or (pm == "d" and pn <= 17)):
                pieces_rt = False
        custom_format = fst.main_format() is not None and any(d[2] is None for d in tree_doubles(tree))
    steps = parse_obs(impl)
    if steps and steps[-1][0] == "leak":
        return ("leak", "allocation leaked: " + steps[-1][1])
    if len(steps) != len(flags) or any(s[0] == "bad" for s in steps):
        return ("malformed", "unexpected driver output: " + impl[:120])
    if custom_format:
        # the serializing thread itself (or a GLOBAL setting it did not override) chose another printf format: the
        # numbers are what that format prints; what remains of the property is the length, and the correspondence
        for f, st in zip(flags, steps):
            if st[2] != len(st[1]):
                return ("length", "flags %d: reported length %d, text length %d" % (f, st[2], len(st[1])))
        return hist_found
    finite = is_finite_tree(tree)
    all_utf8 = all(is_utf8(s) for s in tree_strings(tree))
    found = []            # all violations; a non-NOZERO class wins

    # the reference token sequence: flags 0 of this very case when present, else the first non-NOZERO word
    ref = None
    results = []
    for f, st in zip(flags, steps):
        text = st[1]
        r = dict(f=f, st=st, text=text, val=None, toks=None)
        if st[2] != len(text):
            found.append(("length", "flags %d: reported length %d, text length %d" % (f, st[2], len(text))))
        body = text
        if f & COLOR:
            body = strip_color(text)
            if body is None:
                found.append(("color-garbage", "flags %d: ESC that is not a colour sequence" % f))
                body = text
        elif b"\x1b" in text and finite:
            found.append(("raw-esc", "flags %d: raw ESC in the text" % f))
        r["body"] = body
        if finite:
            try:
                r["val"], r["toks"] = rfc_parse(body)
            except Reject as e:
                found.append(("rfc-reject", "flags %d: not RFC 8259: %s: %r" % (f, e, body[:80])))
            if all_utf8 and not is_utf8(body):
                found.append(("utf8-broken", "flags %d: strings are UTF-8 but the text is not" % f))
        results.append(r)
    for r in results:
        if r["toks"] is not None and not (r["f"] & NOZERO):
            if ref is None or r["f"] == 0:
                ref = r
                if r["f"] == 0:
                    break
    for r in results:
        f, st = r["f"], r["st"]
        victim = False
        if r["toks"] is not None and ref is not None and r is not ref:
            a, b = ref["toks"], r["toks"]
            if len(a) != len(b):
                found.append(("tokens-differ", "flags %d: %d tokens, flags %d: %d tokens" % (ref["f"], len(a), f, len(b))))
            else:
                for x, y in zip(a, b):
                    if x != y:
                        if (f & NOZERO) and x[0] == "n" and y[0] == "n" and nozero_victim(x[1], y[1]):
                            victim = True
                            found.append((NOZERO_CLASS, "flags %d: double token %r became %r (exponent digits trimmed by JSON_C_TO_STRING_NOZERO)"
                                          % (f, x[1], y[1])))
                        else:
                            found.append(("tokens-differ", "flags %d vs %d: token %r became %r" % (ref["f"], f, x, y)))
                        break
        if victim:
            continue          # value / re-parse differences of this word are consequences
        if r["val"] is not None:
            m = denote_mismatch(r["val"], tree)
            if m:
                found.append(("wrong-value", "flags %d: %s" % (f, m)))
            for k, tok in r["toks"]:
                pass
        # json-c's own round trip
        if st[0] == "parsefail":
            found.append(("reparse-fails", "flags %d: json-c does not re-parse its own output: %s: %r" % (f, st[3], r["text"][:80])))
            continue
        if has_pieces and pieces_rt and (f & COLOR):
            # a piece carries no colour, the string node it re-parses to does: compare without the colour sequences
            same = strip_color(st[5]) == strip_color(r["text"])
        else:
            same = st[5] == r["text"]
        if not same and (not has_pieces or pieces_rt):
            found.append(("reserialize-differs", "flags %d: re-serialization %r != %r" % (f, st[5][:80], r["text"][:80])))
        has_nan = any(((d[1] >> 52) & 0x7ff) == 0x7ff and (d[1] & ((1 << 52) - 1)) for d in tree_doubles(tree))
        if st[3] != "1" and not has_nan and not has_pieces:      # with a custom serializer the text spells the piece, not the node's value
            found.append(("reparse-not-equal", "flags %d: json_object_equal(orig, reparsed) is false; reparsed %s" % (f, st[4][:100])))
        if r["toks"] is not None and (not has_pieces or pieces_rt):
            want = jvtext.dump(expected_reparse(tree, iter([t for k, t in r["toks"] if k == "n"])))
            if st[4] != want:
                found.append(("reparse-tree", "flags %d: reparsed tree %s, expected %s" % (f, st[4][:100], want[:100])))
    # the oracle hypothesis on %.17g, on every double this case printed without retained text
    if finite and ref is not None:
        nums = iter([t for k, t in ref["toks"] if k == "n"])

        def walk(t):
            if isinstance(t, list):
                for x in t:
                    walk(x)
            elif isinstance(t, tuple):
                if t[0] == "o":
                    for _, x in t[1]:
                        walk(x)
                else:
                    tok = next(nums, None)
                    if t[0] == "d" and t[2] is None and tok is not None and not check_fmt17_shape(tok):
                        found.append(("fmt17-shape", "double %016x printed as %r: outside the %%.17g shape the proof assumes" % (t[1], tok)))
                    if t[0] == "d" and t[2] is None and tok is not None and not any(c in tok for c in b".e"):
                        found.append(("double-without-fraction", "double %016x printed as %r under the built-in format: no '.0', it re-parses as an "
                                      "integer node%s" % (t[1], tok, (" (history %s)" % ";".join(ops)) if ops else "")))
        walk(tree)
    if hist_found is not None:
        return hist_found
    for c in found:
        if c[0] != NOZERO_CLASS:
            return c
    return found[0] if found else None


def oracle(line, meta, impl):
    try:
        return oracle_(line, meta, impl)
    except Exception as e:              # the output is so far from the expected shape that a clause could not be evaluated
        return ("malformed", "oracle could not evaluate the observation (%r): %s" % (e, impl[:120]))


def classify(line, meta, mo, co):
    return None


def nontrivial(line, meta, impl):
    st = parse_obs(" | ".join(x for x in impl.split(" | ") if not x.startswith(("R ", "tree ", "aside "))))
    if not st or st[0][0] != "ok":
        return None
    t = st[0][1]
    if any(c in t for c in b"\\[{.e"):
        return line
    return None


# ---------------------------------------------------------------- shrinking
def subtrees(tree):
    """smaller candidates, most aggressive first"""
    if isinstance(tree, list):
        for x in tree:
            yield x
        for i in range(len(tree)):
            yield tree[:i] + tree[i + 1:]
        for i, x in enumerate(tree):
            for y in subtrees(x):
                yield tree[:i] + [y] + tree[i + 1:]
    elif isinstance(tree, tuple) and tree[0] == "o":
        ms = tree[1]
        for _, x in ms:
            yield x
        for i in range(len(ms)):
            yield ("o", ms[:i] + ms[i + 1:])
        for i, (k, x) in enumerate(ms):
            if len(k) > 1:
                yield ("o", ms[:i] + [(k[:1], x)] + ms[i + 1:])
            for y in subtrees(x):
                yield ("o", ms[:i] + [(k, y)] + ms[i + 1:])
    elif isinstance(tree, bytes) and len(tree) > 1:
        yield tree[:len(tree) // 2]
        yield tree[len(tree) // 2:]
        for i in range(min(len(tree), 12)):
            yield tree[:i] + tree[i + 1:]
    elif isinstance(tree, tuple) and tree[0] == "d" and tree[2] is not None:
        yield ("d", tree[1], None)


def shrink(ck, line, cls):
    import fw
    fields = line.split(" ")
    tree = jvtext.parse(fields[1])[0]
    flags = [int(x) for x in fields[2].split(",")]
    ops = fields[3].split(";") if len(fields) > 3 else []
    budget = [70]

    def mkline(t, fl, os_):
        l = "ser %s %s" % (jvtext.dump(t), ",".join(str(f) for f in fl))
        return l + (" " + ";".join(os_) if os_ else "")

    def fails(t, fl, os_=None):
        if budget[0] <= 0:
            return False
        budget[0] -= 1
        l = mkline(t, fl, ops if os_ is None else os_)
        m, c, _ = ck.run_pair([l], "shrink")
        v = oracle(l, {}, c.get(1, "MISSING"))
        return v is not None and v[0] == cls
    # flags: the reference word 0 plus one failing word
    for f in flags:
        if f != 0 and fails(tree, [0, f]):
            flags = [0, f]
            break
    else:
        for f in flags:
            if fails(tree, [f]):
                flags = [f]
                break
    if ops:
        # the operations address nodes by position: keep the tree, minimise the history
        ops = fw.ddmin(ops, lambda sub: fails(tree, flags, sub), budget=40)
        return mkline(tree, flags, ops)
    progress = True
    while progress and budget[0] > 0:
        progress = False
        for cand in subtrees(tree):
            if budget[0] <= 0:
                break
            if fails(cand, flags):
                tree = cand
                progress = True
                break
    return mkline(tree, flags, ops)


def search(rng, broken_lines):
    return gen(rng, "quick")[:400]


# ---- source -> Gallina translator for the header constants this model uses (tr/lib_consts.py; LibImplCheck.v)
LIB_TRANSLATOR = {}


def coq_extra():
    import sys as _sys, os as _os
    import fw as _fw
    _sys.path.insert(0, _os.path.join(_fw.VERIF, "tr"))
    import lib_consts
    files, info = lib_consts.coq_extra_for(_fw)
    LIB_TRANSLATOR.update(info)
    return files


def extra_coverage():
    return dict(lib_translator=dict(LIB_TRANSLATOR))
