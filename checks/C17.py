"""C17 — the tree visitor performs the documented traversal for any tree and callback.

Script line:  visit <tree in jvtext> <schedule>
  schedule = "-" or comma-separated ints: what the callback returns for the 1st, 2nd, ... call
  (CONTINUE once exhausted).  A schedule by call number is fully general for a fixed tree: the
  n-th call is determined by the tree and the answers to the calls before it.
Observation: "<path> <flags> <parent> <key|index> <depth>" per call, then "ret <r>".

Generator: (1) exhaustive — every tree shape (scalar / array / object nodes) up to N nodes,
and for each the complete decision tree of callback answers over the six code classes
(CONTINUE, SKIP, POP, STOP, ERROR, undefined value) for the first L calls; (2) random larger
trees with random schedules and with single-deviation schedules (one non-CONTINUE answer at
every call position of the plain traversal).

Direct oracle: `ref_visit`, a reference traversal written from the documentation in
json_visit.h (and, where the header is silent, from json-c's own tests/test_visit.expected:
no second call on a container that answered SKIP; SKIP and POP answered to a second call
mean CONTINUE).  It shares nothing with the Coq model."""
import itertools
import jvtext

PROP = "C17"
DOMAIN = "visit"
LEVEL = "proof"
TECHNIQUE = ("Coq proof by induction on the tree that the recursive visitor equals a flat-list skip/pop/stop automaton "
             "for every callback (VisitProofs.v) + extracted-model/C differential correspondence + Python reference traversal")
RULE = ("exhaustive: all tree shapes up to N nodes (N=5 quick, 6 thorough) x the full decision tree of callback answers over "
        "{CONTINUE,SKIP,POP,STOP,ERROR,undefined} for the first L calls (quick: L=6 up to 4 nodes, 3 for 5; thorough: L=8 up to 4 nodes, 6 for 5, 4 for 6); "
        "random: seeded trees up to ~80 nodes with random and single-deviation schedules.  A case is non-trivial when more "
        "than one call happened or the result is an error; distinct = distinct (tree, consumed schedule)")
TRUSTED = ["Coq 8.16.1 kernel (coqc), no axioms (Print Assumptions: closed under the global context)",
           "extraction (ExtrOcamlBasic only) + ocaml/mdrv glue (drv_visit.ml turns a schedule into a callback)",
           "harness/drv_visit.c (node identity by pointer table built with the plain container API), jvtext.h, gcc -fsanitize=address,undefined",
           "checks/C17.py ref_visit as the reading of json_visit.h"]
ASSUMPTIONS = ["the callback does not modify the tree or *jso_index during the visit",
               "object members are iterated in insertion order (C06 iteration_order); the model walks the member list",
               "a container that answered SKIP gets no second call (json_visit.h is silent; tests/test_visit.expected shows it)"]

CONTINUE, SKIP, POP, STOP, ERROR, SECOND = 0, 7547, 767, 7867, -1, 2
VALID = (CONTINUE, SKIP, POP, STOP, ERROR)
INVALID = [9, -5, 1, 2, -2, 7548, 7546, 768, 7866, 2147483647, -2147483648, 3, 255, 65536 + 767]
NAMES = {CONTINUE: "continue", SKIP: "skip", POP: "pop", STOP: "stop", ERROR: "error"}


def code_name(c):
    return NAMES.get(c, "invalid")


# ------------------------------------------------------------------ reference traversal
class _Halt(Exception):
    def __init__(self, result):
        self.result = result


def _members(v):
    """None for a scalar, else (kind letter, [(key-or-index token, child)])"""
    if isinstance(v, list):
        return "a", [("i%d" % i, c) for i, c in enumerate(v)]
    if isinstance(v, tuple) and v[0] == "o":
        return "o", [("k" + jvtext.hx(k), c) for k, c in v[1]]
    return None


def _pstr(path):
    return "/" + "/".join(str(i) for i in path)


def ref_visit(tree, sched):
    """json_visit.h: call userfunc for every node, depth first; parent and key or index are
    passed; containers get a second call (JSON_C_VISIT_SECOND) after their members.
    SKIP: members of the current node are not iterated.  POP: the containing node stops
    iterating its members; the next call is its second call.  STOP: end now, success.
    ERROR: end now, failure.  Anything else is not a defined return value: failure.
    Returns ([call strings], result)."""
    calls = []

    def ask(path, flags, parent, ki):
        calls.append("%s %d %s %s %d" % (_pstr(path), flags, parent, ki, len(path)))
        n = len(calls)
        r = sched[n - 1] if n <= len(sched) else CONTINUE
        if r == STOP:
            raise _Halt(0)
        if r not in (CONTINUE, SKIP, POP):
            raise _Halt(-1)           # ERROR and every undefined value
        return r

    def node(v, path, parent, ki):
        """True when the containing node has to abandon its remaining members"""
        r = ask(path, 0, parent, ki)
        if r == POP:
            return True
        ms = _members(v)
        if ms is None or r == SKIP:
            return False
        kind, kids = ms
        me = "%s@%s" % (kind, _pstr(path))
        for pos, (tok, child) in enumerate(kids):
            if node(child, path + (pos,), me, tok):
                break
        ask(path, SECOND, parent, ki)  # CONTINUE, SKIP, POP all mean: go on
        return False

    try:
        node(tree, (), "-", "-")
        res = 0
    except _Halt as h:
        res = h.result
    return calls, res


def want_obs(tree, sched):
    calls, res = ref_visit(tree, sched)
    return " | ".join(calls + ["ret %d" % res]), len(calls)


def mkline(tree_text, sched):
    return "visit %s %s" % (tree_text, ",".join(str(c) for c in sched) if sched else "-")


def parse_line(line):
    _, t, s = line.split(" ")
    tree, _ = jvtext.parse(t)
    sched = [] if s == "-" else [int(x) for x in s.split(",")]
    return t, tree, sched


# ------------------------------------------------------------------ exhaustive part
_LEAVES = [None, ("i", 1), True, b"a", None, ("d", jvtext.dbits(1.5), None), ("u", 1 << 63), False, b"", ("i", -7)]
_KEYS = [b"a", b"", b"b", b"/", b"k2", b"~", b"0", b"zz", b"m~n", b"q"]


def _shapes(n, memo={}):
    """all tree shapes with exactly n nodes: 's' | ('a', [..]) | ('o', [..])"""
    if n in memo:
        return memo[n]
    out = []
    if n == 1:
        out.append("s")
    for f in _forests(n - 1):
        out.append(("a", f))
        out.append(("o", f))
    memo[n] = out
    return out


def _forests(m, memo={}):
    if m in memo:
        return memo[m]
    if m == 0:
        out = [[]]
    else:
        out = []
        for k in range(1, m + 1):
            for t in _shapes(k):
                for rest in _forests(m - k):
                    out.append([t] + rest)
    memo[m] = out
    return out


def _instantiate(shape, ctr):
    if shape == "s":
        ctr[0] += 1
        return _LEAVES[ctr[0] % len(_LEAVES)]
    kids = [_instantiate(s, ctr) for s in shape[1]]
    if shape[0] == "a":
        return kids
    ctr[1] += 1
    return ("o", [(_KEYS[(ctr[1] + i) % len(_KEYS)], k) for i, k in enumerate(kids)])


def _decision_tree(tree, text, maxcalls, salt, out, kind):
    """every distinguishable callback behaviour on the first `maxcalls` calls: a schedule is
    emitted when all of it is consumed and it does not end in CONTINUE (the default)"""
    def rec(s):
        obs, ncalls = want_obs(tree, s)
        if not s or s[-1] != CONTINUE:
            out.append((mkline(text, s), {"kind": kind, "want": obs}))
        if len(s) < maxcalls and ncalls > len(s):
            inv = INVALID[(salt + len(s) + len(out)) % len(INVALID)]
            for c in (CONTINUE, SKIP, POP, STOP, ERROR, inv):
                rec(s + [c])
    rec([])


def gen_exhaustive(tier):
    out = []
    plan = {"quick": [(1, 6), (2, 6), (3, 6), (4, 6), (5, 3)],
            "thorough": [(1, 8), (2, 8), (3, 8), (4, 8), (5, 6), (6, 4)]}[tier]
    salt = 0
    for n, maxcalls in plan:
        for shape in _shapes(n):
            salt += 1
            tree = _instantiate(shape, [salt, salt])
            _decision_tree(tree, jvtext.dump(tree), maxcalls, salt, out, "exhaustive-%d" % n)
    return out


# ------------------------------------------------------------------ random part
def _count(v):
    ms = _members(v)
    return 1 + (sum(_count(c) for _, c in ms[1]) if ms else 0)


def _rand_code(rng):
    r = rng.random()
    if r < 0.55:
        return CONTINUE
    if r < 0.70:
        return SKIP
    if r < 0.85:
        return POP
    if r < 0.89:
        return STOP
    if r < 0.93:
        return ERROR
    return rng.choice(INVALID) if rng.random() < 0.8 else rng.randint(-40000, 40000)


def gen_random(rng, tier):
    out = []
    ntrees = 250 if tier == "quick" else 3000
    for _ in range(ntrees):
        for _try in range(20):
            tree = jvtext.gen_tree(rng, depth=rng.choice([1, 2, 3, 4, 6]), size=rng.choice([2, 3, 4, 6]), nuls=False)
            n = _count(tree)
            if 2 <= n <= 80:
                break
        else:
            tree = [None, ("o", [(b"a", [])])]
        text = jvtext.dump(tree)
        _, full = want_obs(tree, [])
        # random schedules
        for _ in range(6):
            s = [_rand_code(rng) for _ in range(rng.randint(1, full + 2))]
            obs, nc = want_obs(tree, s)
            out.append((mkline(text, s[:max(nc, 1)]), {"kind": "random", "want": obs}))
        # one deviation at a call position of the plain traversal
        positions = range(full) if full <= 12 else rng.sample(range(full), 12)
        for k in positions:
            for c in (SKIP, POP, STOP, ERROR, rng.choice(INVALID)):
                s = [CONTINUE] * k + [c]
                obs, _ = want_obs(tree, s)
                out.append((mkline(text, s), {"kind": "single-deviation", "want": obs}))
    return out


def gen(rng, tier):
    return gen_exhaustive(tier) + gen_random(rng, tier)


# ------------------------------------------------------------------ oracle
def oracle(line, meta, impl):
    if "CRASH" in impl:
        return ("crash", "implementation crashed: " + impl[:200])
    if "LEAK" in impl:
        return ("leak", "allocation leaked: " + impl[-40:])
    want = meta.get("want")
    text, tree, sched = parse_line(line)
    if want is None:
        want, _ = want_obs(tree, sched)
    if impl == want:
        return None
    got = impl.split(" | ")
    exp = want.split(" | ")
    if not got or not got[-1].startswith("ret ") or any(len(g.split(" ")) != 5 for g in got[:-1]):
        return ("malformed", "unexpected driver output: " + impl[:160])
    gc, ec = got[:-1], exp[:-1]

    def answer(k):
        return sched[k] if 0 <= k < len(sched) else CONTINUE
    if gc == ec:
        last = code_name(answer(len(gc) - 1))
        return ("result-" + last, "same calls but json_c_visit returned %s, the documented result is %s (last answer: %s)"
                % (got[-1][4:], exp[-1][4:], last))
    if len(gc) == len(ec) and all(g.split(" ")[:2] == e.split(" ")[:2] for g, e in zip(gc, ec)):
        k = next(i for i in range(len(gc)) if gc[i] != ec[i])
        return ("call-args", "call %d is about the right node but was given [%s], documented [%s]" % (k + 1, gc[k], ec[k]))
    k = 0
    while k < len(gc) and k < len(ec) and gc[k] == ec[k]:
        k += 1
    prev = code_name(answer(k - 1)) if k > 0 else "start"
    flags_prev = ec[k - 1].split(" ")[1] if k > 0 else "0"
    cls = "seq-after-%s%s" % (prev, "-second" if flags_prev == "2" else "")
    return (cls, "call sequence leaves the documented traversal at call %d (previous answer: %s): got [%s], documented [%s]"
            % (k + 1, prev, gc[k] if k < len(gc) else "end, " + got[-1], ec[k] if k < len(ec) else "end, " + exp[-1]))


def classify(line, meta, mo, co):
    return None


def nontrivial(line, meta, impl):
    if impl.count(" | ") >= 2 or impl.endswith("ret -1"):
        return line
    return None


# ------------------------------------------------------------------ shrinking
def _tree_variants(v):
    """smaller trees: drop one member, replace one subtree by null, hoist one child"""
    ms = _members(v)
    if ms is None:
        if v is not None:
            yield None
        return
    yield None
    kids = v if isinstance(v, list) else v[1]
    for i in range(len(kids)):
        rest = kids[:i] + kids[i + 1:]
        yield rest if isinstance(v, list) else ("o", rest)
        child = kids[i] if isinstance(v, list) else kids[i][1]
        yield child
        for sub in _tree_variants(child):
            new = kids[:i] + [sub if isinstance(v, list) else (kids[i][0], sub)] + kids[i + 1:]
            yield new if isinstance(v, list) else ("o", new)


def shrink(ck, line, cls):
    text, tree, sched = parse_line(line)
    best = (tree, sched)

    def size(t, s):
        return (_count(t), len(s), sum(1 for c in s if c != CONTINUE), len(jvtext.dump(t)))
    for _round in range(12):
        t, s = best
        cands = []
        for i in range(len(s)):
            cands.append((t, s[:i] + s[i + 1:]))
            if s[i] != CONTINUE:
                cands.append((t, s[:i] + [CONTINUE] + s[i + 1:]))
        if s:
            cands.append((t, s[:-1]))
        for tv in itertools.islice(_tree_variants(t), 400):
            cands.append((tv, s))
        cands = [c for c in cands if size(*c) < size(*best)]
        if not cands:
            break
        lines = [mkline(jvtext.dump(ct), cs) for ct, cs in cands]
        _, c, _ = ck.run_pair(lines, "shrink")
        ok = []
        for i, (cand, l) in enumerate(zip(cands, lines), start=1):
            v = oracle(l, {}, c.get(i, "MISSING"))
            if v is not None and v[0] == cls:
                ok.append(cand)
        if not ok:
            break
        best = min(ok, key=lambda c: size(*c))
    return mkline(jvtext.dump(best[0]), best[1])


def search(rng, broken_lines):
    out = []
    for l in broken_lines[:20]:
        try:
            text, tree, sched = parse_line(l)
        except Exception:
            continue
        _decision_tree(tree, text, min(6, len(sched) + 2), 0, out, "search")
    return out[:20000] + gen_random(rng, "quick")


LEVEL_TEXT = ("Machine-checked: for every tree and every callback (an arbitrary function of the call history, so any assignment of the five "
              "codes or an undefined value to calls) the model of _json_c_visit/json_c_visit makes exactly the calls (node, flags, parent, "
              "key or index, depth), in the same order, and returns the same result as an independently formulated reference: the tree "
              "flattened into its pre/post document-order list, walked by a three-mode skip/pop/stop automaton (Coq, induction on the tree "
              "with no bound on size or depth, no axioms).  Corollaries, also for all trees and callbacks: a STOP answer is the last call "
              "and gives 0; an ERROR answer or any undefined value is the last call and gives -1; otherwise 0; SKIP leaves out the whole "
              "subtree; after POP the next call is the parent's second call; the INTERNAL ERROR branches are dead.  The model is tied to "
              "json_visit.c on every run by differential execution of the extracted model and the ASan/UBSan build on all tree shapes up to "
              "5 nodes x all callback behaviours on the first calls, plus random larger trees; a Python reference traversal written from "
              "json_visit.h judges the implementation's output directly.")
LEVEL_NOTE = ("Trusted: Coq kernel; extraction + OCaml glue; harness (node identity through a pointer table); the reading of json_visit.h in "
              "VisitSpec.v / ref_visit (no second call after SKIP, as json-c's own expected test output shows).  The theorems are about the "
              "Gallina model; the C code is tied to it by the checked correspondence (exhaustive on small trees, sampled beyond).  Callbacks "
              "that modify the tree during the visit are outside the statement.")
