"""C17 — the tree visitor performs the documented traversal for any tree and callback.

Script line:  visit <tree in jvtext> <schedule>
  schedule = "-" or comma-separated ints: what the callback returns for the 1st, 2nd, ... call
  (CONTINUE once exhausted).  A schedule by call number is fully general for a fixed tree: the
  n-th call is determined by the tree and the answers to the calls before it.
Observation: "<path> <flags> <parent> <key|index> <depth>" per call, then "ret <r>".

Generator: (0) small scope, complete — every tree of <= 4 nodes over {null, non-null scalar,
array, object} x every distinguishable callback behaviour (complete decision tree over the six
code classes, unbounded number of calls); thorough: also 5 nodes x the first 6 answers;
(1) exhaustive — every tree shape (scalar / array / object nodes) of 5 (thorough: 6) nodes,
and for each the complete decision tree of callback answers over the six code classes
(CONTINUE, SKIP, POP, STOP, ERROR, undefined value) for the first L calls; (2) random larger
trees with random schedules and with single-deviation schedules (one non-CONTINUE answer at
every call position of the plain traversal); (3) size families — the statement has no bound on
the tree, so nesting depth, container width and node count are swept on ladders around the
usual limits (32, 64, ... 1000/1024, 2048, 3000 levels; 255 ... 65537 members; ~20000 nodes),
each with the plain traversal and with STOP/POP/SKIP/ERROR/undefined answers placed at the far
end (deepest node, last member, a deep second call).
Paths are run-length encoded in the observation ("/0^1000/1").
(4) programs of several traversals — the visitor is documented as a plain function of its
arguments, so a callback may start another traversal (same tree object or another tree, its own
user function and argument) before it returns, to any nesting depth, and traversals may follow
one another; every traversal must be the reference traversal of its own tree and schedule.
(5) every argument of json_c_visit: SCHED may carry "@f<int>" (the reserved future_flags argument:
0, 1, 2, 3, -1, INT_MAX, INT_MIN, random) and "@a<kind>" (which userarg pointer is passed: the
driver's record, NULL, a heap block, the tree root, an odd address); the flags of every call are
recorded verbatim and must be exactly 0 / JSON_C_VISIT_SECOND, the userarg must arrive unchanged.
A third of all other cases carry such options too, plus a dedicated family.
(6) what the callback is handed: member names of 0 … 4097 and 70000 bytes (plain, printf
metacharacters, UTF-8, random bytes), groups of long names sharing a 254…1000-byte prefix, random trees
over a pool of long names; names longer than 32 bytes are observed as length + FNV-1a-64 + first/last
8 bytes.  The C driver also checks identity at every call: jso_key is the key pointer of the member's
entry in the real parent and that entry holds the node (else "!kid=0"/"!kval=0" in the key token),
*jso_index is the node's real position ("!idx=0").
(7) callbacks that edit what is still to come: during the first call on a container the callback
deletes trailing / all elements, appends, replaces an element, adds / replaces / deletes object members
("@e PATH:OP&…").  json_visit.c reads a container's type, length and member table after that call, so
the reference is the traversal of the tree with the edits carried out (settle).  Edits of a container
whose member loop is already running are outside this class (the array length is read once), with
one exception that json_object_object_foreach makes safe: "PATH:S" — during its SECOND call a container
that is an object member removes itself from the parent (json_object_object_del(parent, key)); the
traversal goes on with the next sibling, positions counted in the parent as it is then.
Line syntax:  PROG { ; PROG },  PROG := TREE SCHED { ( K PROG ) }  (see harness/drv_visit.c);
observation "T<i> <calls> | ret <r>" / "T<i> notrun" joined by " || ", every call with a sixth
token naming the user argument it arrived with ("own" / "arg<j>").

Direct oracle: `ref_visit`, a reference traversal written from the documentation in
json_visit.h (and, where the header is silent, from json-c's own tests/test_visit.expected:
no second call on a container that answered SKIP; SKIP and POP answered to a second call
mean CONTINUE).  It shares nothing with the Coq model."""
import itertools
import re
import jvtext

PROP = "C17"
DOMAIN = "visit"
LEVEL = "proof"
TECHNIQUE = ("Coq proof by induction on the tree that the recursive visitor equals a flat-list skip/pop/stop automaton "
             "for every callback (VisitProofs.v) + extracted-model/C differential correspondence + Python reference traversal")
RULE = ("small-scope, complete: every tree of <= 4 nodes over {null, non-null scalar, array, object} (412 trees) x every distinguishable "
        "callback behaviour = the complete decision tree over {CONTINUE,SKIP,POP,STOP,ERROR,undefined} with no bound on the calls "
        "(121 222 cases; thorough adds all 2 880 trees of 5 nodes x the first 6 answers); exhaustive shapes beyond: 5 nodes x first 3 "
        "answers (thorough: 6 nodes x first 4); "
        "random: seeded trees up to ~80 nodes with random and single-deviation schedules; size families: nesting depth ladder "
        "33..3000 (5000 thorough) with mixed array/object spines and sparse siblings, widths 255..65537 members, bushy trees of "
        "10^4 nodes, each with the plain traversal and with codes at the deepest node / last member / a deep second call.  "
        "programs: systematic (small outer trees x every call position x inner trees x inner/outer answers, same-tree "
        "and other-tree, consecutive) and random nested programs up to 8 traversals and nesting depth 3.  "
        "A case is non-trivial when more "
        "than one call happened or the result is an error; distinct = distinct (tree, consumed schedule)")
TRUSTED = ["Coq 8.16.1 kernel (coqc), no axioms (Print Assumptions: closed under the global context)",
           "extraction (ExtrOcamlBasic only) + ocaml/mdrv glue (drv_visit.ml turns a schedule into a callback)",
           "harness/drv_visit.c (node identity by pointer table built with the plain container API), jvtext.h, gcc -fsanitize=address,undefined",
           "checks/C17.py ref_visit as the reading of json_visit.h"]
ASSUMPTIONS = ["the callback does not modify *jso_index, and changes the tree only as follows: during the first call on a container "
               "it may edit that container (class 'edits'); a container whose members are being iterated is left alone",
               "future_flags is documented as reserved/unused: the reference traversal does not depend on it",
               "overlapping traversals are exercised by nesting (a callback that calls json_c_visit); two threads visiting "
               "concurrently are not run (the harness is single-threaded)",
               "object members are iterated in insertion order (C06 iteration_order); the model walks the member list",
               "a container that answered SKIP gets no second call (json_visit.h is silent; tests/test_visit.expected shows it)"]

CONTINUE, SKIP, POP, STOP, ERROR, SECOND = 0, 7547, 767, 7867, -1, 2
VALID = (CONTINUE, SKIP, POP, STOP, ERROR)
INVALID = [9, -5, 1, 2, -2, 7548, 7546, 768, 7866, 2147483647, -2147483648, 3, 255, 65536 + 767]
NAMES = {CONTINUE: "continue", SKIP: "skip", POP: "pop", STOP: "stop", ERROR: "error"}


def code_name(c):
    return NAMES.get(c, "invalid")


# ------------------------------------------------------------------ reference traversal
def _ktok(k):
    """a member name as the drivers print it"""
    if len(k) <= 32:
        return "k" + jvtext.hx(k)
    h = 0xcbf29ce484222325
    for b in k:
        h = ((h ^ b) * 0x100000001b3) & 0xffffffffffffffff
    return "K%d.%016x.%s.%s" % (len(k), h, k[:8].hex(), k[-8:].hex())


def _members(v):
    """None for a scalar, else (kind letter, [(key-or-index token, child)])"""
    if isinstance(v, list):
        return "a", [("i%d" % i, c) for i, c in enumerate(v)]
    if isinstance(v, tuple) and v[0] == "o":
        return "o", [(_ktok(k), c) for k, c in v[1]]
    return None


# a path is kept as (text of all runs but the last, last component, its repeat count); None = root
def _pext(pst, pos):
    if pst is None:
        return ("", pos, 1)
    pre, v, c = pst
    if v == pos:
        return (pre, v, c + 1)
    return (pre + ("/%d^%d" % (v, c) if c > 1 else "/%d" % v), pos, 1)


def _pstr(pst):
    if pst is None:
        return "/"
    pre, v, c = pst
    return pre + ("/%d^%d" % (v, c) if c > 1 else "/%d" % v)


def ref_visit(tree, sched, selfdel=()):
    """json_visit.h: call userfunc for every node, depth first; parent and key or index are
    passed; containers get a second call (JSON_C_VISIT_SECOND) after their members.
    SKIP: members of the current node are not iterated.  POP: the containing node stops
    iterating its members; the next call is its second call.  STOP: end now, success.
    ERROR: end now, failure.  Anything else is not a defined return value: failure.
    Written with an explicit stack of open containers (no recursion: trees may be thousands
    of levels deep).  `selfdel`: paths (as printed) of containers whose callback, during their second
    call, removes them from their parent object: the visitor has saved the next member before the
    call, so the next sibling follows; positions are those in the parent as it is then.
    Returns ([call strings], result)."""
    calls = []
    nsched = len(sched)

    def ask(pstr, flags, parent, ki, depth):
        calls.append("%s %d %s %s %d" % (pstr, flags, parent, ki, depth))
        n = len(calls)
        return sched[n - 1] if n <= nsched else CONTINUE

    open_ = []          # [pstr, parent, ki, depth, me, members, next member, path state]
    entering = (tree, None, "-", "-", 0)
    while True:
        if entering is not None:
            v, pst, parent, ki, depth = entering
            entering = None
            pstr = _pstr(pst)
            r = ask(pstr, 0, parent, ki, depth)
            if r == STOP:
                return calls, 0
            if r not in (CONTINUE, SKIP, POP):
                return calls, -1          # ERROR and every undefined value
            if r == POP:
                if open_:                  # the containing node abandons its remaining members
                    open_[-1][6] = len(open_[-1][5])
            elif r == CONTINUE:
                ms = _members(v)
                if ms is not None:
                    open_.append([pstr, parent, ki, depth, "%s@%s" % (ms[0], pstr), ms[1], 0, pst])
        if not open_:
            return calls, 0
        fr = open_[-1]
        if fr[6] < len(fr[5]):
            pos = fr[6]
            fr[6] += 1
            tok, child = fr[5][pos]
            entering = (child, _pext(fr[7], pos), fr[4], tok, fr[3] + 1)
        else:
            open_.pop()
            r = ask(fr[0], SECOND, fr[1], fr[2], fr[3])
            if selfdel and fr[0] in selfdel and open_ and open_[-1][4].startswith("o@"):
                par = open_[-1]
                del par[5][par[6] - 1]
                par[6] -= 1
            if r == STOP:
                return calls, 0
            if r not in (CONTINUE, SKIP, POP):   # on a second call SKIP and POP mean: go on
                return calls, -1


def want_obs(tree, sched, selfdel=()):
    calls, res = ref_visit(tree, sched, selfdel)
    return " | ".join(calls + ["ret %d" % res]), len(calls)


def mkline(tree_text, sched, opts=""):
    return "visit %s %s%s" % (tree_text, ",".join(str(c) for c in sched) if sched else "-", opts)


def _sched_tok(tok):
    """SCHED := CODES { @f<future_flags> | @a<userarg kind> } -> (codes, options text)"""
    codes, at, opts = tok.partition("@")
    return ([] if codes == "-" else [int(x) for x in codes.split(",")]), at + opts


def dump(v):
    """jvtext.dump without recursion"""
    out = []
    todo = [v]
    while todo:
        x = todo.pop()
        if isinstance(x, str):
            out.append(x)
        elif isinstance(x, list):
            todo.append("]")
            for i in range(len(x) - 1, -1, -1):
                todo.append(x[i])
                if i:
                    todo.append(",")
            todo.append("[")
        elif isinstance(x, tuple) and x[0] == "o":
            todo.append("}")
            for i in range(len(x[1]) - 1, -1, -1):
                todo.append(x[1][i][1])
                todo.append(("," if i else "") + jvtext.hx(x[1][i][0]) + "=")
            todo.append("{")
        else:
            out.append(jvtext.dump(x))
    return "".join(out)


def parse(s):
    """jvtext.parse without recursion"""
    open_ = []      # ['a', items] | ['o', items, pending key]
    pos = 0
    have = False
    val = None
    while True:
        if not have:
            if open_ and open_[-1][0] == "o" and open_[-1][2] is None:
                if s[pos] == "-":
                    key, pos = b"", pos + 1
                else:
                    j = pos
                    while s[j] in "0123456789abcdef":
                        j += 1
                    key, pos = bytes.fromhex(s[pos:j]), j
                assert s[pos] == "="
                pos += 1
                open_[-1][2] = key
                continue
            c = s[pos]
            if c == "[":
                pos += 1
                if s[pos] == "]":
                    pos, val, have = pos + 1, [], True
                else:
                    open_.append(["a", []])
            elif c == "{":
                pos += 1
                if s[pos] == "}":
                    pos, val, have = pos + 1, ("o", []), True
                else:
                    open_.append(["o", [], None])
            else:
                val, pos = jvtext.parse(s, pos)
                have = True
        else:
            if not open_:
                assert pos == len(s)
                return val
            top = open_[-1]
            if top[0] == "a":
                top[1].append(val)
            else:
                top[1].append((top[2], val))
                top[2] = None
            have = False
            if s[pos] == ",":
                pos += 1
                continue
            assert s[pos] == ("]" if top[0] == "a" else "}")
            pos += 1
            open_.pop()
            val = top[1] if top[0] == "a" else ("o", top[1])
            have = True


def _kids(v):
    if isinstance(v, list):
        return v
    if isinstance(v, tuple) and v[0] == "o":
        return [c for _, c in v[1]]
    return None


def _count(v):
    n = 0
    todo = [v]
    while todo:
        x = todo.pop()
        n += 1
        k = _kids(x)
        if k:
            todo.extend(k)
    return n


# ---- callbacks that edit the container they are called on ("@e PATH:OP&…", see harness/drv_visit.c)
def parse_edits(opts):
    m = re.search(r"@e([^@]*)", opts)
    if not m:
        return []
    out = []
    for item in m.group(1).split("&"):
        path, _, op = item.partition(":")
        out.append((tuple(int(x) for x in path.split("/") if x), op))
    return out


def _apply_op(v, op):
    c, body = op[0], op[1:]
    if c == "S":
        return v
    if isinstance(v, list):
        if c == "d":
            k = min(int(body), len(v))
            return v[:len(v) - k]
        if c == "D":
            return []
        if c == "a":
            return v + [parse(body)]
        if c == "r":
            i, _, t = body.partition("=")
            i = int(i)
            return v[:i] + [parse(t)] + v[i + 1:] if i < len(v) else v
        return v
    if isinstance(v, tuple) and v[0] == "o" and c in "AX":
        k, eq, t = body.partition("=")
        key = b"" if k == "-" else bytes.fromhex(k)
        if c == "X":
            return ("o", [(a, b) for a, b in v[1] if a != key])
        if c == "A" and eq:
            val = parse(t)
            if any(a == key for a, _ in v[1]):
                return ("o", [(a, val if a == key else b) for a, b in v[1]])
            return ("o", v[1] + [(key, val)])
    return v


def _selfdel(edits):
    """the "PATH:S" edits, as printed paths"""
    out = set()
    for p, op in edits:
        if op == "S":
            pst = None
            for i in p:
                pst = _pext(pst, i)
            out.add(_pstr(pst))
    return out


def settle(v, edits, path=()):
    """json_visit.h does not forbid the callback to change what has not been visited yet, and the
    visitor looks at a container only after the first call on it: the members visited are those
    the container has when that call returns.  With edits addressed by path this is the plain
    traversal of the tree with the edits carried out top-down."""
    for p, op in edits:
        if p == path:
            v = _apply_op(v, op)
    if isinstance(v, list):
        return [settle(c, edits, path + (i,)) for i, c in enumerate(v)]
    if isinstance(v, tuple) and v[0] == "o":
        return ("o", [(k, settle(c, edits, path + (i,))) for i, (k, c) in enumerate(v[1])])
    return v


def parse_line(line):
    _, t, s = line.split(" ")
    tree = parse(t)
    sched, opts = _sched_tok(s)
    return t, tree, sched, opts


# ---- programs of traversals: (tree | "=", sched, [(k, prog), ...])
def parse_progs(line):
    toks = line.split(" ")[1:]
    pos = [0]

    def prog():
        t, sc = toks[pos[0]], toks[pos[0] + 1]
        pos[0] += 2
        tree = "=" if t == "=" else parse(t)
        sched, opts = _sched_tok(sc)
        nested = []
        while pos[0] < len(toks) and toks[pos[0]] == "(":
            k = int(toks[pos[0] + 1])
            pos[0] += 2
            nested.append((k, prog()))
            assert toks[pos[0]] == ")"
            pos[0] += 1
        return (tree, sched, nested, opts)
    out = [prog()]
    while pos[0] < len(toks):
        assert toks[pos[0]] == ";"
        pos[0] += 1
        out.append(prog())
    return out


def prog_text(p):
    tree, sched, nested = p[:3]
    opts = p[3] if len(p) > 3 else ""
    return " ".join([tree if tree == "=" else dump(tree), (",".join(str(c) for c in sched) if sched else "-") + opts] +
                    ["( %d %s )" % (k, prog_text(q)) for k, q in nested])


def progs_line(ps):
    return "visit " + " ; ".join(prog_text(p) for p in ps)


def is_simple(ps):
    return len(ps) == 1 and not ps[0][2]


def ref_progs(ps):
    """every traversal is the reference traversal of its own tree and schedule, whatever runs
    inside its callback; a nested one happens iff its outer traversal makes the k-th call.
    Returns [(calls, res) | None] in text order and, per traversal, (parent index, ran children?)"""
    outs, info = [], []

    def notrun(p, parent):
        me = len(outs)
        outs.append(None)
        info.append([parent, False])
        for _, q in p[2]:
            notrun(q, me)

    def run(p, parent, ptree):
        tree = ptree if isinstance(p[0], str) else p[0]
        calls, res = ref_visit(tree, p[1])
        me = len(outs)
        outs.append((calls, res))
        info.append([parent, False])
        for k, q in p[2]:
            if 1 <= k <= len(calls):
                info[me][1] = True
                run(q, me, tree)
            else:
                notrun(q, me)
    for p in ps:
        run(p, -1, None)
    return outs, info


def progs_obs(outs):
    return " || ".join("T%d %s" % (i, "notrun" if o is None else " | ".join([c + " own" for c in o[0]] + ["ret %d" % o[1]]))
                       for i, o in enumerate(outs))


# ------------------------------------------------------------------ exhaustive part
_LEAVES = [None, ("i", 1), True, b"a", None, ("d", jvtext.dbits(1.5), None), ("u", 1 << 63), False, b"", ("i", -7)]
_KEYS = [b"a", b"", b"b", b"/", b"k2", b"~", b"0", b"zz", b"m~n", b"q"]


def _shapes(n, memo={}):
    """all tree shapes with exactly n nodes: 's' | ('a', [..]) | ('o', [..])"""
    if n in memo:
        return memo[n]
    out = []
    if n == 1:
        out.append("s")
    for f in _forests(n - 1):
        out.append(("a", f))
        out.append(("o", f))
    memo[n] = out
    return out


def _forests(m, memo={}):
    if m in memo:
        return memo[m]
    if m == 0:
        out = [[]]
    else:
        out = []
        for k in range(1, m + 1):
            for t in _shapes(k):
                for rest in _forests(m - k):
                    out.append([t] + rest)
    memo[m] = out
    return out


def _instantiate(shape, ctr):
    if shape == "s":
        ctr[0] += 1
        return _LEAVES[ctr[0] % len(_LEAVES)]
    kids = [_instantiate(s, ctr) for s in shape[1]]
    if shape[0] == "a":
        return kids
    ctr[1] += 1
    return ("o", [(_KEYS[(ctr[1] + i) % len(_KEYS)], k) for i, k in enumerate(kids)])


def _decision_tree(tree, text, maxcalls, salt, out, kind):
    """every distinguishable callback behaviour on the first `maxcalls` calls: a schedule is
    emitted when all of it is consumed and it does not end in CONTINUE (the default)"""
    def rec(s):
        obs, ncalls = want_obs(tree, s)
        if not s or s[-1] != CONTINUE:
            out.append((mkline(text, s), {"kind": kind, "want": obs}))
        if len(s) < maxcalls and ncalls > len(s):
            inv = INVALID[(salt + len(s) + len(out)) % len(INVALID)]
            for c in (CONTINUE, SKIP, POP, STOP, ERROR, inv):
                rec(s + [c])
    rec([])


def gen_exhaustive(tier):
    out = []
    # sizes up to 4 (thorough: 5) are covered completely by gen_small_scope
    plan = {"quick": [(5, 3)], "thorough": [(6, 4)]}[tier]
    salt = 0
    for n, maxcalls in plan:
        for shape in _shapes(n):
            salt += 1
            tree = _instantiate(shape, [salt, salt])
            _decision_tree(tree, dump(tree), maxcalls, salt, out, "exhaustive-%d" % n)
    return out


# ------------------------------------------------------------------ small scope, complete
# Every tree of at most 4 nodes over the node alphabet {null, non-null scalar, array, object}
# (so: null root, null members and elements, empty containers, every nesting and order), and for
# each tree EVERY behaviour of the callback: the complete decision tree of answers over
# {CONTINUE, SKIP, POP, STOP, ERROR, one undefined value} with no bound on the number of calls
# (at most 8 here).  This is itertools.product(codes, repeat=ncalls) modulo the answers that are
# never asked for (after a STOP/ERROR/undefined answer, or to calls that SKIP/POP left out), i.e.
# one case per distinguishable schedule.  Thorough: the same for 5 nodes and the first 6 answers.
_NONNULL = [True, ("i", 1), b"a", ("d", jvtext.dbits(1.5), None), ("u", 1 << 63), False, b"", ("i", -7)]


def _shapes2(n, memo={}):
    """all trees with exactly n nodes over 'n' (null) | 's' (non-null scalar) | ('a', [..]) | ('o', [..])"""
    if n in memo:
        return memo[n]
    out = ["n", "s"] if n == 1 else []
    for f in _forests2(n - 1):
        out.append(("a", f))
        out.append(("o", f))
    memo[n] = out
    return out


def _forests2(m, memo={}):
    if m in memo:
        return memo[m]
    if m == 0:
        out = [[]]
    else:
        out = [[t] + rest for k in range(1, m + 1) for t, rest in itertools.product(_shapes2(k), _forests2(m - k))]
    memo[m] = out
    return out


def _instantiate2(shape, ctr):
    if shape == "n":
        return None
    if shape == "s":                  # the five scalar types take turns (one case label each in the switch)
        ctr[0] += 1
        return _NONNULL[ctr[0] % len(_NONNULL)]
    kids = [_instantiate2(x, ctr) for x in shape[1]]
    if shape[0] == "a":
        return kids
    ctr[1] += 1
    return ("o", [(_KEYS[(ctr[1] + i) % len(_KEYS)], k) for i, k in enumerate(kids)])


def gen_small_scope(tier):
    out = []
    plan = [(1, 99), (2, 99), (3, 99), (4, 99)] + ([(5, 6)] if tier != "quick" else [])
    salt = 0
    for n, maxcalls in plan:
        for shape in _shapes2(n):
            salt += 1
            tree = _instantiate2(shape, [salt, salt])
            _decision_tree(tree, dump(tree), maxcalls, salt, out, "small-scope")
    return out


# ------------------------------------------------------------------ random part
def _rand_code(rng):
    r = rng.random()
    if r < 0.55:
        return CONTINUE
    if r < 0.70:
        return SKIP
    if r < 0.85:
        return POP
    if r < 0.89:
        return STOP
    if r < 0.93:
        return ERROR
    return rng.choice(INVALID) if rng.random() < 0.8 else rng.randint(-40000, 40000)


def gen_random(rng, tier):
    out = []
    ntrees = 250 if tier == "quick" else 3000
    for _ in range(ntrees):
        for _try in range(20):
            tree = jvtext.gen_tree(rng, depth=rng.choice([1, 2, 3, 4, 6]), size=rng.choice([2, 3, 4, 6]), nuls=False)
            n = _count(tree)
            if 2 <= n <= 80:
                break
        else:
            tree = [None, ("o", [(b"a", [])])]
        text = dump(tree)
        _, full = want_obs(tree, [])
        # random schedules
        for _ in range(6):
            s = [_rand_code(rng) for _ in range(rng.randint(1, full + 2))]
            obs, nc = want_obs(tree, s)
            out.append((mkline(text, s[:max(nc, 1)]), {"kind": "random", "want": obs}))
        # one deviation at a call position of the plain traversal
        positions = range(full) if full <= 12 else rng.sample(range(full), 12)
        for k in positions:
            for c in (SKIP, POP, STOP, ERROR, rng.choice(INVALID)):
                s = [CONTINUE] * k + [c]
                obs, _ = want_obs(tree, s)
                out.append((mkline(text, s), {"kind": "single-deviation", "want": obs}))
    return out


# ------------------------------------------------------------------ size families
# The statement quantifies over all trees: nothing in it bounds the nesting depth, the number of
# members of a container or the number of nodes.  These families sweep those three dimensions.
DEPTHS_QUICK = [33, 64, 65, 128, 129, 256, 257, 500, 512, 513, 1000, 1001, 1002, 1024, 1025, 1500, 2048, 2049, 3000]
DEPTHS_THOROUGH = DEPTHS_QUICK + [4096, 4097, 5000]
WIDTHS_QUICK = [255, 256, 257, 1000, 4096, 65535, 65536, 65537]


def _spine_tree(rng, depth, style):
    """`depth` nested containers around a leaf; sparse scalar siblings next to the spine (always
    at the two innermost levels, so that POP/SKIP down there have something to leave out)"""
    v = rng.choice([None, ("i", 7), [], ("o", []), b"x"])
    for lvl in range(depth - 1, -1, -1):
        kind = {"a": "a", "o": "o", "alt": "ao"[lvl % 2]}.get(style) or rng.choice("ao")
        before = after = 0
        if lvl >= depth - 2 or rng.random() < 0.01:
            before, after = rng.choice([(0, 1), (1, 1), (2, 0), (0, 2)])
        kids = [_LEAVES[(lvl + i) % len(_LEAVES)] for i in range(before)] + [v] + \
               [_LEAVES[(lvl + i + 3) % len(_LEAVES)] for i in range(after)]
        v = kids if kind == "a" else ("o", [(_KEYS[(lvl + i) % len(_KEYS)], k) for i, k in enumerate(kids)])
    return v


def _far_schedules(rng, tree, depth, every):
    """the plain traversal, then one answer at the first call on the deepest level and one at
    the first second call (the innermost container)"""
    calls, _ = ref_visit(tree, [])
    out = [[]]
    deep = next((i for i, c in enumerate(calls) if c.endswith(" %d" % depth) and c.split(" ")[1] == "0"), None)
    second = next((i for i, c in enumerate(calls) if c.split(" ")[1] == "2"), None)
    codes = [SKIP, POP, STOP, ERROR, rng.choice(INVALID)]
    rng.shuffle(codes)
    if deep is not None:
        for c in (codes if every else codes[:1]):
            out.append([CONTINUE] * deep + [c])
    if second is not None:
        for c in ([POP, STOP, ERROR, rng.choice(INVALID)] if every else [rng.choice([STOP, ERROR, INVALID[0]])]):
            out.append([CONTINUE] * second + [c])
    return out


def gen_sizes(rng, tier):
    out = []
    thorough = tier != "quick"

    def emit(tree, scheds, kind):
        text = dump(tree)
        for sc in scheds:
            obs, _ = want_obs(tree, sc)
            out.append((mkline(text, sc), {"kind": kind, "want": obs}))
    # nesting depth
    depths = list(DEPTHS_THOROUGH if thorough else DEPTHS_QUICK)
    depths += [rng.randint(600, 2500) for _ in range(6 if thorough else 2)]
    for d in sorted(depths):
        tree = _spine_tree(rng, d, rng.choice(["a", "o", "alt", "mix"]))
        scheds = _far_schedules(rng, tree, d, thorough or d <= 600)
        if not thorough and d > 1100:
            scheds = scheds[:1] if d >= 2048 else scheds[:2]
        emit(tree, scheds, "deep")
    # container width
    widths = WIDTHS_QUICK + ([70000, 131073] if thorough else [])
    for w in widths:
        kinds = ["a", "o"] if (thorough or w < 60000) else ["o" if w % 3 == 1 else "a"]
        for kind in kinds:
            kids = [_LEAVES[i % 7] if i % 97 else [b"in", None] for i in range(w)]
            tree = kids if kind == "a" else ("o", [(b"k%d" % i, k if k is not None else True) for i, k in enumerate(kids)])
            plain, _ = ref_visit(tree, [])
            at_last = max(i for i, c in enumerate(plain) if c.endswith(" 1") and c.split(" ")[1] == "0")
            last = [CONTINUE] * at_last + [rng.choice([SKIP, POP, STOP, ERROR, rng.choice(INVALID)])]
            mid = [CONTINUE] * rng.randint(w // 3, w // 2) + [POP]
            if w < 60000 or thorough:
                scheds = [[], last, mid]
            else:                     # the plain traversal always; one answer at the far end or in the middle
                scheds = [[], mid if kind == "o" else last]
            emit(tree, scheds, "wide")
    # many nodes, moderate depth and width
    for _ in range(4 if thorough else 1):
        def bushy(level):
            if level == 0:
                return _LEAVES[rng.randrange(len(_LEAVES))]
            kids = [bushy(level - 1) if rng.random() < 0.8 else None for _ in range(rng.randint(3, 9))]
            return kids if rng.random() < 0.5 else ("o", [(b"m%d" % i, k) for i, k in enumerate(kids)])
        tree = bushy(5)
        n = _count(tree)
        sparse = [rng.choice([SKIP, POP]) if rng.random() < 0.02 else CONTINUE for _ in range(2 * n)]
        obs, nc = want_obs(tree, sparse)
        emit(tree, [[], sparse[:nc]], "bushy")
    return out


# ------------------------------------------------------------------ several traversals
_OUTER = ["[n,t]", "{61=[i1,n],62=t}", "[[],{6b=n}]", "[[n,[t]],f]", "{-=[],61={62=[n]},63=n}", "n", "[]",
          "[[[n]],[t,f]]", "{61=i1,62=i2,63=[n,n,n]}"]
_INNER = ["n", "[]", "[n]", "{61=[t],62=n}", "="]
_INNER_SCHED = [[], [STOP], [ERROR], [9], [CONTINUE, POP], [SKIP], [CONTINUE, ERROR], [CONTINUE, CONTINUE, CONTINUE, STOP]]


def gen_programs(rng, tier):
    out = []
    thorough = tier != "quick"

    def emit(ps, kind):
        if is_simple(ps):          # one traversal: the plain line and observation format
            out.append((progs_line(ps), {"kind": kind, "want": want_obs(ps[0][0], ps[0][1])[0]}))
            return
        outs, _ = ref_progs(ps)
        out.append((progs_line(ps), {"kind": kind, "want": progs_obs(outs)}))
    # systematic: a nested traversal at every call position of small outer trees
    for ot in _OUTER:
        outer = parse(ot)
        plain, _ = ref_visit(outer, [])
        for k in range(1, len(plain) + 2):
            for it in _INNER:
                inner = "=" if it == "=" else parse(it)
                isc = _INNER_SCHED if thorough else rng.sample(_INNER_SCHED, 3)
                for isched in isc:
                    choices = [[], [CONTINUE] * (k - 1) + [SKIP], [CONTINUE] * (k - 1) + [POP], [CONTINUE] * k + [POP],
                               [CONTINUE] * k + [STOP], [CONTINUE] * (k - 1) + [rng.choice(INVALID)]]
                    for osched in (choices if thorough else [[]] + rng.sample(choices[1:], 1)):
                        emit([(outer, osched, [(k, (inner, isched, []))])], "nested")
        # consecutive traversals: the earlier one must leave nothing behind
        for first in ([], [STOP], [ERROR], [CONTINUE, POP], [9]):
            emit([(outer, first, []), (outer, [], []), (parse("[n]"), [CONTINUE, rng.choice([SKIP, STOP, ERROR])], [])], "consecutive")
    # random programs: up to 8 traversals, nesting depth <= 3, same-tree and other-tree
    budget = [0]

    def rprog(level, parent_tree):
        budget[0] += 1
        if parent_tree is not None and rng.random() < 0.3:
            tree, real = "=", parent_tree
        else:
            for _try in range(10):
                real = jvtext.gen_tree(rng, depth=rng.choice([1, 2, 3]), size=3, nuls=False)
                if _kids(real) or rng.random() < 0.15:
                    break
            tree = real
        sched = [_rand_code(rng) if rng.random() < 0.5 else CONTINUE for _ in range(rng.randint(0, 6))]
        ncalls = len(ref_visit(real, sched)[0])
        nested = []
        while level < 3 and budget[0] < 8 and rng.random() < (0.8 if level == 0 else 0.45):
            k = rng.randint(1, ncalls) if rng.random() < 0.9 else ncalls + rng.randint(1, 2)
            nested.append((k, rprog(level + 1, real)))
        nested.sort(key=lambda kq: kq[0])
        return (tree, sched, nested)
    for _ in range(700 if not thorough else 20000):
        budget[0] = 0
        ps = [rprog(0, None)]
        while budget[0] < 8 and rng.random() < 0.3:
            ps.append(rprog(0, None))
        emit(ps, "program")
    return out


# ------------------------------------------------------------------ every argument of json_c_visit
# future_flags is reserved and documented as unused: whatever the caller passes, the flags a callback
# sees are 0 (first call) and JSON_C_VISIT_SECOND (second call); userarg must arrive unchanged at
# every call, whatever pointer it is.  The reference observation does not depend on either.
INT_MAX, INT_MIN = 2147483647, -2147483648
FUTURE_FLAGS = [1, 2, 3, -1, INT_MAX, INT_MIN, 4, 0x100, -2]
ARG_KINDS = [0, 1, 2, 3, 4]        # see harness/drv_visit.c


def _opts(ff, ak):
    return ("@f%d" % ff if ff else "") + ("@a%d" % ak if ak else "")


def decorate(line, pick):
    """append options to every SCHED token of a line; pick() -> options text"""
    toks = line.split(" ")
    expect_tree = True
    for i in range(1, len(toks)):
        t = toks[i]
        if t in ("(", ")", ";"):
            expect_tree = t != ")"
            if t == "(":
                expect_tree = None          # next token is K
            continue
        if expect_tree is None:
            expect_tree = True              # that was K
        elif expect_tree:
            expect_tree = False             # TREE; SCHED follows
        else:
            toks[i] = t + pick()
            expect_tree = True
    return " ".join(toks)


def gen_args(rng, tier):
    out = []
    trees = [parse(t) for t in _OUTER]
    scheds = [[], [CONTINUE, SKIP], [CONTINUE, POP], [CONTINUE, CONTINUE, STOP], [CONTINUE, ERROR], [CONTINUE, CONTINUE, 9]]
    ffs = [0] + FUTURE_FLAGS + [rng.randint(INT_MIN, INT_MAX) for _ in range(3 if tier == "quick" else 30)]
    for tree in trees:
        text = dump(tree)
        for ff in ffs:
            for ak in ARG_KINDS:
                for sc in (scheds if tier != "quick" else [scheds[0], rng.choice(scheds[1:])]):
                    obs, _ = want_obs(tree, sc)
                    out.append((mkline(text, sc, _opts(ff, ak)), {"kind": "args", "want": obs}))
    return out


# ------------------------------------------------------------------ what the callback is handed
# Every argument of every call must be the real thing: the member name in full (any length, any
# bytes) and as the very key pointer of the member's entry, the real parent, the real index.
KEY_LENGTHS = [0, 1, 31, 32, 33, 127, 128, 254, 255, 256, 257, 511, 512, 1000, 4095, 4096, 4097]


def _name(rng, n, style):
    if style == "a":
        return bytes([0x61 + (i % 26) for i in range(n)])
    if style == "fmt":
        return (b"%s%n%d%%%x\\" * (n // 10 + 1))[:n]
    if style == "utf8":
        return ("\u00e9\u4e2d\U0001f600x" * (n // 10 + 1)).encode()[:n].rstrip(b"\xf0\x9f\x98\xe4\xb8\xc3") or b"z" * n
    return bytes(rng.randrange(1, 256) for _ in range(n))


def gen_keys(rng, tier):
    out = []
    thorough = tier != "quick"

    def emit(tree, scheds):
        text = dump(tree)
        for sc in scheds:
            obs, _ = want_obs(tree, sc)
            out.append((mkline(text, sc), {"kind": "keys", "want": obs}))
    values = [None, True, [None, ("i", 1)], ("o", [(b"in", None)]), [], b"str"]
    for n in KEY_LENGTHS + ([70000] if True else []) + [rng.randint(258, 3000) for _ in range(2 if not thorough else 20)]:
        styles = ["a", "fmt", "utf8", "rnd"] if (thorough or n in (255, 256, 257)) else [rng.choice(["a", "fmt", "utf8", "rnd"])]
        if n == 70000:
            styles = ["a"]
        for st in styles:
            k = _name(rng, n, st)
            if len(k) != n:
                k = (k + b"q" * n)[:n]
            # the name on a scalar, a null, a container (second call), and nested one level down
            members = [(b"first", ("i", 0)), (k, values[rng.randrange(len(values))]), (b"last", None)]
            t1 = ("o", members)
            t2 = [("o", [(k, None)]), ("o", [(b"x", ("o", [(k, [True])]))])]
            t3 = ("o", [(k, ("o", [(k, [None])]))])
            plain, _ = ref_visit(t1, [])
            at = next(i for i, c in enumerate(plain) if c.startswith("/1 0 "))
            emit(t1, [[], [CONTINUE] * at + [rng.choice([SKIP, POP])]])
            emit(t2 if rng.random() < 0.5 else t3, [[]])
    # two (or more) long names with a common prefix of 254 / 255 / 256 / 257 / 1000 bytes: a shortened
    # name would name another member, or two members the same
    for pre in (254, 255, 256, 257, 1000):
        base = _name(rng, pre, rng.choice(["a", "rnd", "fmt"]))
        names = [base, base + b"A", base + b"B", base + b"AA", base[:-1]] if pre else []
        names = [x for i, x in enumerate(names) if x not in names[:i]]
        tree = ("o", [(nm, [None] if i % 2 else ("i", i)) for i, nm in enumerate(names)])
        emit(tree, [[], [CONTINUE, CONTINUE, POP], [CONTINUE, SKIP, CONTINUE, CONTINUE, STOP]])
        emit([tree, ("o", [(names[1], tree)])], [[]])
    # random trees whose objects draw their names from a pool of long names
    pool = [_name(rng, n, st) for n in (40, 200, 255, 256, 257, 300, 600) for st in ("a", "rnd")]
    pool = [x for i, x in enumerate(pool) if x and x not in pool[:i]] + [b"", b"%n", b"%s%s%s%s"]
    for _ in range(60 if not thorough else 1500):
        tree = jvtext.gen_tree(rng, depth=3, size=4, keys=pool, nuls=False)
        n = len(ref_visit(tree, [])[0])
        emit(tree, [[], [_rand_code(rng) if rng.random() < 0.2 else CONTINUE for _ in range(n)]])
    return out


# ------------------------------------------------------------------ callbacks that edit what is still to come
_EDIT_VALUES = ["n", "t", "i5", "[]", "[n,t]", "{61=n}", "[[n]]", "{78=[t],79=n}"]


def gen_edits(rng, tier):
    """during the first call on a container the callback deletes trailing / all elements, appends one or
    several, replaces an element; adds, replaces or deletes object members (the table is not being walked
    yet).  Systematic over small containers at the root and nested, then random."""
    out = []
    thorough = tier != "quick"

    def emit(tree, edits, scheds):
        text = dump(tree)
        opts = "@e" + "&".join("/" + "/".join(str(i) for i in p) + ":" + op if p else "/:" + op for p, op in edits)
        after = settle(tree, edits)
        for sc in scheds:
            obs, _ = want_obs(after, sc)
            out.append((mkline(text, sc, opts), {"kind": "edits", "want": obs}))

    def scheds_for(after):
        n = len(ref_visit(after, [])[0])
        k = rng.randint(1, max(1, n))
        return [[], [CONTINUE] * (k - 1) + [rng.choice([SKIP, POP, STOP, ERROR, rng.choice(INVALID)])]]
    arrays = [[], [None], [True, None], [("i", 1), [None], True], [[], ("o", [(b"a", None)]), None, False]]
    objects = [("o", []), ("o", [(b"a", None)]), ("o", [(b"a", ("i", 1)), (b"b", [None])]),
               ("o", [(b"k%d" % i, ("i", i)) for i in range(11)])]          # 11 members: the next adds resize the table
    aops = lambda a: (["d1", "d2", "d%d" % max(len(a), 1), "d99", "D"] + ["a" + v for v in _EDIT_VALUES] +
                      ["r%d=%s" % (i, v) for i in range(len(a) + 1) for v in ("n", "[t,f]", "i9")])
    oops = lambda o: (["A6e6577=" + v for v in _EDIT_VALUES] + ["A-=t"] +
                      ["A%s=%s" % (k.hex() or "-", v) for k, _ in o[1][:3] for v in ("n", "[t]")] +
                      ["X%s" % (k.hex() or "-") for k, _ in o[1][:3]] + ["X7a7a"])
    wrap = [lambda c: (c, ()), lambda c: ([True, c, None], (1,)), lambda c: (("o", [(b"p", None), (b"q", c), (b"r", [])]), (1,)),
            lambda c: ([[c, ("i", 3)]], (0, 0))]
    for cont in arrays + objects:
        ops = aops(cont) if isinstance(cont, list) else oops(cont)
        for op in ops:
            for w in (wrap if thorough else [wrap[0], rng.choice(wrap[1:])]):
                tree, path = w(cont)
                edits = [(path, op)]
                emit(tree, edits, scheds_for(settle(tree, edits)))
        # several edits in one call: append twice then drop one, add then delete, …
        for _ in range(6 if not thorough else 40):
            tree, path = rng.choice(wrap)(cont)
            edits = [(path, rng.choice(ops)) for _ in range(rng.randint(2, 4))]
            emit(tree, edits, scheds_for(settle(tree, edits)))
    # appended / replacing values that are edited in turn when their own first call comes
    emit([None], [((), "a[t]"), ((1,), "a{61=n}"), ((1, 1), "A62=[]"), ((1, 1, 1), "an")], [[], [0, 0, 0, SKIP], [0, 0, 0, 0, 0, POP]])
    emit(("o", [(b"a", [None, None])]), [((), "A62=[n,n,n]"), ((0,), "D"), ((1,), "d1"), ((1,), "ai7")], [[], [0, 0, 0, 0, STOP]])
    # during its SECOND call a container removes itself from its parent object (0, 1, several later
    # siblings; scalars, nulls and containers after it; several self-removing members; nested; with
    # SKIP / POP / STOP around it).  Array elements are left out: the unchanged visitor reads the array
    # length once, so after json_object_array_del_idx it skips the next element and reports a null at
    # the stale last index - defined, but not a traversal anyone documents.
    def emit_s(tree, paths, scheds):
        text = dump(tree)
        edits = [(p, "S") for p in paths]
        opts = "@e" + "&".join("/" + "/".join(str(i) for i in p) + ":S" for p in paths)
        sd = _selfdel(edits)
        for sc in scheds:
            obs, _ = want_obs(tree, sc, sd)
            out.append((mkline(text, sc, opts), {"kind": "edits", "want": obs}))
    conts = [[], [None], ("o", []), ("o", [(b"x", [True])]), [[None], ("o", [(b"y", None)])]]
    later = [[], [("i", 1)], [None, [True]], [("o", [(b"z", None)]), None, b"s"]]
    for c in conts:
        for lat in later:
            for before in ([], [None], [[None], True]):
                mem = [(b"b%d" % i, x) for i, x in enumerate(before)] + [(b"me", c)] + [(b"l%d" % i, x) for i, x in enumerate(lat)]
                obj = ("o", mem)
                at = (len(before),)
                n = len(ref_visit(obj, [])[0])
                scs = [[]] + [[CONTINUE] * k + [code] for k in rng.sample(range(n), min(n, 3 if not thorough else n))
                              for code in rng.sample([SKIP, POP, STOP, ERROR], 1 if not thorough else 4)]
                emit_s(obj, [at], scs)
                emit_s([True, obj], [(1,) + at], [[]])
                emit_s(("o", [(b"w", obj), (b"v", None)]), [(0,) + at, (0,)], [[]])
    # several members remove themselves, one after the other (the next one moves into the freed position)
    many = ("o", [(b"k%d" % i, [("i", i)] if i % 3 else ("o", [(b"q", None)])) for i in range(6)] + [(b"end", None)])
    emit_s(many, [(0,)], [[]])
    emit_s(many, [(1,)], [[], [0, 0, 0, 0, SKIP], [0] * 9 + [POP]])
    emit_s(many, [(0,), (2,)], [[]])
    # random trees, random edits on random containers (addressed in the tree as it is at that time)
    for _ in range(250 if not thorough else 5000):
        tree = jvtext.gen_tree(rng, depth=3, size=4, nuls=False)
        edits = []
        cur = tree
        for _e in range(rng.randint(1, 4)):
            conts = []
            todo = [((), settle(tree, edits))]
            while todo:
                p, x = todo.pop()
                k = _kids(x)
                if k is not None:
                    conts.append((p, x))
                    todo.extend((p + (i,), c) for i, c in enumerate(k))
            if not conts:
                break
            p, x = rng.choice(conts)
            edits.append((p, rng.choice(aops(x) if isinstance(x, list) else oops(x))))
        if edits:
            emit(tree, edits, scheds_for(settle(tree, edits)))
    return out


def gen(rng, tier):
    cases = gen_small_scope(tier) + gen_exhaustive(tier) + gen_random(rng, tier) + gen_programs(rng, tier) + gen_sizes(rng, tier)
    # a third of all other cases run with some non-default future_flags / userarg as well: the
    # decision trees, programs and size families are independent of both
    rot = [(ff, ak) for ff in FUTURE_FLAGS for ak in ARG_KINDS]
    out = []
    for i, (line, meta) in enumerate(cases):
        if i % 3 == 1:
            j = [i // 3]

            def pick():
                j[0] += 1
                if rng.random() < 0.15:
                    return _opts(rng.randint(INT_MIN, INT_MAX), rng.choice(ARG_KINDS))
                return _opts(*rot[j[0] % len(rot)])
            line = decorate(line, pick)
        out.append((line, meta))
    return out + gen_args(rng, tier) + gen_keys(rng, tier) + gen_edits(rng, tier)


# ------------------------------------------------------------------ oracle
def oracle(line, meta, impl):
    if "CRASH" in impl:
        return ("crash", "implementation crashed: " + impl[:200])
    if "LEAK" in impl:
        return ("leak", "allocation leaked: " + impl[-40:])
    marked = impl
    if "!" in impl:
        # identity marks of the C driver: judge the text without them first (a wrong name, parent or
        # index is reported as such), then the identity on its own
        impl = re.sub(r"!(kid=0:nomember|kid=0|kval=0|kparent=0|idx=0|iparent=0)", "", impl)
        v = oracle(line, meta, impl)
        if v is not None:
            return v
        for mark, cls, what in (("!kid=0", "key-identity", "jso_key is not the key pointer of the member's entry in the parent object"),
                                ("!kval=0", "key-identity", "the member named by jso_key is not the node passed"),
                                ("!kparent=0", "key-identity", "jso_key given although the parent is not an object"),
                                ("!idx=0", "index-identity", "*jso_index is not the position of the node in the parent array"),
                                ("!iparent=0", "index-identity", "jso_index given although the parent is not an array")):
            if mark in marked:
                at = marked.index(mark)
                return (cls, what + ": … " + marked[max(0, at - 90):at + 20])
    if "BADARG" in impl:
        return ("userarg", "a call arrived with a user argument other than the one given to json_c_visit: " + impl[:160])
    want = meta.get("want")
    if line.count(" ") > 2:
        return oracle_progs(line, want, impl)
    text, tree, sched, _opts = parse_line(line)
    if want is None:
        eds = parse_edits(_opts)
        want, _ = want_obs(settle(tree, eds) if eds else tree, sched, _selfdel(eds))
    if impl == want:
        return None
    got = impl.split(" | ")
    exp = want.split(" | ")
    if not got or not got[-1].startswith("ret ") or any(len(g.split(" ")) != 5 for g in got[:-1]):
        return ("malformed", "unexpected driver output: " + impl[:160])
    gc, ec = got[:-1], exp[:-1]

    def answer(k):
        return sched[k] if 0 <= k < len(sched) else CONTINUE
    if gc == ec:
        last = code_name(answer(len(gc) - 1))
        return ("result-" + last, "same calls but json_c_visit returned %s, the documented result is %s (last answer: %s)"
                % (got[-1][4:], exp[-1][4:], last))
    k = next((i for i in range(min(len(gc), len(ec))) if gc[i] != ec[i]), None)
    if k is not None and gc[k].split(" ")[0] == ec[k].split(" ")[0] and gc[k].split(" ")[2:] == ec[k].split(" ")[2:]:
        return ("call-flags", "call %d is about the right node but its flags are %s; documented: %s (0 on a first call, "
                "JSON_C_VISIT_SECOND on a second one, whatever future_flags is)" % (k + 1, gc[k].split(" ")[1], ec[k].split(" ")[1]))
    if len(gc) == len(ec) and all(g.split(" ")[:2] == e.split(" ")[:2] for g, e in zip(gc, ec)):
        k = next(i for i in range(len(gc)) if gc[i] != ec[i])
        return ("call-args", "call %d is about the right node but was given [%s], documented [%s]" % (k + 1, gc[k], ec[k]))
    k = 0
    while k < len(gc) and k < len(ec) and gc[k] == ec[k]:
        k += 1
    prev = code_name(answer(k - 1)) if k > 0 else "start"
    flags_prev = ec[k - 1].split(" ")[1] if k > 0 else "0"
    cls = "seq-after-%s%s" % (prev, "-second" if flags_prev == "2" else "")
    return (cls, "call sequence leaves the documented traversal at call %d (previous answer: %s): got [%s], documented [%s]"
            % (k + 1, prev, gc[k] if k < len(gc) else "end, " + got[-1], ec[k] if k < len(ec) else "end, " + exp[-1]))


def oracle_progs(line, want, impl):
    ps = parse_progs(line)
    outs, info = ref_progs(ps)
    if want is None:
        want = progs_obs(outs)
    if impl == want:
        return None
    got = impl.split(" || ")
    exp = want.split(" || ")
    if len(got) != len(exp) or any(not g.startswith("T%d " % i) for i, g in enumerate(got)):
        return ("malformed", "unexpected driver output: " + impl[:160])
    i = next(j for j in range(len(exp)) if got[j] != exp[j])
    parent, ran_children = info[i]
    if ran_children:
        cls, role = "reentrancy-outer", "a traversal whose callback ran another traversal"
    elif parent >= 0:
        cls, role = "reentrancy-inner", "a traversal started from inside a callback of traversal %d" % parent
    else:
        cls, role = "consecutive", "a traversal that follows earlier ones"
    g, e = got[i].split(" | "), exp[i].split(" | ")
    k = 0
    while k < len(g) and k < len(e) and g[k] == e[k]:
        k += 1
    if k < len(g) and k < len(e) and g[k].split(" ")[:-1] == e[k].split(" ")[:-1] and len(e[k].split(" ")) == 6:
        return ("userarg", "traversal %d, step %d [%s]: the call arrived with %s instead of the user argument given to "
                "json_c_visit for this traversal" % (i, k + 1, e[k], g[k].split(" ")[-1]))
    return (cls, "traversal %d (%s) is not the reference traversal of its own tree and answers: step %d is [%s], documented [%s]"
            % (i, role, k + 1, g[k] if k < len(g) else "end", e[k] if k < len(e) else "end"))


def classify(line, meta, mo, co):
    return None


def nontrivial(line, meta, impl):
    if impl.count(" | ") >= 2 or impl.endswith("ret -1"):
        return line
    return None


# ------------------------------------------------------------------ shrinking
def _tree_variants(v):
    """smaller trees: drop one member, replace one subtree by null, hoist one child"""
    ms = _members(v)
    if ms is None:
        if v is not None:
            yield None
        return
    yield None
    kids = v if isinstance(v, list) else v[1]
    for i in range(len(kids)):
        rest = kids[:i] + kids[i + 1:]
        yield rest if isinstance(v, list) else ("o", rest)
        child = kids[i] if isinstance(v, list) else kids[i][1]
        yield child
        for sub in _tree_variants(child):
            new = kids[:i] + [sub if isinstance(v, list) else (kids[i][0], sub)] + kids[i + 1:]
            yield new if isinstance(v, list) else ("o", new)


def _spine(tree):
    """positions along a longest root-to-leaf path"""
    depth = {}
    order = []
    todo = [tree]
    while todo:                       # post-order by two passes over an explicit list
        x = todo.pop()
        order.append(x)
        k = _kids(x)
        if k:
            todo.extend(k)
    for x in reversed(order):
        k = _kids(x)
        depth[id(x)] = 1 + max((depth[id(c)] for c in k), default=0) if k else 0
    pos, nodes = [], [tree]
    x = tree
    while _kids(x):
        k = _kids(x)
        i = max(range(len(k)), key=lambda j: depth[id(k[j])])
        pos.append(i)
        x = k[i]
        nodes.append(x)
    return nodes, pos


def _with_child(node, i, new):
    if isinstance(node, list):
        return node[:i] + [new] + node[i + 1:]
    return ("o", node[1][:i] + [(node[1][i][0], new)] + node[1][i + 1:])


def _big_variants(tree):
    """cut a segment out of the longest path; drop a block of members of the widest node on it"""
    nodes, pos = _spine(tree)
    d = len(pos)

    def rebuild(upto, new):
        for lvl in range(upto - 1, -1, -1):
            new = _with_child(nodes[lvl], pos[lvl], new)
        return new
    seen = set()
    for frac in (2, 4, 8, 16, 64, 256):
        seg = max(1, d // frac)
        for a in range(0, d - seg + 1, max(1, seg)):
            if (a, seg) in seen or d == 0:
                continue
            seen.add((a, seg))
            yield rebuild(a, nodes[a + seg])
            if len(seen) > 60:
                break
    if d:
        lvl = max(range(d), key=lambda j: len(_kids(nodes[j])))
        k = _kids(nodes[lvl])
        w = len(k)
        if w > 8:
            for frac in (2, 4, 16, 128):
                blk = max(1, w // frac)
                for a in range(0, w, blk):
                    if a <= pos[lvl] < a + blk:
                        continue
                    keep = [j for j in range(w) if not (a <= j < a + blk)]
                    node = nodes[lvl]
                    newnode = [node[j] for j in keep] if isinstance(node, list) else ("o", [node[1][j] for j in keep])
                    # the spine child moved left when the block was before it
                    shift = blk if a < pos[lvl] else 0
                    below = nodes[lvl + 1]
                    newnode = _with_child(newnode, pos[lvl] - shift, below)
                    yield rebuild(lvl, newnode)


def shrink_progs(ck, line, cls):
    ps = parse_progs(line)

    def variants(ps):
        def pv(p):
            tree, sched, nested = p[:3]
            o = p[3] if len(p) > 3 else ""
            if o:
                yield (tree, sched, nested, "")
            if sched:
                yield (tree, [], nested, o)
                yield (tree, sched[:-1], nested, o)
            if not isinstance(tree, str) and tree is not None:
                yield (None, sched, nested, o)
            for i in range(len(nested)):
                yield (tree, sched, nested[:i] + nested[i + 1:], o)
                k, q = nested[i]
                if k > 1:
                    yield (tree, sched, nested[:i] + [(1, q)] + nested[i + 1:], o)
                for qv in pv(q):
                    yield (tree, sched, nested[:i] + [(k, qv)] + nested[i + 1:], o)
        for i in range(len(ps)):
            if len(ps) > 1:
                yield ps[:i] + ps[i + 1:]
            for v in pv(ps[i]):
                yield ps[:i] + [v] + ps[i + 1:]
    best = ps
    for _round in range(12):
        cands = [c for c in itertools.islice(variants(best), 300) if len(progs_line(c)) < len(progs_line(best))]
        if not cands:
            break
        lines = [progs_line(c) for c in cands]
        _, c, _ = ck.run_pair(lines, "shrink")
        ok = [cand for i, (cand, l) in enumerate(zip(cands, lines), start=1)
              if (oracle(l, {}, c.get(i, "MISSING")) or (None,))[0] == cls]
        if not ok:
            break
        best = min(ok, key=lambda c: len(progs_line(c)))
    return progs_line(best)


def shrink(ck, line, cls):
    import time
    if line.count(" ") > 2:
        return shrink_progs(ck, line, cls)
    t_end = time.time() + 40          # large trees: every candidate costs up to a second
    text, tree, sched, opts = parse_line(line)
    if opts:                          # the arguments of json_c_visit: needed for the failure?
        _, c, _ = ck.run_pair([mkline(text, sched)], "shrink")
        v = oracle(mkline(text, sched), {}, c.get(1, "MISSING"))
        if v is not None and v[0] == cls:
            opts = ""
    best = (tree, sched)

    def size(t, s):
        return (_count(t), len(s), sum(1 for c in s if c != CONTINUE), len(dump(t)))
    for _round in range(24):
        if time.time() > t_end:
            break
        t, s = best
        big = _count(t) > 150
        cands = []
        if big:
            for tv in _big_variants(t):
                cands.append((tv, s))
                if s:
                    cands.append((tv, []))
            if s:
                cands.append((t, []))
                cands.append((t, s[:-1]))
        else:
            for i in range(len(s)):
                cands.append((t, s[:i] + s[i + 1:]))
                if s[i] != CONTINUE:
                    cands.append((t, s[:i] + [CONTINUE] + s[i + 1:]))
            if s:
                cands.append((t, s[:-1]))
            for tv in itertools.islice(_tree_variants(t), 400):
                cands.append((tv, s))
        bs = size(*best)
        cands = [c for c in cands if size(*c) < bs]
        if big:
            cands = cands[:10 if bs[0] > 5000 else 24]
        if not cands:
            break
        lines = [mkline(dump(ct), cs, opts) for ct, cs in cands]
        _, c, _ = ck.run_pair(lines, "shrink")
        ok = []
        for i, (cand, l) in enumerate(zip(cands, lines), start=1):
            v = oracle(l, {}, c.get(i, "MISSING"))
            if v is not None and v[0] == cls:
                ok.append(cand)
        if not ok:
            break
        best = min(ok, key=lambda c: size(*c))
    return mkline(dump(best[0]), best[1], opts)


def search(rng, broken_lines):
    out = []
    for l in broken_lines[:20]:
        try:
            text, tree, sched, _opts = parse_line(l)
        except Exception:
            continue
        _decision_tree(tree, text, min(6, len(sched) + 2), 0, out, "search")
    return out[:20000] + gen_random(rng, "quick")


LEVEL_TEXT = ("Machine-checked: for every tree and every callback (an arbitrary function of the call history, so any assignment of the five "
              "codes or an undefined value to calls) the model of _json_c_visit/json_c_visit makes exactly the calls (node, flags, parent, "
              "key or index, depth), in the same order, and returns the same result as an independently formulated reference: the tree "
              "flattened into its pre/post document-order list, walked by a three-mode skip/pop/stop automaton (Coq, induction on the tree "
              "with no bound on size or depth, no axioms).  Corollaries, also for all trees and callbacks: a STOP answer is the last call "
              "and gives 0; an ERROR answer or any undefined value is the last call and gives -1; otherwise 0; SKIP leaves out the whole "
              "subtree; after POP the next call is the parent's second call; the INTERNAL ERROR branches are dead.  The model is tied to "
              "json_visit.c on every run by differential execution of the extracted model and the ASan/UBSan build on all tree shapes up to "
              "5 nodes x all callback behaviours on the first calls, plus random larger trees; a Python reference traversal written from "
              "json_visit.h judges the implementation's output directly.")
LEVEL_NOTE = ("Callbacks that edit the tree (class 'edits': during the first call on a container, that container) are NOT part of the Coq "
              "statement: the model's callback returns an answer only.  For them the check is oracle + correspondence only: the plugin "
              "(settle + ref_visit) and the OCaml glue (settle, then the extracted model) traverse the tree with the edits carried out, "
              "the C driver performs the edits inside the callback.  (A Gallina callback returning answer x edit makes the recursion "
              "non-structural — an editing callback can make the traversal endless, in C as well — so the theorem was not attempted.)  "
              "Trusted: Coq kernel; extraction + OCaml glue; harness (node identity through a pointer table); the reading of json_visit.h in "
              "VisitSpec.v / ref_visit (no second call after SKIP, as json-c's own expected test output shows).  The theorems are about the "
              "Gallina model; the C code is tied to it by the checked correspondence (exhaustive on small trees, sampled beyond).  Callbacks "
              "that modify the tree during the visit are outside the statement.")


# ---- source -> Gallina translator for the header constants this model uses (tr/lib_consts.py; LibImplCheck.v)
LIB_TRANSLATOR = {}


def coq_extra():
    import sys as _sys, os as _os
    import fw as _fw
    _sys.path.insert(0, _os.path.join(_fw.VERIF, "tr"))
    import lib_consts
    files, info = lib_consts.coq_extra_for(_fw)
    LIB_TRANSLATOR.update(info)
    return files


def extra_coverage():
    return dict(lib_translator=dict(LIB_TRANSLATOR))
