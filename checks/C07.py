"""C07 — a JSON array is a sequence with null gaps.  The generator aims indices and counts
at, inside and beyond the current length and capacity (initial capacities 0,1,2,31..33,
growth by doubling, shrink to exact size), at SIZE_MAX-adjacent arguments (refused before
any allocation, or refused by the allocation limit which is always set), and at allocation
refusal.  A second family of histories works on LARGE arrays (capacities 300 .. 65537 slots,
set exactly with shrink or reached by a far put / block appends) and then puts / inserts at
1x .. 3x the capacity, appends across the capacity edge, deletes big ranges, shifts big blocks:
anything in the growth / move arithmetic that depends on the absolute size shows there.
A third family is about sort / bsearch after ANY history: sorts by two comparators (repeated,
alternating), searches, mutators through json_object_array_* AND through array_list_* on
json_object_get_array(arr) (lower-case ops), element values changed in place (json_object_set_int /
set_int64 / set_string on an element): after every sort the array must be a permutation of what it
held, ordered by the comparator on the CURRENT values, and a search must find exactly the present keys.
The comparator contract is part of it: members are ints, strings and records ({"id": n, ...} / [n, ...]),
searches use a key of member shape (B C) or a BARE INT key with a key-vs-member comparator that reads
each argument by its role (K Q); the drivers check the roles on every comparator call (search: first
argument the key, second a slot of the array; sort: both arguments elements of the array) and print
ROLE otherwise; what a search returns must carry the key's id.
A small-scope block ENUMERATES every history of <= 3 operations (thorough: <= 4 over a sub-alphabet) over an
alphabet of 26 operations, each selecting a different branch, for both modes, initial capacities 0/1/2 and a
refusing allocation limit.
Both APIs are driven: array_list_* (mode d) and json_object_array_* (mode j)."""
PROP = "C07"
DOMAIN = "al"
LEVEL = "proof"
TECHNIQUE = "Coq refinement proof (AlProofs.v) + extracted-model/C differential correspondence"
RULE = ("histories of 1..40 array operations (add, put_idx, insert_idx, del_idx, get_idx, shrink, sort, bsearch) generated from "
        "one PRNG with a shadow of (length, capacity) used only to aim indices/counts at the boundaries, plus large-array histories "
        "(capacity 300..65537 slots, indices up to 3x the capacity, block appends M<k>), plus sort/search histories (two comparators, "
        "repeated sorts, mutators through both APIs of one array, in-place value changes V<i>,<v>, searches with member-shaped and "
        "with bare-int keys among int/string/record members, comparator argument roles checked on every call); two API modes; a case is "
        "non-trivial when at least one operation succeeded and the capacity changed or an operation was refused; distinct = "
        "distinct (script) among those")
TRUSTED = ["Coq 8.16.1 kernel (coqc), no axioms (Print Assumptions: closed under the global context)",
           "extraction (ExtrOcamlBasic only) + ocaml/mdrv glue", "harness/drv_al.c, xalloc.c, gcc -fsanitize=address,undefined",
           "libc qsort/bsearch are an oracle: the model sorts/searches with its own verified algorithms and only key sequences / "
           "found-ness are compared (the sorted permutation is proved unique)"]
ASSUMPTIONS = ["LP64: sizeof(void *) = 8, size_t = 64 bits; the all-zero bit pattern written by memset is the NULL pointer",
               "realloc preserves the common prefix; malloc(0) may return a block (glibc); qsort/bsearch are correct for a total-order comparator",
               "size_t wrap-around and out-of-bounds slot accesses are reported as UB by the model (proved unreachable); the C memory model itself is outside the model (ASan/UBSan supporting only)"]
SIZE_MAX = (1 << 64) - 1
MAXSLOTS = SIZE_MAX // 8
INT_MAX = 2147483647
BIG = 1 << 26          # default allocation limit (bytes): 8M slots can never be reached by the small indices used


def estr(e):
    return "n" if e is None else str(e)


# ------------------------------------------------------------------ generator
def gen(rng, tier):
    n = 3000 if tier == "quick" else 200000
    nbig = 80 if tier == "quick" else 3000
    nsort = 400 if tier == "quick" else 20000
    out = gen_small(rng, n - nbig - nsort)
    out += gen_sortmix(rng, nsort)
    out += gen_big(rng, nbig)
    out += gen_smallscope(tier)
    return out


# Small-scope exhaustive pass: EVERY history up to a bound over an alphabet in which each operation selects a
# different branch of arraylist.c / of the json_object_array_* wrappers on arrays of 0..4 elements.
SMALL_ALPHABET = [
    "A4",                          # append (grows 0->1->2->4 from capacity 0/1/2: "max >= size" incl. the just-fits case)
    "An",                          # append NULL
    "P0,3",                        # put inside (releases the overwritten element) / at the end of an empty array
    "P2,1",                        # put beyond the end: NULL gap fill, growth to max(2*size, idx+1)
    "I0,2",                        # insert inside: shift of the whole contents; on an empty array = put
    "I1,n",                        # insert NULL inside / at / beyond the end
    "D0,1",                        # delete the first element (release, shift) / refused on an empty array
    "D1,1",                        # delete the second / refused: idx >= length
    "D0,0",                        # empty range: accepted iff idx < length
    "D0,2",                        # range of two / refused: stop > length
    "D1,18446744073709551615",     # idx + count wraps: the SIZE_MAX guard
    "H0",                          # shrink to the exact size (0 -> 1 slot), no-op when already exact
    "H1",                          # shrink / expand to length + 1
    "S",                           # sort ascending (NULL first)
    "R",                           # sort descending (NULL last)
    "K3",                          # search, bare-int key present/absent, key-vs-member comparator
    "B4",                          # search, member-shaped key
    "Q1",                          # search by the descending comparator
    "V0,5",                        # in-place value change of element 0 (NULL / absent: refused by the setter)
    "G1",                          # read inside / at / past the end
    "P18446744073709551615,4",     # idx > SIZE_MAX - 1: refused before anything
    "P2305843009213693951,4",      # idx + 1 > SIZE_MAX / 8: refused by the growth guard
    "P9,4",                        # far put: new_size = max; refused by the small allocation limit
    "M3,6",                        # three appends in a row across a capacity edge
    "a2",                          # append through array_list_* on json_object_get_array()
    "s",                           # sort through array_list_sort on json_object_get_array()
]
# the operations that decide the shape of a fourth step (thorough tier only)
SMALL_ALPHABET_DEEP = ["A4", "An", "P0,3", "P2,1", "I0,2", "I1,n", "D0,1", "D1,1", "D0,2", "H0", "S", "R", "K3", "V0,5", "a2", "P9,4"]


def gen_smallscope(tier):
    import itertools
    out = []
    # (mode, allocation limit, initial capacity); limit 64 = at most 8 slots, and in mode j at most ... the same 8
    configs = [(m, BIG, i) for m in "dj" for i in (0, 1, 2)] + [(m, 64, 2) for m in "dj"]
    for mode, limit, init in configs:
        head = "al %s %d %d " % (mode, limit, init)
        for ln in (1, 2, 3):
            for seq in itertools.product(SMALL_ALPHABET, repeat=ln):
                out.append((head + ";".join(seq), {"kind": "small-scope"}))
        if tier != "quick":
            for seq in itertools.product(SMALL_ALPHABET_DEEP, repeat=4):
                out.append((head + ";".join(seq), {"kind": "small-scope"}))
    return out


def gen_sortmix(rng, n):
    """sort / bsearch after ANY history: sorts by either comparator (repeated, alternating), searches, the mutators
    of the API in use, the same mutators through array_list_* on json_object_get_array() (lower-case ops),
    in-place changes of element values; small value range so that duplicates and search hits are common"""
    out = []
    for ci in range(n):
        mode = "j" if rng.random() < 0.75 else "d"
        init = rng.choice([0, 1, 2, 4, 8, 32])
        limit = BIG if rng.random() < 0.9 else rng.choice([128, 256, 512])
        sh = []
        cap = init
        by = None                      # comparator the shadow is known to be ordered by
        ops = []
        vmax = rng.choice([6, 20, 60, 1000])

        def val():
            return None if rng.random() < 0.08 else rng.randint(1, vmax)

        def grow(need):
            nonlocal cap
            if need < cap:
                return True
            ns = max(cap * 2, need)
            if ns * 8 > limit:
                return False
            cap = ns
            return True

        def lc(c):                     # through the array_list of the json array, or through the json API
            return c.lower() if rng.random() < 0.45 else c

        def mutate():
            nonlocal by
            L = len(sh)
            r = rng.random()
            if r < 0.30:
                e = val()
                ops.append(lc("A") + estr(e))
                if grow(L + 1):
                    sh.append(e)
            elif r < 0.50:
                i, e = rng.choice([0, L - 1, L, L + 1, L + 3, rng.randint(0, max(L, 1))]), val()
                i = max(i, 0)
                ops.append("%s%d,%s" % (lc("P"), i, estr(e)))
                if grow(i + 1):
                    if i < L:
                        sh[i] = e
                    else:
                        sh.extend([None] * (i - L) + [e])
            elif r < 0.66:
                i, e = rng.choice([0, L - 1, L, L + 2, rng.randint(0, max(L, 1))]), val()
                i = max(i, 0)
                ops.append("%s%d,%s" % (lc("I"), i, estr(e)))
                if i >= L:
                    if grow(i + 1):
                        sh.extend([None] * (i - L) + [e])
                elif grow(L + 1):
                    sh.insert(i, e)
            elif r < 0.90:
                # in place: the array is not told
                i = rng.choice([0, L - 1, L, rng.randint(0, max(L, 1)), rng.randint(0, max(L - 1, 0))])
                i = max(i, 0)
                v = rng.randint(1, vmax)
                ops.append("V%d,%d" % (i, v))
                if i < L and sh[i] is not None:
                    sh[i] = v
            else:
                k = rng.randint(1, 4)
                v0 = rng.randint(1, vmax)
                ops.append("%s%d,%d" % (lc("M"), k, v0))
                for j in range(k):
                    if not grow(len(sh) + 1):
                        break
                    sh.append(v0 + j)
            by = None

        def sort(c=None):
            nonlocal by
            c = c or rng.choice("SSR")
            ops.append(lc(c))
            sh.sort(key=lambda x: (x is not None, x or 0), reverse=(c == "R"))
            by = c

        def search():
            ks = [x for x in sh if x is not None]
            key = rng.choice(ks) if ks and rng.random() < 0.6 else rng.randint(1, vmax + 2)
            if rng.random() < 0.6:         # bare-int key against members of any shape: the comparator's argument roles matter
                ops.append("%s%d" % (lc("K" if by == "S" else "Q"), key))
            else:
                ops.append("%s%d" % (lc("B" if by == "S" else "C"), key))

        for _ in range(rng.randint(1, 4)):
            mutate()
        nops = rng.randint(6, 30)
        while len(ops) < nops:
            L = len(sh)
            r = rng.random()
            if r < 0.22:
                # the shape "sort; changes; sort by the same comparator again; search"
                c = rng.choice("SR")
                if by != c or rng.random() < 0.5:
                    sort(c)
                for _ in range(rng.randint(0, 2)):
                    mutate()
                sort(c)
                search()
            elif r < 0.40:
                sort()
                if rng.random() < 0.3:
                    sort()             # twice in a row, same or other comparator
            elif r < 0.55 and by:
                search()
            elif r < 0.85:
                mutate()
            elif r < 0.92:
                i = rng.choice([0, L - 1, L, rng.randint(0, max(L, 1))])
                i = max(i, 0)
                c = rng.choice([0, 1, 1, 2, max(L - i, 0)])
                ops.append("%s%d,%d" % (lc("D"), i, c))
                if i < L and i + c <= L:
                    del sh[i:i + c]        # a range delete keeps the order
            elif r < 0.96:
                ops.append("%s%d" % (lc("G"), max(rng.choice([0, L - 1, L]), 0)))
            else:
                k = rng.choice([0, 1, 3])
                ops.append("%s%d" % (lc("H"), k))
                ns = L + k
                if ns > cap:
                    grow(ns)
                elif ns != cap and max(ns, 1) * 8 <= limit:
                    cap = max(ns, 1)
        out.append(("al %s %d %d %s" % (mode, limit, init, ";".join(ops)), {"kind": "sortmix-" + mode}))
    return out


# Largest length a large-array history may reach.  This is a limit of the harness, not of the property or
# the theorems: the extracted list functions are not tail-recursive and the native OCaml stack (8 MiB) ends
# somewhere above 250 000 elements (MODEL-EXN stack_overflow); the capacity stays <= 2 * MAXLEN.
MAXLEN = 100000


def gen_big(rng, n):
    """large arrays: the capacity is set exactly (shrink), or reached by one far put or by block appends; then
    far puts/inserts at 1x..3x the capacity, appends across the capacity edge, big range deletes, big shifts"""
    import math
    out = []
    for ci in range(n):
        mode = "d" if rng.random() < 0.5 else "j"
        init = rng.choice([0, 1, 2, 31, 32, 33, 32, 8])
        r = rng.random()
        if r < 0.40:
            t = (1 << rng.choice([8, 9, 10, 11, 12, 13, 13, 14, 14, 15])) + rng.choice([-1, 0, 0, 1])
        elif r < 0.47:
            t = (1 << 16) + rng.choice([-1, 0, 1])
        else:
            t = int(math.exp(rng.uniform(math.log(300), math.log(20000))))
        limit = BIG
        if rng.random() < 0.15:
            limit = int(8 * t * rng.choice([1, 1.3, 1.6, 2.2, 3.5]))
        sh = []
        cap = init
        nid = [rng.randint(1, 500)]
        ops = []

        def fresh():
            if rng.random() < 0.1:
                return None
            nid[0] += rng.choice([1, 2, 50])
            return nid[0]

        def grow(need):
            nonlocal cap
            if need < cap:
                return True
            ns = max(cap * 2, need)
            if ns * 8 > limit:
                return False
            cap = ns
            return True

        def do_put(i, e, ins):
            L = len(sh)
            i = min(i, MAXLEN - 1)
            ops.append("%s%d,%s" % ("I" if ins else "P", i, estr(e)))
            if i >= L:
                if grow(i + 1):
                    sh.extend([None] * (i - L) + [e])
            elif ins:
                if grow(L + 1):
                    sh.insert(i, e)
            elif grow(i + 1):
                sh[i] = e

        def do_many(k):
            k = max(1, min(k, 2000000 // max(cap, 1000), MAXLEN - 1 - len(sh)))      # bounded model cost: k * capacity
            ops.append("M%d,%d" % (k, nid[0] + 1))
            for j in range(k):
                if not grow(len(sh) + 1):
                    break
                sh.append(nid[0] + 1 + j)
            nid[0] += k

        def do_shrink(k):
            nonlocal cap
            if len(sh) + k >= MAXLEN:
                k = 0
            ops.append("H%d" % k)
            ns = len(sh) + k
            if ns == cap:
                return
            if ns > cap:
                grow(ns)
            elif max(ns, 1) * 8 <= limit:
                cap = max(ns, 1)

        # some real content first (cheap while the array is small)
        if rng.random() < 0.6:
            do_many(rng.choice([1, 5, 33, 100, 300, 700]))
        # reach the target capacity
        r = rng.random()
        if r < 0.45:
            do_shrink(max(t - len(sh), 0))                      # capacity exactly t
        elif r < 0.85:
            do_put(max(t - 1, len(sh)), fresh(), rng.random() < 0.3)    # length t
        else:
            do_shrink(max(t - len(sh) - 40, 0))
            do_many(40 + rng.choice([-1, 0, 1, 2]))             # appends up to / across the capacity edge
        for _ in range(rng.randint(3, 7)):
            L = len(sh)
            r = rng.random()
            if r < 0.35:
                f = rng.choice([1, 1.25, 1.5, 1.5, 1.51, 1.75, 2, 2, 2.5, 3])
                i = int(f * cap) + rng.choice([-1, 0, 1])
                if i >= MAXLEN:
                    i = int(1.5 * cap) + 1
                do_put(max(i, 0), fresh(), rng.random() < 0.4)
            elif r < 0.48:
                i = rng.choice([L - 1, L, L + 1, cap - 1, cap, cap + 1, 0, L // 2])
                do_put(max(i, 0), fresh(), rng.random() < 0.6)
            elif r < 0.56:
                e = fresh()
                ops.append("A" + estr(e))
                if grow(L + 1):
                    sh.append(e)
            elif r < 0.66:
                room = cap - L
                do_many(room + rng.choice([-1, 0, 1, 2]) if 0 < room <= 60 else rng.randint(1, 40))
            elif r < 0.80:
                i = rng.choice([0, L // 2, max(L - 1, 0), rng.randint(0, max(L - 1, 0)), L, 1])
                c = rng.choice([L - i, L - i, max(L - i - 1, 0), (L - i) // 2, 1, 0, L - i + 1, L, SIZE_MAX - i])
                c = max(c, 0)
                ops.append("D%d,%d" % (i, c))
                if i < L and i + c <= L:
                    del sh[i:i + c]
            elif r < 0.86:
                ops.append("G%d" % max(rng.choice([L - 1, L, cap - 1, cap, 2 * cap, rng.randint(0, max(L, 1))]), 0))
            elif r < 0.95:
                k = rng.choice([0, 0, 1, cap - L, cap - L + 1, cap - L - 1, (1 << rng.randint(8, 15)) - L, 2 * cap - L])
                do_shrink(max(k, 0))
            else:
                ops.append("S")
                sh.sort(key=lambda x: (x is not None, x or 0))
                ks = [x for x in sh if x is not None]
                ops.append("B%d" % (rng.choice(ks) if ks and rng.random() < 0.6 else rng.randint(1, 100000)))
        out.append(("al %s %d %d %s" % (mode, limit, init, ";".join(ops)), {"kind": "large-" + mode}))
    return out


def gen_small(rng, n):
    out = []
    for ci in range(n):
        mode = "d" if rng.random() < 0.5 else "j"
        init = rng.choice([0, 0, 1, 2, 31, 32, 33, 32, 3, 8, 16, 5, -1 if rng.random() < 0.3 else 4])
        limit = rng.choice([BIG] * 7 + [128, 256, 264, 512, 1024, 2048])
        kind = "mixed" if limit == BIG else "alloc-limit"
        sh = []                 # shadow contents (aiming only)
        cap = max(init, 0)
        nxt = [1]
        issorted = False
        ops = []

        def fresh():
            r = rng.random()
            if r < 0.10:
                return None
            if r < 0.17 and sh:
                c = [x for x in sh if x is not None]
                if c:
                    return rng.choice(c)
            nxt[0] += rng.choice([1, 1, 2, 7])
            return (nxt[0] * 7919) % 1000 + 1 if rng.random() < 0.5 else nxt[0]

        def grow(need):         # shadow of the growth policy; returns False when the limit refuses
            nonlocal cap
            if need < cap:
                return True
            ns = max(cap * 2, need)
            if ns * 8 > limit:
                return False
            cap = ns
            return True

        def aim_idx():
            L = len(sh)
            c = [0, L - 1, L, L + 1, L + 2, cap - 1, cap, cap + 1, 2 * cap - 1, 2 * cap, 2 * cap + 1,
                 rng.randint(0, max(L, 1)), L + rng.randint(1, 40), L // 2]
            i = rng.choice(c)
            if i < 0:
                i = 0
            if i > 260:
                i = rng.randint(0, L + 3)
            return i

        nops = rng.randint(1, 25 if rng.random() < 0.9 else 40)
        while len(ops) < nops:
            L = len(sh)
            r = rng.random()
            if r < 0.20:
                e = fresh()
                ops.append("A" + estr(e))
                if grow(L + 1):
                    sh.append(e)
                issorted = False
            elif r < 0.37:
                i, e = aim_idx(), fresh()
                ops.append("P%d,%s" % (i, estr(e)))
                if grow(i + 1):
                    if i < L:
                        sh[i] = e
                    else:
                        sh.extend([None] * (i - L) + [e])
                issorted = False
            elif r < 0.51:
                i, e = aim_idx(), fresh()
                ops.append("I%d,%s" % (i, estr(e)))
                if i >= L:
                    if grow(i + 1):
                        sh.extend([None] * (i - L) + [e])
                elif grow(L + 1):
                    sh.insert(i, e)
                issorted = False
            elif r < 0.66:
                if L and rng.random() < 0.55:       # inside: single element, tail, whole range, empty range
                    i = rng.choice([0, L - 1, rng.randrange(L), L // 2])
                    c = rng.choice([0, 1, 1, L - i, rng.randint(0, L - i), max(L - i - 1, 0)])
                else:
                    i = rng.choice([0, L - 1, L, L + 1, rng.randint(0, max(L, 1)), L // 2, max(L - 2, 0)])
                    i = max(i, 0)
                    c = rng.choice([0, 1, 2, L - i, L - i + 1, L - i - 1, rng.randint(0, max(L, 1)), L,
                                    SIZE_MAX, SIZE_MAX - i, SIZE_MAX - i + 1, SIZE_MAX - 1, MAXSLOTS])
                c = min(max(c, 0), SIZE_MAX)
                if c > L + 2:
                    kind = "size-max" if kind == "mixed" else kind
                ops.append("D%d,%d" % (i, c))
                if i < L and i + c <= L:
                    del sh[i:i + c]
                issorted = False if c else issorted
            elif r < 0.74:
                i = rng.choice([0, L - 1, L, L + 1, cap, cap + 1, SIZE_MAX, SIZE_MAX - 1, MAXSLOTS, rng.randint(0, max(L, 1)), 1 << 32])
                ops.append("G%d" % max(i, 0))
            elif r < 0.80:
                c = [0, 0, 1, cap - L, cap - L - 1, cap - L + 1, rng.randint(0, 40), INT_MAX]
                if mode == "d":
                    c += [MAXSLOTS - L, MAXSLOTS - L - 1, MAXSLOTS - L + 1, SIZE_MAX, 1 << 40]
                k = max(rng.choice(c), 0)
                if 300 < k < (1 << 24):
                    k = 7
                ops.append("H%d" % k)
                ns = L + k
                if k < MAXSLOTS - L and ns != cap:
                    if ns > cap:
                        grow(ns)
                    elif max(ns, 1) * 8 <= limit:
                        cap = max(ns, 1)
            elif r < 0.88:
                ops.append("S")
                sh.sort(key=lambda x: (x is not None, x or 0))
                issorted = True
                for _ in range(rng.randint(0, 3)):
                    ks = [x for x in sh if x is not None]
                    k = rng.choice(ks) if ks and rng.random() < 0.6 else rng.randint(1, 1100)
                    if mode == "d" and rng.random() < 0.05:
                        ops.append("Bn")
                    elif rng.random() < 0.5:
                        ops.append("K%d" % k)
                    else:
                        ops.append("B%d" % k)
            elif r < 0.90 and issorted:
                ops.append("B%d" % rng.randint(1, 1100))
            else:
                # SIZE_MAX-adjacent / huge indices: refused before any allocation (index + 1 > SIZE_MAX / 8 slots)
                # or by the allocation limit (requests of >= 128 MiB)
                if kind == "mixed":
                    kind = "size-max"
                i = rng.choice([SIZE_MAX, SIZE_MAX - 1, SIZE_MAX - 2, MAXSLOTS - 1, MAXSLOTS, MAXSLOTS + 1, MAXSLOTS // 2, MAXSLOTS // 2 + 1,
                                SIZE_MAX // 2, SIZE_MAX // 2 + 1, 1 << 63, 1 << 32, (1 << 32) - 1, 1 << 31, 1 << 24, (1 << 61) - 1, 1 << 61])
                ops.append("%s%d,%s" % (rng.choice("PI"), i, estr(fresh())))
        out.append(("al %s %d %d %s" % (mode, limit, init, ";".join(ops)), {"kind": kind + "-" + mode}))
    return out


# ------------------------------------------------------------------ the direct oracle
def sort_model(lst, desc):
    """the comparator of the drivers: NULL first then ascending value; the descending one is its reverse"""
    return sorted(lst, key=skey, reverse=desc)


def skey(x):
    return (x is not None, x or 0)


def parse_elt(s):
    return None if s == "n" else int(s)


def parse_seq(s):
    """decode a run-length encoded sequence: e | e*k (k copies) | e+k (k consecutive ids) | - (empty)"""
    if s == "-":
        return []
    out = []
    for it in s.split(","):
        if "*" in it:
            e, k = it.split("*")
            out.extend([parse_elt(e)] * int(k))
        elif "+" in it:
            e, k = it.split("+")
            out.extend(range(int(e), int(e) + int(k)))
        else:
            out.append(parse_elt(it))
    return out


def parse_ids(s):
    return parse_seq(s)


def parse_step(s):
    t = s.split(" ")
    if len(t) != 6:
        return None
    try:
        return dict(ret=t[0], len=int(t[1]), size=int(t[2]), rel=parse_ids(t[3]),
                    data=parse_seq(t[4]), past=t[5])
    except ValueError:
        return None


def apply_op(lst, op, limit):
    """the plain list model of the property statement (independent of the Coq model).
    returns (in_range, new_list, released, needed_slots or None when no allocation is involved)"""
    k = op[0]
    L = len(lst)
    if k == "A":
        return L + 1 <= MAXSLOTS, lst + [parse_elt(op[1:])], [], L + 1
    if k == "P" or k == "I":
        i, e = op[1:].split(",")
        i, e = int(i), parse_elt(e)
        if max(i, L) + 1 > MAXSLOTS or (i + 1) * 8 > limit:
            # out of range, or the slots needed alone exceed the allocation limit: never materialised here
            return max(i, L) + 1 <= MAXSLOTS, None, [], max(i, L) + 1
        if i >= L:
            return True, lst + [None] * (i - L) + [e], [], i + 1
        if k == "P":
            return True, lst[:i] + [e] + lst[i + 1:], ([lst[i]] if lst[i] is not None else []), i + 1
        return True, lst[:i] + [e] + lst[i:], [], L + 1
    if k == "D":
        i, c = [int(x) for x in op[1:].split(",")]
        ok = i < L and i + c <= L
        if not ok:
            return False, None, [], None
        return True, lst[:i] + lst[i + c:], [x for x in lst[i:i + c] if x is not None], None
    if k == "H":
        n = int(op[1:])
        return n < MAXSLOTS - L, lst, [], L + n
    if k == "S":
        return True, sorted(lst, key=skey), [], None
    raise ValueError(op)


def oracle(line, meta, impl):
    if "CRASH" in impl:
        return ("crash", "implementation crashed: " + impl[-120:])
    if impl == "MISSING":
        return ("crash", "no output for the case")
    _, mode, limit, init, ops = line.split(" ", 4)
    limit, init = int(limit), int(init)
    ops = ops.split(";")
    if "LEAK" in impl:
        return ("leak", "element or allocation leaked: " + impl[-60:])
    if "ROLE" in impl:
        nrole = impl.split(" | ").index([x for x in impl.split(" | ") if x.startswith("ROLE")][0]) if any(
            x.startswith("ROLE") for x in impl.split(" | ")) else -1
        return ("comparator-roles", "a comparator was called outside its contract (search: first argument the key, second an "
                "array member; sort: both arguments elements of the array) at op %d (%s)" % (nrole, ops[nrole][:30] if 0 <= nrole < len(ops) else "?"))
    if "BADOP" in impl or "BADLINE" in impl or "BADSET" in impl:
        return ("malformed", "driver rejected the script: " + impl[-60:])
    if impl == "NEWFAIL":
        if 0 <= init and init * 8 <= limit and limit >= 64:
            return ("new-failed", "array creation with capacity %d failed although memory was available" % init)
        return None
    if init < 0:
        return ("new-accepted", "array created with negative capacity %d" % init)
    parts = impl.split(" | ")
    if len(parts) != len(ops) + 1 or not parts[-1].startswith("F "):
        return ("malformed", "unexpected driver output: " + impl[:120])
    steps = [parse_step(s) for s in parts[:-1]]
    if any(s is None for s in steps):
        return ("malformed", "unexpected driver output: " + impl[:120])
    lst = []
    size = init
    for n, (op, st) in enumerate(zip(ops, steps)):
        where = "at op %d (%s)" % (n, op[:40])
        if st["len"] != len(st["data"]):
            return ("length", "reported length %d but %d readable elements %s" % (st["len"], len(st["data"]), where))
        if st["len"] > st["size"]:
            return ("bounds", "length %d beyond capacity %d %s" % (st["len"], st["size"], where))
        if st["past"] != "1":
            return ("past-end", "a read past the end did not yield null %s" % where)
        k = op[0].upper()       # lower case = the same operation through array_list_* on json_object_get_array()
        direct = op[0].islower()
        op = k + op[1:]
        if k == "G":
            i = int(op[1:])
            want = estr(lst[i]) if i < len(lst) else "n"
            if st["ret"] != want:
                return ("get", "get_idx(%d) returned %s, the list model has %s %s" % (i, st["ret"], want, where))
            if st["data"] != lst or st["rel"]:
                return ("observer-changed", "a read changed the array %s" % where)
            size = st["size"]
            continue
        if k == "B" or k == "C":
            key = parse_elt(op[1:])
            if st["data"] != lst or st["rel"]:
                return ("observer-changed", "a search changed the array %s" % where)
            # defined only on an array ordered by the comparator used (json_object_array_bsearch cannot report a found NULL)
            if lst == sort_model(lst, k == "C") and not (key is None and mode == "j" and not direct):
                want = "f" if key in lst else "nf"
                if st["ret"] != want:
                    return ("bsearch", "bsearch(%s) = %s but the list model says %s %s" % (estr(key), st["ret"], want, where))
            continue
        if k == "K" or k == "Q":
            # heterogeneous search: the key is a bare int, the members are ints, strings or records
            key = int(op[1:])
            if st["data"] != lst or st["rel"]:
                return ("observer-changed", "a search changed the array %s" % where)
            if st["ret"] != "nf" and st["ret"] != "f%d" % key:
                # sorted array or not: whatever is returned must be a member carrying the key's id
                return ("bsearch-wrong-element", "bsearch for id %d returned %s %s" % (key, st["ret"], where))
            if lst == sort_model(lst, k == "Q"):
                want = "f%d" % key if key in lst else "nf"
                if st["ret"] != want:
                    return ("bsearch", "bsearch for id %d = %s but the list model says %s %s" % (key, st["ret"], want, where))
            continue
        if k == "S" or k == "R":
            # whatever happened before (earlier sorts by this or the other comparator, elements stored through
            # either API, values changed in place): a permutation of the current contents, ordered by the comparator
            if st["ret"] != "0" or st["rel"]:
                return ("ret", "sort returned %s / released %s %s" % (st["ret"], st["rel"][:5], where))
            want = sort_model(lst, k == "R")
            if sorted(st["data"], key=skey) != sorted(lst, key=skey):
                return ("sort-not-permutation", "sort did not leave a permutation of the contents %s: before %s after %s" % (
                    where, ",".join(estr(x) for x in lst)[:80], ",".join(estr(x) for x in st["data"])[:80]))
            if st["data"] != want:
                return ("sort-not-ordered", "after the sort the array is not ordered by the comparator %s: got %s want %s" % (
                    where, ",".join(estr(x) for x in st["data"])[:80], ",".join(estr(x) for x in want)[:80]))
            lst = want
            size = st["size"]
            continue
        if k == "V":
            # value of element i changed in place (the array is not called): 1 when there is an element, else 0
            i, v = [int(x) for x in op[1:].split(",")]
            has = i < len(lst) and lst[i] is not None
            if st["ret"] != ("1" if has else "0"):
                return ("setval-ret", "in-place value change returned %s %s" % (st["ret"], where))
            new = lst[:i] + [v] + lst[i + 1:] if has else lst
            if st["data"] != new or st["rel"]:
                return ("contents", "contents after an in-place value change differ from the list model %s" % where)
            lst = new
            size = st["size"]
            continue
        if k == "M":
            # k appends, stopping at the first refusal: the result is the list plus a prefix of the ids
            cnt, id0 = [int(x) for x in op[1:].split(",")]
            j = st["len"] - len(lst)
            if st["ret"] not in ("0", "-1") or st["rel"]:
                return ("ret", "block append returned %s / released %s %s" % (st["ret"], st["rel"][:5], where))
            if not (0 <= j <= cnt) or st["data"] != lst + list(range(id0, id0 + j)):
                return ("contents", "contents after appending differ from the list model %s" % where)
            if st["ret"] == "0" and j != cnt:
                return ("contents", "block append reported success after %d of %d appends %s" % (j, cnt, where))
            if st["ret"] == "-1":
                need = len(lst) + j + 1           # the refused append
                if j == cnt or need < st["size"] or max(2 * st["size"], need, 1) * 8 <= limit:
                    return ("spurious-failure", "append failed although no allocation could have been refused %s" % where)
            lst = st["data"]
            size = st["size"]
            continue
        in_range, new, rel, need = apply_op(lst, op, limit)
        if st["ret"] not in ("0", "-1"):
            return ("ret", "operation returned %s %s" % (st["ret"], where))
        if st["ret"] == "-1":
            if st["data"] != lst or st["rel"] or st["len"] != len(lst):
                return ("failed-op-changed", "a failed operation changed the array %s" % where)
            if in_range:
                # only an allocation refusal can justify the failure: the growth policy never asks for more
                # than max(2 * capacity, needed) slots
                if need is None or (need < size and k != "H") or (k == "H" and need == size) \
                        or max(2 * size, need, 1) * 8 <= limit:
                    return ("spurious-failure", "in-range operation failed although no allocation could have been refused %s" % where)
            size = st["size"]
            continue
        if not in_range:
            return ("oob-accepted", "operation with out-of-range arguments was accepted %s" % where)
        if new is None:
            return ("huge-accepted", "operation needing %d slots accepted under allocation limit %d %s" % (need, limit, where))
        if st["data"] != new:
            return ("contents", "contents differ from the list model %s: got %s want %s" % (
                where, ",".join(estr(x) for x in st["data"])[:80], ",".join(estr(x) for x in new)[:80]))
        if st["rel"] != rel:
            return ("released", "released elements %s, the list model releases %s %s" % (st["rel"], rel, where))
        lst = new
        size = st["size"]
    fin = parse_ids(parts[-1][2:].strip() or "-")
    want = [x for x in lst if x is not None]
    if fin != want:
        return ("released-at-free", "destruction released %s, the list model holds %s" % (fin[:20], want[:20]))
    return None


def classify(line, meta, mo, co):
    return None


def nontrivial(line, meta, impl):
    steps = [s for s in impl.split(" | ") if not s.startswith("F")]
    toks = [s.split(" ") for s in steps]
    toks = [t for t in toks if len(t) == 6]
    oks = [t for t in toks if t[0] != "-1"]
    sizes = set(t[2] for t in toks)
    if oks and (len(sizes) > 1 or len(oks) < len(toks)):
        return line
    return None


def shrink(ck, line, cls):
    import fw
    head, mode, limit, init, ops = line.split(" ", 4)
    ops = ops.split(";")

    def fails(sub):
        l = "%s %s %s %s %s" % (head, mode, limit, init, ";".join(sub))
        m, c, _ = ck.run_pair([l], "shrink")
        v = oracle(l, {}, c.get(1, "MISSING"))
        return v is not None and v[0] == cls
    small = fw.ddmin(ops, fails, budget=60)
    return "%s %s %s %s %s" % (head, mode, limit, init, ";".join(small))


def search(rng, broken_lines):
    return gen(rng, "quick")[:800]


LEVEL_TEXT = ("Machine-checked refinement: for every allocator behaviour, every initial capacity and every operation history the array-list "
              "model keeps its invariant (length <= size = |slots|, size * sizeof(void*) fits a size_t, live slots determinate), its length and "
              "the element at every index equal those of a plain list with null gaps (add, put with null fill, insert with shift, range "
              "delete, shrink), reads past the end yield null, out-of-range arguments fail with the array unchanged, every write lies inside "
              "the capacity, no size_t wrap or out-of-bounds access is reachable, the released elements are exactly the overwritten/deleted "
              "non-null ones and each element is released exactly once up to destruction; in every reachable state (after any history, "
              "including earlier sorts by either comparator and in-place changes of element values) the model's merge sort yields the unique "
              "permutation of the current contents ordered by the comparator given, a function of contents and comparator alone, and its two-sorted "
              "binary search (comparator cmp : key -> member -> comparison for an arbitrary key type, compatible with the member order) "
              "returns only members the comparator calls equal to the key and NULL only when there is none; instantiated for member-shaped "
              "and for bare-id keys (Coq, induction over histories, no axioms).  The model is tied "
              "to arraylist.c and to the json_object_array_* functions of json_object.c on every run by differential execution of the "
              "extracted model and the ASan/UBSan build on generated histories aimed at the proof's case-split boundaries.")
LEVEL_NOTE = ("Trusted: Coq kernel; extraction + OCaml glue; harness; libc malloc/realloc/qsort/bsearch (qsort/bsearch are compared through key "
              "sequences / found-ness only); the theorems are about the Gallina model, the C code is tied to it only by the checked "
              "correspondence (sampled histories, not all).  Runs reach arrays of at most 100 000 elements / 200 000 slots (stack limit of the "
              "extracted model driver); larger arrays, and those above 2^60 slots, are covered by the theorems but not by any run.")
