"""C08 — one allocation failure gives a clean failure: no leak, crash or corruption.

Stream `oom` (harness/drv_oom.c): a workload is a small program over ten registers; its setup
part runs fault-free, its test part is first run fault-free (N = allocations requested, the
normal results) and then once per k in 0..N-1 in a fresh state with the k-th allocation
refused.  Per k the driver reports the outcome class (normal / documented failure / anything
else), whether every result that WAS returned equals the fault-free one, whether every object
the caller still owns dumps as before the failing call, and the number of blocks still live
after the caller released everything it owns.  ASan turns a use after free / double free /
NULL dereference into a CRASH.  Thorough tier adds sampled double faults.

Direct oracle (model independent): every k must be  N (all results as fault-free)  or
F (documented failure, owned objects unchanged), with 0 blocks leaked.

Model stream: ocaml/drv_oom.ml predicts, from the allocation-aware Coq models (AllocModel.v),
N and every per-k token for the operation kinds those models decide (object add, array add /
put / insert, string set, new_double_s, new_string, serialization of a tree); `?` elsewhere."""
import re
import fw
import jvtext
import jsongen

PROP = "C08"
DOMAIN = "oom"
LEVEL = "proof"
TECHNIQUE = ("Coq proofs over allocation-aware models with an arbitrary allocator oracle (AllocProofs.v, importing the "
             "C19/C07/C06/C11 developments) + exhaustive single-fault enumeration on the ASan build (every allocation index "
             "of every workload), differential against the extracted models for the modelled operations")
RULE = ("workloads = fixed boundary corpus (objects crossing the table growth at 12/23 members, arrays crossing 32/64 slots, strings "
        "across the inline threshold and >= 200 bytes, parse texts that allocate at every site, deep copies, pointer sets, patches; containers "
        "whose capacity was left by an earlier fault-free history — parsed, shrunk to fit, shrunk with slack, grown, deep-copied — then each "
        "modifying route (put/insert/add, pointer set, in-place patch) at first / last / one-past / far index; the print-buffer API used "
        "operations that need no memory or give it back — del_idx single/bulk on 33..300 elements leaving 0, 1, cap/4-1, cap/4, cap/4+1, "
        "shrink, object_del, in-place put/set/inc, JSON Patch remove/move on big arrays — each also with EVERY request refused; "
        "directly: sprintbuf with eight formats and output lengths 0..5000 around 127|128 and around the current capacity, memappend, memset) + "
        "PRNG-generated trees/texts; every allocation index k of the test part is failed in turn (thorough: + sampled double faults); "
        "a case is non-trivial when N > 0 and at least one k ends in a documented failure; distinct = distinct script line among those")
TRUSTED = ["Coq 8.16.1 kernel (coqc), no axioms (Print Assumptions: closed under the global context)",
           "extraction (ExtrOcamlBasic only) + ocaml/mdrv glue (ocaml/drv_oom.ml)",
           "harness/drv_oom.c (carries its own copy of json_tokener.c, compiled from the working tree, with duplocale/newlocale/freelocale wrapped), "
           "xalloc.c (compile-time malloc/calloc/realloc/strdup/free renames), gcc -fsanitize=address,undefined",
           "allocations made by libc on the library's behalf (vasprintf, snprintf) are not interposed (duplocale/newlocale are wrapped): they cannot be "
           "failed, but they are accounted (sanitizer heap statistics before the run / after the caller released everything)"]
ASSUMPTIONS = ["a failing allocator returns NULL and leaves existing blocks intact (realloc keeps the old block)",
               "the caller follows the documented ownership rules: a value whose add/insert/set failed is still the caller's and is released by it",
               "faults inside libc's own allocations (vasprintf in sprintbuf/json_pointer_*f, locale objects) are outside the interposed set",
               "json_patch_apply in place (*base given) may keep the effects of earlier operations after a failure (documented); the check uses copy mode"]
LEVEL_TEXT = ("Machine-checked, for EVERY input and EVERY allocator behaviour (arbitrary fault sets, hence every single index k and every "
              "double fault): print buffer, array list, hash table / object add, string setter and string constructor either complete with "
              "their specified result or fail leaving their state exactly as it was, and never reach undefined behaviour (re-exported from the "
              "C19/C07/C06/C11 developments in the uniform shape op_fault_clean); NEW allocation-aware models with a ledger of live blocks, written "
              "as the C code is: json_object_object_add (key copy, table growth with its two allocations, roll-back) — no block leaked, none freed "
              "twice, table unchanged on failure; the serializer over the fallible print buffer — a returned text is the fault-free text; the "
              "tokener's attach step (array/object add of the finished child) — the child is released exactly once when attaching fails; the "
              "constructors with roll-back (new_double_s, new_object, new_array, printbuf_new, tokener_new); sprintbuf with its vasprintf temporary on "
              "either side of the 128-byte stack buffer (contents per C19, the temporary released exactly once on every path); "
              "json_c_set_serialization_double_format over C02's settings model (SerModel.set_format): -1 leaves the configuration, hence every "
              "thread's effective format, and the live blocks exactly as they were; json_object_array_del_idx (asks the allocator for nothing: "
              "range released once, capacity kept, refusal changes nothing) and json_object_array_shrink (may fail: array unchanged); the tokener's "
              "temporary numeric locale (duplocale, newlocale as requests: on failure the copy is released; set-up / parse / tear-down releases it once).  Each repaired defect has a negative "
              "control: the original code shape is kept as a second definition with a *_refuted theorem whose witness is evaluated by vm_compute. "
              "PARTIAL: the tokener's other allocation sites (token buffer appends, node constructors, member-name copy inside the state machine), "
              "json_tokener_parse_verbose / json_object_from_fd_ex, deep copy, JSON pointer get/set, JSON patch, json_object_get_string of a "
              "non-string are NOT covered by theorems; they are covered only by the exhaustive-k "
              "fault enumeration of this check on the sampled workloads (every allocation index of each workload, plus sampled double faults "
              "in the thorough tier).")
LEVEL_NOTE = ("Trusted: Coq kernel; extraction + OCaml glue; harness and allocator interposition; ASan/UBSan.  The theorems are about the Gallina models; "
              "json-c is tied to them by differential execution (N and every per-k outcome of the modelled operations) and, for the unmodelled "
              "operations (tokener beyond the attach step, deep copy, pointer, patch), only by the runtime enumeration — sampled workloads, all k.")

KNOWN_CLASSES_ORDER = ["crash", "wrong_result", "ser_holes", "owned_object_changed", "object_add_key_leak", "parse_child_leak",
                       "locale_object_leak", "leak", "malformed"]


def hx(b):
    return b.hex() if b else "-"


# ------------------------------------------------------------------ workload builders
def obj_n(n, val="i%d", prefix=b"k"):
    return "{" + ",".join("%s=%s" % (hx(prefix + str(i).encode()), (val % i) if "%" in val else val) for i in range(n)) + "}"


def arr_n(n, val="i%d"):
    return "[" + ",".join((val % i) if "%" in val else val for i in range(n)) + "]"


def line(ks, setup, test):
    return "oom %s %s %s" % (ks, ";".join(setup) if setup else "-", ";".join(test))


def tp(d, flags, depth, text, cuts=()):
    chunks, last = [], 0
    for c in list(cuts) + [len(text)]:
        chunks.append(text[last:c])
        last = c
    return "tp%d,%d,%d,%s" % (d, flags, depth, "/".join(hx(c) for c in chunks))


LONG = bytes((0x61 + i % 26) for i in range(260))
LONG_ESC = (b'ab"c\\d/e\n\tf\x01\x1f' * 24)
MIXED = "{61=[i1,s6161,d3ff8000000000000:312e35,n,t],62={63=n,64=[[i1],[]],65=s%s},66=u18446744073709551615,67=d4005bf0a8b145769}" % hx(LONG[:40])


def corpus():
    out = []

    def add(kind, setup, test, ks="*"):
        out.append((line(ks, setup, test), {"kind": kind}))
    # ---- object add: below / at / above the growth points of the table (16 -> 32 -> 64)
    for m in (0, 1, 10, 11, 12, 21, 22, 23, 43):
        add("object_add", ["b0=" + obj_n(m), "b1=i7"], ["oa0,1,%s" % hx(b"new")])
    add("object_add", ["b0=" + obj_n(11), "b1=[i1,{61=s62}]"], ["oa0,1,%s" % hx(b"child")])
    add("object_add", ["b0=" + obj_n(11), "b1=i7"], ["oa0,1,%s" % hx(b"k3")])            # replace: no allocation
    add("object_add", ["b0=" + obj_n(11), "b1=i7"], ["oa0,1,%s,4" % hx(b"const")])        # constant key
    add("object_add", ["b0=" + obj_n(11), "b1=i7"], ["oa0,1,%s,2" % hx(b"isnew")])        # key is new
    add("object_add", ["b0=" + obj_n(11), "b1=i7", "b2=s6161"], ["oa0,1,%s" % hx(b"x"), "oa0,2,%s" % hx(b"y")])
    # ---- arrays: capacity 32, doubling
    for n in (0, 31, 32, 33, 63, 64):
        add("array_add", ["b0=" + arr_n(n), "b1={61=i1}"], ["aa0,1"])
    add("array_put", ["b0=" + arr_n(3), "b1=s61"], ["ap0,1,40"])
    add("array_put", ["b0=" + arr_n(3), "b1=s61"], ["ap0,1,1"])
    add("array_put", ["b0=" + arr_n(32), "b1=s61"], ["ap0,1,32"])
    add("array_insert", ["b0=" + arr_n(32), "b1=[i1]"], ["ai0,1,0"])
    add("array_insert", ["b0=" + arr_n(5), "b1=[i1]"], ["ai0,1,70"])
    add("array_shrink", ["b0=" + arr_n(5)], ["as0,0"])
    add("array_shrink", ["b0=" + arr_n(40)], ["as0,3"])
    # ---- containers whose capacity is what an EARLIER operation left: exactly the length after a parse
    #      (the tokener shrinks on ']') or json_object_array_shrink(a, 0), length + n after shrink(a, n),
    #      doubled after a growth; then every modifying operation at the boundary positions
    #      (first, last, one past the last, far beyond) through each route: array_*_idx, add,
    #      json_pointer_set, json_patch in place
    def jarr(n, val=b"%d"):
        return b"[" + b",".join((val % i) if b"%" in val else val for i in range(n)) + b"] "
    for n in (1, 3, 32, 33):
        sources = [("shrunk", ["b0=" + arr_n(n, val="s%02x"), "as0,0"]),
                   ("parsed", [tp(0, 0, 32, jarr(n, val=b'"e%d"'))])]
        if n in (3, 32):
            sources.append(("shrunk+2", ["b0=" + arr_n(n), "as0,2"]))
            sources.append(("grown", ["b0=" + arr_n(n), "as0,0", "b2=i7", "aa0,2"]))
        for tag, src in sources:
            ln = n + 1 if tag == "grown" else n
            child = ["b1={61=[i1]}"]
            for idx in sorted(set([0, ln - 1, ln, ln + 1, ln + 40])):
                add("history_array_put", src + child, ["ap0,1,%d" % idx])
            add("history_array_insert", src + child, ["ai0,1,%d" % (ln - 1)])
            add("history_array_insert", src + child, ["ai0,1,0"])
            add("history_array_add", src + child, ["aa0,1"])
            add("history_pointer_set", src + child, ["ps0,1,%s" % hx(b"/%d" % (ln - 1))])
            add("history_pointer_set", src + child, ["ps0,1,%s" % hx(b"/-")])
            pat = "[{6f70=s7265706c616365,70617468=s%s,76616c7565=[i1,s78]}]" % hx(b"/%d" % (ln - 1))   # replace the last
            add("history_patch_inplace", src + ["b1=" + pat], ["pi0,1"])
            pat = "[{6f70=s616464,70617468=s%s,76616c7565=i5},{6f70=s72656d6f7665,70617468=s2f30}]" % hx(b"/-")     # add /-, remove /0
            add("history_patch_inplace", src + ["b1=" + pat], ["pi0,1"])
    # nested: the array inside a parsed document, reached by pointer / patch
    doc = b'{"a":[10,20,[1,2,3]],"b":{"c":["x","y"]}} '
    for path in (b"/a/2/2", b"/a/2/0", b"/a/2", b"/b/c/1", b"/b/c/-", b"/a/-"):
        add("history_pointer_set", [tp(0, 0, 32, doc), "b1=s6e6577"], ["ps0,1,%s" % hx(path)])
        pat = "[{6f70=s7265706c616365,70617468=s%s,76616c7565={6b=n}}]" % hx(path.replace(b"/-", b"/0"))
        add("history_patch_inplace", [tp(0, 0, 32, doc), "b1=" + pat], ["pi0,1"])
    # objects and strings that come out of the parser / of a deep copy, then the setters
    objtxt = b"{" + b",".join(b'"k%d":%d' % (i, i) for i in range(11)) + b"} "
    add("history_object_add", [tp(0, 0, 32, objtxt), "b1=i7"], ["oa0,1,%s" % hx(b"new")])
    add("history_object_add", [tp(0, 0, 32, objtxt), "b1=i7"], ["oa0,1,%s" % hx(b"k10")])
    add("history_object_add", ["b2=" + obj_n(11), "dc0,2", "b1=i7"], ["oa0,1,%s" % hx(b"new")])
    add("history_array_put", ["b2=" + arr_n(32), "dc0,2", "b1=i7"], ["ap0,1,31"])
    add("history_set_string", [tp(0, 0, 32, b'"' + LONG[:40] + b'" ')], ["ss0,%s" % hx(LONG[:41]), "ss0,%s" % hx(LONG[:3])])
    # ---- operations that are not supposed to need memory, and those that give memory back.  Every allocation
    #      index of the test part is failed in turn (N is what THIS tree's fault-free run requests, so an allocation
    #      a change introduces is counted and failed), and once more with EVERY request refused ('A').
    #      A call that reports failure must leave everything unchanged; one that changed something reports success.
    def quiet(kind, setup, test):
        add(kind, setup, test, ks="*,A")
    for n in (33, 40, 64, 65, 129, 300):
        cap = 32
        while cap <= n:
            cap *= 2                                        # capacity after n adds: the add that fills the array doubles it
        q = cap // 4
        for left in sorted(set([0, 1, q - 1, q, q + 1, n - 1])):
            if 0 <= left < n:
                quiet("array_del", ["b0=" + arr_n(n, val="[i%d]")], ["ad0,0,%d" % (n - left)])            # bulk, from the front
                quiet("array_del", ["b0=" + arr_n(n)], ["ad0,%d,%d" % (left, n - left)])                   # bulk, the tail
        quiet("array_del", ["b0=" + arr_n(n)], ["ad0,%d,1" % (n - 1), "ad0,0,1", "ad0,5,20", "ad0,0,%d" % (n - 22)])   # single, then bulk to empty
        quiet("array_del", ["b0=" + arr_n(n)], ["ad0,%d,1" % n])                                           # refused: nothing there
        quiet("array_del", ["b0=" + arr_n(n)], ["ad0,3,%d" % n])                                           # refused: range too long
        for slack in (0, 1, n, 1000):
            quiet("array_shrink", ["b0=" + arr_n(n)], ["as0,%d" % slack])
        quiet("array_shrink", ["b0=" + arr_n(n), "ad0,0,%d" % (n - 3)], ["as0,0", "as0,5", "as0,0"])
        quiet("array_put", ["b0=" + arr_n(n), "b1=[i1]"], ["ap0,1,%d" % (n // 2)])                          # replace in place
        quiet("array_put", ["b0=" + arr_n(n), "b1=n"], ["ap0,1,0"])
        # JSON Patch remove / move on a big array: in place and on a copy
        rm = "[" + ",".join("{6f70=s72656d6f7665,70617468=s%s}" % hx(b"/a/0") for _ in range(min(n - 2, 60))) + "]"
        quiet("patch_remove", ["b0={61=" + arr_n(n) + "}", "b1=" + rm], ["pi0,1"])
        quiet("patch_remove", ["b0={61=" + arr_n(n) + "}", "b1=" + rm], ["pa2,0,1"])
        mv = "[{6f70=s6d6f7665,66726f6d=s%s,70617468=s%s},{6f70=s6d6f7665,66726f6d=s%s,70617468=s%s}]" % (
            hx(b"/a/%d" % (n - 1)), hx(b"/a/0"), hx(b"/a/0"), hx(b"/b"))
        quiet("patch_move", ["b0={61=" + arr_n(n) + "}", "b1=" + mv], ["pi0,1"])
    quiet("array_del", [tp(0, 0, 32, b"[" + b",".join(b"%d" % i for i in range(70)) + b"] ")], ["ad0,0,69"])     # parsed: capacity == length
    quiet("array_del", ["b0=" + arr_n(70), "as0,0"], ["ad0,1,68"])
    quiet("array_del", ["b0=" + arr_n(5)], ["ad0,0,5"])
    for m in (1, 11, 12, 40):
        quiet("object_del", ["b0=" + obj_n(m, val="[i%d]")], ["od0,%s" % hx(b"k0"), "od0,%s" % hx(b"k%d" % (m - 1)), "od0,%s" % hx(b"nope")])
    quiet("object_del", ["b0=" + obj_n(40)], ["od0,%s" % hx(b"k%d" % i) for i in range(0, 40, 2)][:30])
    quiet("object_add", ["b0=" + obj_n(12), "b1=s78"], ["oa0,1,%s" % hx(b"k3")])                            # replace: no allocation
    quiet("set_inplace", ["b0=i5"], ["si0,-9223372036854775807", "ia0,7", "ia0,-9", "si0,0"])
    quiet("set_inplace", ["b0=d3ff8000000000000:312e35"], ["sd0,4000000000000000"])                          # drops the retained text
    quiet("set_inplace", ["b0=t"], ["sb0,0", "sb0,1"])
    quiet("set_inplace", ["b0=s" + hx(LONG[:60])], ["sl0,%s,10" % hx(LONG[:10]), "sl0,-,0", "ss0,%s" % hx(b"abc")])   # shorter: in place
    quiet("set_inplace", ["b0=u18446744073709551615"], ["ia0,1", "si0,3"])
    # ---- strings across the inline threshold and in separate storage
    add("set_string", ["b0=s616263"], ["ss0,%s" % hx(b"abcd")])
    add("set_string", ["b0=s616263"], ["ss0,%s" % hx(b"x" * 9), "ss0,%s" % hx(b"y" * 30), "ss0,%s" % hx(b"z" * 10), "sl0,%s,0" % hx(b""), "sl0,%s,60" % hx(LONG[:60])])
    add("set_string", ["b0=s" + hx(LONG[:20])], ["sl0,%s,21" % hx(LONG[:21]), "sl0,%s,200" % hx(LONG[:200])])
    # the same histories with all but the last step in the (fault-free) setup: one modelled operation under test
    add("set_string", ["b0=s616263", "ss0,%s" % hx(b"x" * 9)], ["ss0,%s" % hx(b"y" * 30)])
    add("set_string", ["b0=s616263", "ss0,%s" % hx(b"x" * 9), "ss0,%s" % hx(b"y" * 30)], ["ss0,%s" % hx(b"z" * 10)])
    add("set_string", ["b0=s616263", "ss0,%s" % hx(b"x" * 30), "sl0,-,0"], ["sl0,%s,60" % hx(LONG[:60])])
    add("set_string", ["b0=s" + hx(LONG[:20])], ["sl0,%s,21" % hx(LONG[:21])])
    add("set_string", ["b0=s" + hx(LONG[:20])], ["sl0,%s,20" % hx(LONG[:20])])
    add("new_string", [], ["ns0,%s" % hx(LONG)])
    add("new_string", [], ["ns0,-"])
    add("new_double_s", [], ["ds0,3ff8000000000000,%s" % hx(b"1.5")])
    add("new_double_s", [], ["ds0,3ff8000000000000,%s" % hx(b"1.50000000000000000000000000000000000000000")])
    # ---- constructors through the builder
    add("build", [], ["b0=" + obj_n(12)])
    add("build", [], ["b0=" + obj_n(24, val="[i1,s6161]")])
    add("build", [], ["b0=" + arr_n(34, val="{61=n}")])
    add("build", [], ["b0=" + MIXED])
    add("build", [], ["b0=[[[[s%s]]],d3ff8000000000000:312e35]" % hx(LONG)])
    # ---- deep copy
    add("deep_copy", ["b0=" + MIXED], ["dc1,0"])
    add("deep_copy", ["b0=" + obj_n(13, val="[i1,{61=s62}]")], ["dc1,0", "js1,0"])
    add("deep_copy", ["b0=" + arr_n(35, val="s6162")], ["dc1,0"])
    add("deep_copy", ["b0=[d3ff8000000000000:312e35,i5]", "us0,%s" % hx(b"CUSTOM")], ["dc1,0", "js1,0"])
    add("deep_copy", ["b0=" + MIXED], ["dk1,0"])
    # ---- serialization: long strings (print buffer growth), every flag, nesting, second call
    add("serialize", ["b0=s" + hx(LONG)], ["js0,0"])
    add("serialize", ["b0=s" + hx(LONG_ESC)], ["js0,0"])
    add("serialize", ["b0=s" + hx(LONG_ESC)], ["js0,16"])
    for fl in (0, 1, 2, 3, 10, 32, 35, 4):
        add("serialize", ["b0=" + MIXED], ["js0,%d" % fl])
    add("serialize", ["b0=" + obj_n(30, val="s" + hx(LONG[:30]))], ["js0,2"])
    add("serialize", ["b0=" + arr_n(60, val="d3ff8000000000000")], ["js0,0"])
    add("serialize", ["b0=[[[[[[[[[[[[[[[[[[[[i1]]]]]]]]]]]]]]]]]]]]"], ["js0,2", "js0,10"])
    add("serialize", ["b0=" + MIXED], ["js0,0", "js0,2", "js0,0"])
    add("serialize", ["b0={%s=s%s}" % (hx(LONG[:120]), hx(LONG))], ["js0,1"])
    add("serialize", ["b0=[i1,i2]", "uc0,%s" % hx(LONG[:100])], ["js0,0"])
    add("get_string", ["b0=i123456789"], ["gs0"])
    add("get_string", ["b0=" + arr_n(40)], ["gs0"])
    add("get_string", ["b0=d400921fb54442d18"], ["gs0"])
    # ---- the print-buffer API used directly (public header): sprintbuf's two branches — the 128-byte stack
    #      buffer (output <= 127) and the vasprintf temporary (output >= 128) — with several formats, on a fresh
    #      32-byte buffer and on buffers pre-filled so that also short outputs must grow; memappend / memset too
    def ps(f, sbytes, d):
        return "Ps%d,%s,%d" % (f, hx(sbytes), d)
    for ln in (0, 1, 30, 31, 32, 126, 127, 128, 129, 200, 255, 256, 300, 1000, 5000):
        add("sprintbuf", ["Pn"], [ps(0, b"x" * ln, 0)])
        add("sprintbuf", ["Pn", "Pa" + hx(b"p" * 20)], [ps(0, b"y" * ln, 0)])
    for ln in (120, 121, 122, 200, 700):                                  # "head:<" + s + ">" is ln + 7 bytes
        add("sprintbuf", ["Pn"], [ps(2, b"z" * ln, 0)])
    for w in (1, 31, 127, 128, 129, 400, 3000):                           # one %d conversion of w bytes
        add("sprintbuf", ["Pn"], [ps(4, b"", w)])
        add("sprintbuf", ["Pn", "Pa" + hx(b"q" * 31)], [ps(6, b"ab", w)])
    for ln in (10, 60, 61, 62, 63, 64, 200):                              # mixed: s|d|s is 2*ln + 2 + digits
        add("sprintbuf", ["Pn"], [ps(5, b"m" * ln, -12345)])
        add("sprintbuf", ["Pn"], [ps(3, b"k" * (2 * ln), 2147483647)])
        add("sprintbuf", ["Pn", "Pa" + hx(LONG[:100])], [ps(7, b"t" * (2 * ln), 1000)])
    add("sprintbuf", ["Pn"], [ps(1, b"", -2147483647), ps(0, b"a" * 128, 0), ps(0, b"b" * 127, 0), ps(2, b"c" * 600, 0), ps(1, b"", 5)])
    add("sprintbuf", ["Pn", ps(0, b"a" * 300, 0), "Pr"], [ps(0, b"b" * 300, 0), ps(0, b"c" * 400, 0)])   # re-used, already grown
    add("sprintbuf", [], ["Pn", ps(0, b"a" * 200, 0), "Pf"])
    add("printbuf", ["Pn"], ["Pa" + hx(LONG), "Pm-1,120,40", "Pm700,65,3", "Pa" + hx(LONG * 3)])
    add("printbuf", ["Pn"], ["Pm0,66,31", "Pm0,66,32", "Pm0,66,33", "Pr", "Pa" + hx(b"x" * 31), "Pa-"])
    # ---- parsing: every allocation site
    texts = [
        b'{"a":1,"b":[true,null,2.5,"x\\ny"],"c":{"d":{}}} ',
        b'[[[[1,[2,[3]]]]],"' + LONG[:200] + b'"] ',
        b'{"' + LONG[:70] + b'":"\\u00e9\\ud83d\\ude00\\t","k\\"2":-1.25e+10,"k3":18446744073709551615} ',
        b"{" + b",".join(b'"m%d":[%d]' % (i, i) for i in range(13)) + b"} ",
        b"{" + b",".join(b'"m%d":{"v":"%d"}' % (i, i) for i in range(24)) + b"} ",
        b"[" + b",".join(b"[%d]" % i for i in range(34)) + b"] ",
        b"[" + b",".join(b'{"a":%d.5}' % i for i in range(66)) + b"] ",
        b'/* c */ [1, // x\n 2, NaN, -Infinity, \'sq\'] ',
        b'[1.0, 2.50, 1e5, 123456789012345678901234567890, -0.0] ',
        b'"' + LONG + b'" ',
        b'{"a":[1,2,{"b":[3,{"c":"' + LONG[:90] + b'"}]}]} ',
        b'{"a":1,"a":[2],"a":{"x":3}} ',
        b'[1,2,,3] ',
        b'{"a":tru} ',
        b'[[[[[[1]]]]]] ',
    ]
    for t in texts:
        add("parse", [], [tp(0, 0, 32, t)])
    add("parse", [], [tp(0, 1, 32, texts[0])])
    add("parse", [], [tp(0, 0, 4, texts[14])])
    add("parse", [], [tp(0, 0, 32, texts[3], cuts=(5, 40, 41))])
    add("parse", [], [tp(0, 0, 32, texts[2], cuts=(30, 90, 95, 100))])
    add("parse", [], [tp(0, 0, 32, texts[0]), "js0,0"])
    add("parse", [], [tp(0, 16, 32, b'["\xc3\xa9",{"k":"\xe2\x82\xac"}] ')])
    # the calling thread under "C", under the comma-decimal locale set globally, and set for the thread: the
    # tokener's temporary "C" numeric locale (duplocale, newlocale: requests of the workload like any other) must be
    # released and the caller's locale restored on every path — also for texts that end in an error, for chunked
    # input (one set-up per call) and for the wrappers
    for mode in ("lcC", "lcG", "lcT"):
        for t in (texts[0], texts[8], texts[12], texts[13], b'1.5 ', b'[1,5] ', b''):
            add("parse_locale", [mode], [tp(0, 0, 32, t)], ks="*,A")
        add("parse_locale", [mode], [tp(0, 0, 32, texts[8], cuts=(3, 9, 20))], ks="*,A")
        add("parse_locale", [mode], [tp(0, 1, 32, texts[0]), "js0,0"])
        add("parse_locale", [mode], ["tv0,%s" % hx(b'{"a":[1.25,2e3]}')], ks="*,A")
        add("parse_locale", [mode], ["ff0,32,%s" % hx(b'{"a":[1.25,2e3]}')], ks="*,A")
        add("parse_locale", [mode, "b0=[d3ff8000000000000,d4004000000000000]"], ["js0,0", "gs0"])
    add("parse", [], ["tv0,%s" % hx(texts[0])])
    add("parse", [], ["tv0,%s" % hx(texts[3])])
    add("parse", [], ["ff0,32,%s" % hx(texts[0])])
    add("parse", [], ["ff0,32,%s" % hx(texts[4] * 30)])          # > one 4 KiB read: the input buffer grows
    add("parse", [], ["ff0,3,%s" % hx(texts[14])])
    # ---- process-wide settings: the double format (a failed set keeps the format in effect, and usable)
    add("double_format", ["dfg,%s" % hx(b"%.3f"), "b0=d3ff8000000000000"], ["dfg,%s" % hx(b"%.2f"), "js0,0"])
    add("double_format", ["dft,%s" % hx(b"%.3f"), "b0=d3ff8000000000000"], ["dft,%s" % hx(b"%.2f"), "js0,0"])
    add("double_format", ["dfg,%s" % hx(b"%.3f"), "b0=[d3ff8000000000000]"], ["dft,%s" % hx(b"%.1f"), "dfg,-", "js0,0"])
    add("double_format", ["b0=d3ff8000000000000"], ["dfg,%s" % hx(b"%.2f"), "dft,%s" % hx(b"%.4f"), "js0,0"])
    # configuration calls that allocate, exhaustively over short histories: every fault-free prefix of at most two
    # calls (GLOBAL / THREAD x format A / format B / NULL: thread then global, global then thread, reset, the same
    # format twice, ...) followed by every call as the one under test.  The state dump shows the EFFECTIVE format of
    # the calling thread (1.5 and 2.0 serialized), so a failed call that drops or swaps any of the two settings shows.
    fa, fb = hx(b"%.3f"), hx(b"%.0f")
    calls = ["dfg," + fa, "dfg," + fb, "dfg,-", "dft," + fa, "dft," + fb, "dft,-"]
    prefixes = [[]] + [[c] for c in calls] + [[c1, c2] for c1 in calls for c2 in calls]
    for pre in prefixes:
        for c in calls:
            add("config_history", pre, [c])
    for pre in ([], ["dft," + fa], ["dfg," + fb, "dft," + fa]):
        add("config_history", pre, ["dfx," + fa])                                       # invalid scope: refused, no allocation
        add("config_history", pre + ["b0=[d3ff8000000000000,d4000000000000000,i3]"], ["dfg," + fb, "js0,0", "dft,-", "js0,0"])
    # ---- pointer get (works on a copy of the path)
    add("pointer_get", ["b0={61={62=[i1,{63=s64}]}}"], ["pg0,%s" % hx(b"/a/b/1/c"), "pg0,%s" % hx(b"/a/x"), "pg0,%s" % hx(b"")])
    # ---- pointer set: creating members, appending, replacing
    add("pointer_set", ["b0={61={62=[i1,i2]}}", "b1=s7a"], ["ps0,1,%s" % hx(b"/a/new")])
    add("pointer_set", ["b0={61={62=[i1,i2]}}", "b1=s7a"], ["ps0,1,%s" % hx(b"/a/b/-")])
    add("pointer_set", ["b0={61={62=[i1,i2]}}", "b1=s7a"], ["ps0,1,%s" % hx(b"/a/b/1")])
    add("pointer_set", ["b0={61={62=[i1,i2]}}", "b1=s7a"], ["ps0,1,%s" % hx(b"/top")])
    add("pointer_set", ["b0=" + obj_n(11), "b1=[i1]"], ["ps0,1,%s" % hx(b"/x~1y")])
    add("pointer_set", ["b0={61=" + arr_n(32) + "}", "b1=[i1]"], ["ps0,1,%s" % hx(b"/a/-")])
    add("pointer_set", ["b0={61=i1}", "b1=[i1]"], ["ps0,1,%s" % hx(b"/nope/x")])
    # ---- patches (copy mode)
    def patch(ops):
        def one(o):
            return "{" + ",".join("%s=%s" % (hx(k.encode()), v) for k, v in o) + "}"
        return "[" + ",".join(one(o) for o in ops) + "]"

    def s(t):
        return "s" + hx(t.encode())
    base = "{61={62=[i1,i2,i3]},63=s78}"
    add("patch", ["b0=" + base, "b1=" + patch([[("op", s("add")), ("path", s("/a/new")), ("value", "[i1,{6b=s76}]")]])], ["pa2,0,1"])
    add("patch", ["b0=" + base, "b1=" + patch([[("op", s("remove")), ("path", s("/a/b/1"))], [("op", s("replace")), ("path", s("/c")), ("value", "i5")]])], ["pa2,0,1"])
    add("patch", ["b0=" + base, "b1=" + patch([[("op", s("move")), ("from", s("/a/b")), ("path", s("/d"))], [("op", s("copy")), ("from", s("/d")), ("path", s("/e"))]])], ["pa2,0,1"])
    add("patch", ["b0=" + base, "b1=" + patch([[("op", s("test")), ("path", s("/c")), ("value", s("x"))], [("op", s("add")), ("path", s("/a/b/-")), ("value", "s" + hx(LONG[:50]))]])], ["pa2,0,1"])
    add("patch", ["b0=" + base, "b1=" + patch([[("op", s("remove")), ("path", s("/zz"))]])], ["pa2,0,1"])
    # every operation with `path` and `from` ending in / passing through member names that need unescaping (~0, ~1, both,
    # several), on object and array parents, in place and on a copy: each has its own copies of the tokens to make and drop
    def jo(members):
        return "{" + ",".join("%s=%s" % (hx(k), v) for k, v in members) + "}"
    edoc = jo([(b"a/b", jo([(b"m~n", "[i1,i2," + jo([(b"x/y", "i3")]) + "]"), (b"p", "s76")])),
               (b"m~n", "[i10," + jo([(b"a/b~c", "s64656570")]) + ",i30]"),
               (b"a/b~c", "s73"), (b"~/~", "[t]"), (b"p", jo([(b"q", "i1")])), (b"arr", "[[i1],[i2]]")])
    existing = ["/a~1b", "/m~0n", "/a~1b~0c", "/~0~1~0", "/p", "/a~1b/m~0n", "/a~1b/p", "/p/q", "/m~0n/0", "/m~0n/1/a~1b~0c",
                "/a~1b/m~0n/2/x~1y", "/a~1b/m~0n/2", "/arr/0", "/m~0n/1"]
    targets = ["/new~1k", "/a~1b/n~0w", "/p/z~0~1", "/m~0n/1", "/m~0n/-", "/a~1b/m~0n/0", "/a~1b~0c", "/arr/1/-", "/m~0n/1/k~1"]
    val = "[i7," + jo([(b"v~/", "n")]) + "]"

    def both(kind, ops):
        add(kind, ["b0=" + edoc, "b1=" + patch(ops)], ["pi0,1"], ks="*,A")
        add(kind, ["b0=" + edoc, "b1=" + patch(ops)], ["pa2,0,1"], ks="*,A")
    for pth in existing:
        both("patch_escaped_remove", [[("op", s("remove")), ("path", s(pth))]])
        both("patch_escaped_replace", [[("op", s("replace")), ("path", s(pth)), ("value", val)]])
        both("patch_escaped_test", [[("op", s("test")), ("path", s(pth)), ("value", "s73")]])
    for pth in targets:
        both("patch_escaped_add", [[("op", s("add")), ("path", s(pth)), ("value", val)]])
    for frm in existing:
        for pth in targets[:6] + ["/p"]:
            if pth.startswith(frm + "/"):
                continue                                    # a location cannot be moved into one of its children
            both("patch_escaped_move", [[("op", s("move")), ("from", s(frm)), ("path", s(pth))]])
    for frm in existing[:8]:
        for pth in targets[:4]:
            both("patch_escaped_copy", [[("op", s("copy")), ("from", s(frm)), ("path", s(pth))]])
    both("patch_escaped_multi", [[("op", s("move")), ("from", s("/a~1b/m~0n")), ("path", s("/t~0"))],
                                 [("op", s("copy")), ("from", s("/t~0/2/x~1y")), ("path", s("/t~0/-"))],
                                 [("op", s("remove")), ("path", s("/a~1b~0c"))],
                                 [("op", s("test")), ("path", s("/t~0/3")), ("value", "i3")]])
    add("patch", ["b0=" + obj_n(11), "b1=" + patch([[("op", s("add")), ("path", s("/n~0m")), ("value", "n")], [("op", s("remove")), ("path", s("/k1"))]])], ["pa2,0,1"])
    return out


def gen_text(rng):
    for _ in range(20):
        s, t = jsongen.gen_doc(rng, depth=rng.choice([2, 3, 4]), width=rng.choice([3, 5, 14]), dup=True)
        if len(t) <= 600:
            return t + b" "
    return b"[1] "


def gen_random(rng, n, doubles=0):
    out = []
    for _ in range(n):
        r = rng.random()
        tree = jvtext.dump(jvtext.gen_tree(rng, depth=rng.choice([1, 2, 3]), size=rng.choice([3, 6, 14, 26]), nuls=False, nan=True))
        if tree == "n":
            tree = "[n]"
        if r < 0.22:
            kind, setup, test = "r_parse", [], [tp(0, rng.choice([0, 0, 1, 16]), rng.choice([32, 32, 3]), gen_text(rng))]
            if rng.random() < 0.4:
                setup = [rng.choice(["lcG", "lcT", "lcC"])]
            if rng.random() < 0.3:
                t = gen_text(rng)
                cuts = sorted(set(rng.randrange(1, len(t)) for _ in range(rng.randint(1, 3)))) if len(t) > 2 else ()
                test = [tp(0, 0, 32, t, cuts)]
            if rng.random() < 0.15:
                test = [tp(0, 0, 32, jsongen.mutate_bytes(rng, gen_text(rng)).replace(b"\x00", b" ") + b" ")]
        elif r < 0.36:
            kind, setup, test = "r_build", [], ["b0=" + tree]
        elif r < 0.50:
            kind, setup, test = "r_deep_copy", ["b0=" + tree], [rng.choice(["dc1,0", "dk1,0"])] + (["js1,%d" % rng.choice([0, 2])] if rng.random() < 0.4 else [])
        elif r < 0.66:
            kind, setup, test = "r_serialize", ["b0=" + tree], ["js0,%d" % rng.choice([0, 1, 2, 3, 4, 10, 16, 32, 63])]
        elif r < 0.78:
            m = rng.choice([3, 10, 11, 12, 21, 22, 23, 44, 45, 46])
            kind, setup = "r_object_add", ["b0=" + obj_n(m, prefix=bytes([rng.randrange(0x61, 0x7b)])), "b1=" + rng.choice(["i1", "n", "[i1,s62]", "{61=n}"])]
            test = ["oa0,1,%s%s" % (hx(bytes(rng.randrange(0x61, 0x7b) for _ in range(rng.randint(0, 9)))), rng.choice(["", "", ",2", ",4", ",6"]))]
        elif r < 0.88:
            n_ = rng.choice([0, 5, 31, 32, 33, 64, 65, 127, 128])
            kind, setup = "r_array", ["b0=" + arr_n(n_, val=rng.choice(["i%d", "n", "s61"])), "b1=" + rng.choice(["i1", "[i1]", "n"])]
            test = [rng.choice(["aa0,1", "ap0,1,%d" % rng.choice([0, n_, n_ + 1, n_ + 40]), "ai0,1,%d" % rng.choice([0, max(0, n_ - 1), n_, n_ + 3])])]
        elif r < 0.94:
            l0 = rng.choice([0, 3, 7, 8, 9, 40])
            steps = []
            for _ in range(rng.randint(1, 5)):
                ln = rng.choice([0, 1, 7, 8, 9, l0, l0 + 1, 33, 200])
                steps.append("sl0,%s,%d" % (hx(bytes(rng.randrange(256) for _ in range(ln))), ln))
            kind, setup, test = "r_set_string", ["b0=s" + hx(bytes(rng.randrange(1, 256) for _ in range(l0)))], steps
            if rng.random() < 0.6:
                setup, test = setup + steps[:-1], steps[-1:]
        elif r < 0.935:
            # no-memory / shrinking operations on random sizes
            n_ = rng.choice([1, 5, 31, 32, 33, 40, 63, 64, 65, 100, 128, 129, 200, 257])
            cap = 32
            while cap <= n_:
                cap *= 2
            setup, ln, test = ["b0=" + arr_n(n_, val=rng.choice(["i%d", "[i%d]", "s%02x"]))], n_, []
            if rng.random() < 0.3:
                setup.append("as0,%d" % rng.choice([0, 1, 9]))
            for _ in range(rng.randint(1, 3)):
                c = rng.random()
                if c < 0.6 and ln > 0:
                    left = rng.choice([0, 1, cap // 4 - 1, cap // 4, cap // 4 + 1, cap // 8, ln - 1, rng.randint(0, ln)])
                    cnt_ = max(1, ln - max(0, min(left, ln)))
                    idx = rng.choice([0, ln - cnt_, rng.randint(0, ln - cnt_)])
                    test.append("ad0,%d,%d" % (idx, cnt_))
                    ln -= cnt_
                elif c < 0.8:
                    test.append("as0,%d" % rng.choice([0, 0, 1, ln, 500]))
                else:
                    test.append("ad0,%d,%d" % (ln + rng.randint(0, 2), rng.randint(1, 3)))
            kind = "r_quiet"
        elif r < 0.945:
            fmts = [hx(f) for f in (b"%.3f", b"%.0f", b"%.17g", b"%f", b"%.1f|" + b"x" * 40)] + ["-"]
            hist = ["df%s,%s" % (rng.choice("gt"), rng.choice(fmts)) for _ in range(rng.randint(0, 5))]
            kind, setup = "r_config", hist + ["b0=[d3ff8000000000000,d4000000000000000]"]
            test = ["df%s,%s" % (rng.choice("ggtx"), rng.choice(fmts)) for _ in range(rng.randint(1, 3))] + (["js0,0"] if rng.random() < 0.5 else [])
        elif r < 0.955:
            # the print-buffer API: a random fault-free prefix, then sprintbuf / memappend / memset calls whose output
            # lengths straddle the stack-buffer limit (127 | 128) and the current capacity
            setup, test, cap, pos = ["Pn"], [], 32, 0

            def pbop():
                nonlocal cap, pos
                c = rng.random()
                room = cap - pos
                ln = max(0, rng.choice([0, 1, room - 2, room - 1, room, room + 1, 126, 127, 128, 129, 130, 255, 256, 257,
                                        rng.randint(0, 140), rng.randint(100, 160), rng.randint(0, 900), 3000]))
                if c < 0.55:
                    f = rng.choice([0, 0, 2, 3, 5, 7])
                    fixed = {0: 0, 2: 7, 3: 3, 5: 4, 7: 12}[f]
                    n_ = max(0, (ln - fixed) // (2 if f == 5 else 1))
                    o, out = "Ps%d,%s,%d" % (f, hx(bytes(rng.randrange(0x21, 0x7f) for _ in range(n_))), rng.choice([7, 0, -1, 1000])), ln
                elif c < 0.70:
                    o, out = "Ps%d,%s,%d" % (rng.choice([4, 6]), hx(b"ab"), max(1, ln)), max(1, ln) + 1
                elif c < 0.75:
                    o, out = "Ps1,-,%d" % rng.choice([0, -5, 2147483647, -2147483647]), 11
                elif c < 0.9:
                    o, out = "Pa" + hx(bytes(rng.randrange(1, 256) for _ in range(min(ln, 700)))), min(ln, 700)
                elif c < 0.97:
                    o, out = "Pm-1,%d,%d" % (rng.randrange(256), min(ln, 500)), min(ln, 500)
                else:
                    pos = 0
                    return "Pr"
                pos += out
                while cap <= pos + 1:
                    cap = max(cap * 2, pos + 9)
                return o
            for _ in range(rng.randint(0, 3)):
                setup.append(pbop())
            for _ in range(rng.randint(1, 3)):
                test.append(pbop())
            kind = "r_printbuf"
        elif r < 0.97:
            # a container left by a random fault-free history, then one operation at a boundary position
            n_ = rng.choice([1, 2, 3, 5, 16, 31, 32, 33, 64])
            if rng.random() < 0.5:
                setup = [tp(0, 0, 32, b"[" + b",".join(rng.choice([b"%d", b'"s%d"', b"[%d]", b"null"]) .replace(b"%d", b"%d" % i) for i in range(n_)) + b"] ")]
            else:
                setup = ["b0=" + arr_n(n_, val=rng.choice(["i%d", "s%02x", "[i%d]"]))]
            ln = n_
            for step in range(rng.randint(0, 3)):
                c = rng.random()
                if c < 0.5:
                    setup.append("as0,%d" % rng.choice([0, 0, 0, 1, 2, 7]))
                elif c < 0.8:
                    setup += ["b%d=i%d" % (3 + step, step), "aa0,%d" % (3 + step)]
                    ln += 1
                else:
                    setup += ["b%d=n" % (3 + step), "ap0,%d,%d" % (3 + step, ln + 2)]
                    ln += 3
            idx = rng.choice([0, ln - 1, ln - 1, ln, ln + 1, ln + 33, max(0, ln // 2)])
            route = rng.random()
            if route < 0.4:
                test = ["ap0,1,%d" % idx]
            elif route < 0.55:
                test = ["ai0,1,%d" % idx]
            elif route < 0.65:
                test = ["aa0,1"]
            elif route < 0.85:
                test = ["ps0,1,%s" % hx(b"/%d" % idx if rng.random() < 0.8 else b"/-")]
            else:
                setup.append("b2=[{6f70=s%s,70617468=s%s,76616c7565=[i1]}]" % (hx(rng.choice([b"replace", b"add", b"add"])), hx(b"/%d" % min(idx, ln))))
                test = ["pi0,2"]
            kind, setup = "r_history", setup + ["b1=" + rng.choice(["i1", "[i1,s62]", "{61=n}"])]
        else:
            key = bytes(rng.choice(b"abc~/01") for _ in range(rng.randint(1, 4))).replace(b"~", b"~0").replace(b"/", b"~1")
            kind, setup, test = "r_pointer_set", ["b0={61=" + tree + "}", "b1=i9"], ["ps0,1,%s" % hx(rng.choice([b"/", b"/a/", b"/a/-", b"/a/0", b"/b/"]) + key)]
        ks = "*"
        if kind == "r_quiet":
            ks = "*,A"
        if doubles:
            extra = []
            for _ in range(doubles):
                k = rng.randint(0, 40)
                extra.append(rng.choice(["%d+%d" % (k, rng.randint(0, 6)), "%d+0" % k, "%d^%d" % (k, rng.choice([16, 48, 64, 100, 300]))]))
            ks = ks + "," + ",".join(extra)
        out.append((line(ks, setup, test), {"kind": kind}))
    return out


def gen(rng, tier):
    out = corpus()
    if tier == "quick":
        out += gen_random(rng, 60)
    else:
        out += gen_random(rng, 5000)
        out += gen_random(rng, 5000, doubles=6)
        # double faults on the fixed corpus: a second fault after the first, and size limits
        for l, meta in corpus():
            _, ks, rest = l.split(" ", 2)
            extra = ",".join(["%d+%d" % (k, j) for k in (0, 1, 2, 3, 5, 8, 13, 21) for j in (0, 1, 2)] + ["%d^%d" % (k, lim) for k in (0, 2, 7) for lim in (40, 64, 200)])
            out.append(("oom %s %s" % (extra, rest), {"kind": "double:" + meta["kind"]}))
    return out


# ------------------------------------------------------------------ oracle
TOK = re.compile(r"^([0-9+^A]+):(N|F|D)(\d*):([uc-])(-?\d+)(?:l(-?\d+))?(?:h(-?\d+))?$")


def parse_obs(o):
    m = re.match(r"^n=(\d+) base=(\S*) ks=(\S+)( DUMPALLOC)?$", o)
    if not m:
        return None
    toks = []
    if m.group(3) != "-":
        for t in m.group(3).split(","):
            tm = TOK.match(t)
            if not tm:
                return None
            toks.append(dict(k=tm.group(1), cls=tm.group(2), op=int(tm.group(3)) if tm.group(3) else -1, owned=tm.group(4), leak=int(tm.group(5)),
                             locs=int(tm.group(6)) if tm.group(6) else 0,
                             hidden=int(tm.group(7)) if tm.group(7) else 0))
    return dict(n=int(m.group(1)), base=m.group(2), toks=toks, dumpalloc=bool(m.group(4)))


def test_ops(line_):
    return line_.split(" ")[3].split(";")


def findings(line_, impl):
    """all (class_id, message) the observation shows, one per class"""
    if "CRASH" in impl:
        return [("crash", "implementation crashed under an allocation fault: " + impl[-80:])]
    ob = parse_obs(impl)
    if ob is None or ob["dumpalloc"]:
        return [("malformed", "unexpected driver output: " + impl[:120])]
    ops = test_ops(line_)
    res = {}

    def put(cls, msg):
        res.setdefault(cls, msg)
    if "!LEAK" in ob["base"] or "!HLEAK" in ob["base"]:
        put("leak", "the fault-free run leaks: " + ob["base"][-20:])
    if "!UNSTABLE" in ob["base"]:
        put("malformed", "two fault-free runs of the workload differ: " + ob["base"][-40:])
    ks = line_.split(" ")[1]
    if ks in ("*", "*,A") and len(ob["toks"]) != ob["n"] + (1 if ks.endswith("A") else 0):
        put("malformed", "expected %d fault runs, got %d" % (ob["n"], len(ob["toks"])))
    for t in ob["toks"]:
        opk = ops[t["op"]][:2] if 0 <= t["op"] < len(ops) else "??"
        where = "k=%s (operation %s)" % (t["k"], ops[t["op"]][:40] if 0 <= t["op"] < len(ops) else "-")
        if t["cls"] == "D":
            if opk in ("js", "gs"):
                put("ser_holes", "serialization returned a text different from the fault-free text at " + where)
            else:
                put("wrong_result", "a result other than the normal one or a documented failure at " + where)
        if t["owned"] == "c":
            put("owned_object_changed", "an object the caller still owns changed across a failed call at " + where)
        if t["locs"] != 0:
            put("locale_object_leak", "%d locale object(s) obtained by the call (duplocale / newlocale) not released, " % t["locs"] + where)
        elif t["leak"] != 0:
            cls = "object_add_key_leak" if opk == "oa" else "parse_child_leak" if opk in ("tp", "tv", "ff") else "leak"
            put(cls, "%d block(s) still live after the caller released everything, " % t["leak"] + where)
        elif t["hidden"] != 0:
            cls = "object_add_key_leak" if opk == "oa" else "parse_child_leak" if opk in ("tp", "tv", "ff") else "leak"
            put(cls, "%d byte(s) obtained outside the controlled allocator (vasprintf, ...) still allocated after the caller "
                     "released everything, " % t["hidden"] + where)
    return sorted(res.items(), key=lambda kv: KNOWN_CLASSES_ORDER.index(kv[0]))


STATS = {"fault_runs": 0, "documented_failures": 0, "normal_despite_fault": 0, "max_allocations_in_one_workload": 0}


def oracle(line_, meta, impl):
    ob = parse_obs(impl)
    if ob:
        STATS["fault_runs"] += len(ob["toks"])
        STATS["documented_failures"] += sum(1 for t in ob["toks"] if t["cls"] == "F")
        STATS["normal_despite_fault"] += sum(1 for t in ob["toks"] if t["cls"] == "N")
        STATS["max_allocations_in_one_workload"] = max(STATS["max_allocations_in_one_workload"], ob["n"])
    fs = findings(line_, impl)
    if not fs:
        return None
    known = fw.known_ids(PROP)
    for f in fs:                    # a class that is not a recorded known finding goes first
        if f[0] not in known:
            return f
    return fs[0]


def classify(line_, meta, mo, co):
    return None


def nontrivial(line_, meta, impl):
    ob = parse_obs(impl)
    if ob and ob["n"] > 0 and any(t["cls"] == "F" for t in ob["toks"]):
        return line_
    return None


def extra_coverage():
    return dict(STATS)


# ------------------------------------------------------------------ shrinking: the single k, fewer operations
def shrink(ck, line_, cls):
    _, ks, setup, test = line_.split(" ", 3)

    def fails(l):
        m, c, _ = ck.run_pair([l], "shrink")
        return any(f[0] == cls for f in findings(l, c.get(1, "MISSING")))
    cur = line_
    m, c, _ = ck.run_pair([line_], "shrink")
    impl = c.get(1, "MISSING")
    cand = []
    ob = parse_obs(impl)
    if ob:
        for t in ob["toks"]:
            one = "oom %s %s %s" % (t["k"], setup, test)
            if any(f[0] == cls for f in findings(one, "n=%d base=x ks=%s:%s%s:%s%d%s%s" % (
                    ob["n"], t["k"], t["cls"], t["op"] if t["op"] >= 0 else "", t["owned"], t["leak"],
                    "l%d" % t["locs"] if t["locs"] else "", "h%d" % t["hidden"] if t["hidden"] else ""))):
                cand.append(one)
                break
    else:
        # a crash: find N fault-free, then try every k on its own line
        mm, cc, _ = ck.run_pair(["oom 999999 %s %s" % (setup, test)], "shrink")
        nm = re.match(r"n=(\d+)", cc.get(1, ""))
        n = int(nm.group(1)) if nm else 0
        lines = ["oom %d %s %s" % (k, setup, test) for k in range(n)]
        if lines:
            mm, cc, _ = ck.run_pair(lines, "shrink")
            for i, l in enumerate(lines, start=1):
                if any(f[0] == cls for f in findings(l, cc.get(i, "MISSING"))):
                    cand.append(l)
                    break
    for l in cand:
        if fails(l):
            cur = l
            break
    # drop trailing test operations
    _, ks, setup, test = cur.split(" ", 3)
    ops = test.split(";")
    while len(ops) > 1:
        l = "oom %s %s %s" % (ks, setup, ";".join(ops[:-1]))
        if fails(l):
            ops = ops[:-1]
            cur = l
        else:
            break
    return cur


def search(rng, broken_lines):
    return gen_random(rng, 400)
