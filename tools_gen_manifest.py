#!/usr/bin/env python3
"""regenerates MANIFEST.json from the plugins in checks/ (kept in sync by hand-run)"""
import importlib, json, os, sys, glob
here = os.path.dirname(os.path.abspath(__file__))
sys.path.insert(0, os.path.join(here, "lib")); sys.path.insert(0, os.path.join(here, "checks"))
props = [json.loads(l) for l in open(os.path.join(here, "properties.jsonl"))]
checks, na = [], []
for p in props:
    pid = p["id"]
    if not os.path.exists(os.path.join(here, "checks", pid + ".py")):
        na.append(dict(property_id=pid, reason="check not built yet in this revision (planned: see DESIGN.md section 4)"))
        continue
    m = importlib.import_module(pid)
    checks.append(dict(property_id=pid, quick_cmd="./check %s --tier quick" % pid,
                       thorough_cmd="./check %s --tier thorough" % pid,
                       evidence_file="evidence/%s.json" % pid,
                       replay_cmd_template="./check %s --replay {path}" % pid,
                       engine="coq+correspondence",
                       level_claimed=dict(category=m.LEVEL, text=m.LEVEL_TEXT, design_ref="DESIGN.md section 4, " + pid),
                       level_note=m.LEVEL_NOTE, technique=m.TECHNIQUE))
man = dict(version=1,
           setup_cmd="make setup",
           hooks=dict(guard="JSON_C_VERIF", enable="-DJSON_C_VERIF on every harness compile (lib/fw.py); no hook is currently needed: static functions are reached by #include of the library .c file, the allocator by -Dmalloc=xmalloc renames",
                      baseline_off_cmd="(test -f /repo/_build/CMakeCache.txt || cmake -G Ninja -S /repo -B /repo/_build >/dev/null) && cmake --build /repo/_build && ctest --test-dir /repo/_build -j8 --timeout 900",
                      source_commits=[], add_only=True),
           engines=[dict(name="coq+correspondence", path="check", serves_properties=[c["property_id"] for c in checks],
                         kind_free_text="Coq 8.16 theorems about executable Gallina models (coq/theories), tied to /repo's working tree on every run by a differential correspondence between the OCaml-extracted model (ocaml/mdrv_<dom>) and a sanitizer build of the library (harness/drv_<dom>.c), plus a model-independent direct oracle per property")],
           checks=checks, not_applicable=na,
           notes="See DESIGN.md.  known_findings.json lists genuine defects (known/fixed).")
json.dump(man, open(os.path.join(here, "MANIFEST.json"), "w"), indent=1)
print("checks:", [c["property_id"] for c in checks], "not yet:", [n["property_id"] for n in na])
