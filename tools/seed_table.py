#!/usr/bin/env python3
"""prints a markdown table of all seeded changes from seeded/*/meta.json"""
import glob, json, os
rows = []
for d in sorted(glob.glob("/verif/seeded/*/meta.json")):
    m = json.load(open(d)); name = os.path.basename(os.path.dirname(d))
    c = m.get("confirmed_by_coordinator", {}); r = m.get("recheck", {})
    first = "reported (replay)" if c.get("detected") and not any("no-failing-input-found" in l for l in c.get("check_output", [])[:1]) else ("broken proof/correspondence only" if c.get("detected") else "missed")
    now = "replay" if r.get("detected_with_concrete_replay") else ("broken only" if r.get("detected") else ("missed" if r else "-"))
    rows.append("| %s | %s | %s | %s | %s |" % (name, (m.get("summary", "") or "").replace("|", "/").replace("\n", " ")[:170], (str(m.get("needs", "")) or "").replace("|", "/").replace("\n", " ")[:150], first, now))
print("| seed | change | needs | first contact | now |\n|---|---|---|---|---|")
print("\n".join(rows))
