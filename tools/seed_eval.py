#!/usr/bin/env python3
"""seed_eval.py <seed-src-dir> <ID> — confirm a seeded change in a scratch worktree of /repo
(applies, builds, pinned tests pass, demo fails with / passes without), then run ./check <ID>
against the mutated tree (VERIF_REPO) and record everything in /verif/seeded/<ID>/."""
import json, os, shutil, subprocess, sys, time
src, pid = sys.argv[1], sys.argv[2]
suffix = sys.argv[3] if len(sys.argv) > 3 else ""
VERIF = "/verif"
wt = "/tmp/sv/%s%s" % (pid, suffix)
def sh(cmd, cwd=None, env=None, timeout=3000):
    p = subprocess.run(cmd, shell=True, cwd=cwd, env=env, stdout=subprocess.PIPE, stderr=subprocess.STDOUT, text=True, timeout=timeout)
    return p.returncode, p.stdout
res = {"property": pid, "checked_at": time.strftime("%Y-%m-%dT%H:%M:%SZ", time.gmtime())}
sh("git -C /repo worktree remove --force %s" % wt); shutil.rmtree(wt, ignore_errors=True)
os.makedirs("/tmp/sv", exist_ok=True)
rc, out = sh("git -C /repo worktree add --detach %s HEAD" % wt)
res["base_commit"] = sh("git -C /repo rev-parse --short HEAD")[1].strip()
patch = os.path.join(src, "patch.diff")
rc, out = sh("git apply --check %s" % patch, cwd=wt)
if rc != 0:
    rc, out = sh("git apply -3 %s" % patch, cwd=wt)
    res["applied"] = "3way" if rc == 0 else "FAILED: " + out[-300:]
else:
    sh("git apply %s" % patch, cwd=wt); res["applied"] = "clean"
if res["applied"].startswith("FAILED"):
    print(json.dumps(res, indent=1)); sys.exit(1)
# regenerate the patch against the current base
res_patch = sh("git diff", cwd=wt)[1]
rc, out = sh("cmake -S . -B _b -DCMAKE_BUILD_TYPE=Debug > /dev/null 2>&1 && cmake --build _b -j4 2>&1 | tail -2 && ctest --test-dir _b -j4 --timeout 900 2>&1 | tail -3", cwd=wt)
res["tests_with_change"] = "100% tests passed" in out
res["tests_tail"] = out[-200:]
run = os.path.join(src, "run.sh")
rc1, out1 = sh("sh %s %s" % (run, wt), cwd=src, timeout=1200)
res["demo_rc_with_change"] = rc1
# our check against the mutated tree
env = dict(os.environ, VERIF_REPO=wt)
t0 = time.time()
rcc, outc = sh("./check %s --tier quick" % pid, cwd=VERIF, env=env, timeout=3000)
res["check_rc_with_change"] = rcc
res["check_wall_s"] = round(time.time() - t0, 1)
res["check_output"] = [l for l in outc.split("\n") if l.startswith("VIOLATION") or l.startswith("  ") or l.startswith("KNOWN")][:12]
res["detected"] = rcc == 1 and any(l.startswith("VIOLATION") for l in outc.split("\n"))
# keep the replay(s) the check produced
rep = [l.split("replay=")[1].split()[0] for l in outc.split("\n") if l.startswith("VIOLATION") and "replay=" in l]
# revert and confirm the demo passes and the check is quiet
sh("git checkout -- . ", cwd=wt)
rc, out = sh("cmake --build _b -j4 2>&1 | tail -1", cwd=wt)
rc2, out2 = sh("sh %s %s" % (run, wt), cwd=src, timeout=1200)
res["demo_rc_without_change"] = rc2
rcq, outq = sh("./check %s --tier quick" % pid, cwd=VERIF, env=env, timeout=3000)
res["check_rc_without_change"] = rcq
dst = os.path.join(VERIF, "seeded", pid + suffix)
os.makedirs(dst, exist_ok=True)
open(os.path.join(dst, "patch.diff"), "w").write(res_patch)
for f in os.listdir(src):
    if f not in ("patch.diff", "meta.json") and os.path.isfile(os.path.join(src, f)):
        shutil.copy(os.path.join(src, f), dst)
for i, r in enumerate(rep[:3]):
    if os.path.exists(r):
        shutil.copy(r, os.path.join(dst, "replay-%d.replay" % i))
meta = {}
try:
    meta = json.load(open(os.path.join(src, "meta.json")))
except Exception as e:
    meta = {"property": pid, "summary": "(meta.json of the seeder unreadable: %s)" % e}
meta["confirmed_by_coordinator"] = res
meta["kept"] = bool(res["tests_with_change"] and rc1 != 0 and rc2 == 0)
json.dump(meta, open(os.path.join(dst, "meta.json"), "w"), indent=1)
sh("git -C /repo worktree remove --force %s" % wt); shutil.rmtree(wt, ignore_errors=True)
print(pid, "kept" if meta["kept"] else "NOT-KEPT", "detected" if res["detected"] else "MISSED", "quiet-after-revert" if rcq == 0 else "NOISY-AFTER-REVERT rc=%d" % rcq, res["check_output"][:2])
