#!/usr/bin/env python3
"""coverage.py [ids…] — how much of json-c's source the generated inputs of each check reach:
builds the library with --coverage, runs every plugin's quick-tier script through its driver,
and reports executed/total lines per library file (and the functions never entered) into
evidence/coverage.json.  Supporting measurement only: it bounds what the differential
correspondence can notice."""
import glob, gzip, importlib, json, os, random, re, shutil, subprocess, sys
here = os.path.dirname(os.path.dirname(os.path.abspath(__file__)))
sys.path.insert(0, os.path.join(here, "lib")); sys.path.insert(0, os.path.join(here, "checks"))
os.chdir(here)
import fw
ids = sys.argv[1:] or sorted(os.path.basename(p)[:-3] for p in glob.glob("checks/C*.py"))
libd, cfg = fw.build_lib("cov")
for f in glob.glob(os.path.join(libd, "*.gcda")):
    os.remove(f)
work = os.path.join(fw.BUILD, "cov-work"); shutil.rmtree(work, ignore_errors=True); os.makedirs(work)
per_prop = {}
for pid in ids:
    pl = importlib.import_module(pid)
    if getattr(pl, "VARIANT", "asan") != "asan":
        continue          # the threaded build is measured separately (not at all, here)
    if hasattr(pl, "coq_extra"):
        try: pl.coq_extra()
        except Exception: pass
    cases = pl.gen(random.Random(1), "quick")
    script = os.path.join(work, pid + ".script")
    open(script, "w").write("\n".join(c[0] for c in cases) + "\n")
    exe = fw.build_driver(pl.DOMAIN, "cov")
    env = dict(os.environ); env["GCOV_PREFIX_STRIP"] = "0"
    p = subprocess.run([exe, script], stdout=subprocess.DEVNULL, stderr=subprocess.PIPE, env=env, timeout=3000)
    per_prop[pid] = dict(cases=len(cases), rc=p.returncode)
# collect: gcov over every .gcda (library objects and driver translation units)
lines = {}   # file -> {lineno: count}
funcs = {}   # file -> {fn: count}
gcdas = glob.glob(os.path.join(libd, "*.gcda")) + glob.glob(os.path.join(libd, "**", "*.gcda"), recursive=True)
for g in sorted(set(gcdas)):
    r = subprocess.run(["gcov", "-j", "-t", "-o", os.path.dirname(g), g], stdout=subprocess.PIPE, stderr=subprocess.DEVNULL, cwd=work)
    try:
        data = json.loads(r.stdout.decode())
    except Exception:
        continue
    for f in data.get("files", []):
        name = os.path.basename(f["file"])
        if not os.path.exists(os.path.join(fw.REPO, name)) or not name.endswith(".c"):
            continue
        L = lines.setdefault(name, {})
        for ln in f.get("lines", []):
            L[ln["line_number"]] = L.get(ln["line_number"], 0) + ln["count"]
        F = funcs.setdefault(name, {})
        for fn in f.get("functions", []):
            F[fn["name"]] = F.get(fn["name"], 0) + fn["execution_count"]
out = {"per_check": per_prop, "files": {}}
for name in sorted(lines):
    L = lines[name]; tot = len(L); hit = sum(1 for v in L.values() if v > 0)
    out["files"][name] = dict(lines=tot, executed=hit, percent=round(100.0 * hit / tot, 1) if tot else 0,
                              functions_never_entered=sorted(k for k, v in funcs.get(name, {}).items() if v == 0),
                              unexecuted_lines=sorted(k for k, v in L.items() if v == 0))
json.dump(out, open("evidence/coverage.json", "w"), indent=1)
for name, d in out["files"].items():
    print("%-26s %4d/%4d  %5.1f%%  never entered: %s" % (name, d["executed"], d["lines"], d["percent"], ", ".join(d["functions_never_entered"])[:150]))
