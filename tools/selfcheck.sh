#!/bin/sh
# tools/selfcheck.sh — no admitted proofs, no declared axioms, no unsafe flags anywhere in the development
V=$(cd "$(dirname "$0")/.." && pwd)
bad=$(grep -rnE '^\s*(Admitted|Axiom|Axioms|Parameter|Parameters|Conjecture|Admit Obligations)\b|\badmit\b|Unset Guard Checking|Unset Positivity Checking|Unset Universe Checking|bypass_check|type-in-type|impredicative-set' "$V/coq/theories" "$V/coq/extract" "$V/coq/_CoqProject" --include='*.v' --include='_CoqProject' 2>/dev/null | grep -v '(\*.*\(Admitted\|admit\|Axiom\).*\*)')
hyp=$(awk 'FNR==1{d=0} /^ *Section /{d++} /^ *End /{if(d>0)d--} /^ *(Variable|Variables|Hypothesis|Hypotheses) /{if(d==0)print FILENAME":"FNR": "$0}' "$V"/coq/theories/*.v)
if [ -n "$bad$hyp" ]; then echo "SELF-CHECK FAILED:"; echo "$bad"; echo "$hyp"; exit 1; fi
echo "self-check: no Admitted/admit/Axiom/Parameter/Conjecture, no section-less Variable/Hypothesis, no unsafe flags in $(ls "$V"/coq/theories/*.v | wc -l) files"
