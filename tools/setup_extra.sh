#!/bin/sh
# tools/setup_extra.sh — extra setup steps run by `make setup` (each property appends its own block)
# --- C14 (domain loc): compile the synthetic comma-decimal locale into build/locale/xx_COMMA
# (localedef exits 1 because of "no definition for LC_TIME…" warnings; -c writes it anyway)
(
  V=$(cd "$(dirname "$0")/.." && pwd)
  if [ ! -f "$V/build/locale/xx_COMMA/LC_NUMERIC" ]; then
    mkdir -p "$V/build/locale"
    rm -rf "$V/build/locale/xx_COMMA.tmp.$$"
    localedef -c -i "$V/harness/locale/xx_COMMA.src" -f "$V/harness/locale/ASCII.charmap" \
      "$V/build/locale/xx_COMMA.tmp.$$" >/dev/null 2>&1
    if [ -f "$V/build/locale/xx_COMMA.tmp.$$/LC_NUMERIC" ]; then
      mv "$V/build/locale/xx_COMMA.tmp.$$" "$V/build/locale/xx_COMMA" 2>/dev/null || rm -rf "$V/build/locale/xx_COMMA.tmp.$$"
      echo "C14: locale xx_COMMA built in $V/build/locale"
    else
      echo "C14: localedef failed to build xx_COMMA" >&2
    fi
  fi
)
