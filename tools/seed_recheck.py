#!/usr/bin/env python3
"""seed_recheck.py <seeded-dir-name> — re-run the property's quick check against a scratch
worktree of /repo with the recorded patch applied; store the outcome in meta.json under
'recheck' (the first-contact result stays under 'confirmed_by_coordinator')."""
import json, os, shutil, subprocess, sys, time
name = sys.argv[1]
pid = name.split("-")[0]
VERIF = "/verif"
d = os.path.join(VERIF, "seeded", name)
wt = "/tmp/sr/%s" % name
def sh(cmd, cwd=None, env=None, timeout=3000):
    p = subprocess.run(cmd, shell=True, cwd=cwd, env=env, stdout=subprocess.PIPE, stderr=subprocess.STDOUT, text=True, timeout=timeout)
    return p.returncode, p.stdout
os.makedirs("/tmp/sr", exist_ok=True)
sh("git -C /repo worktree remove --force %s" % wt); shutil.rmtree(wt, ignore_errors=True)
sh("git -C /repo worktree add --detach %s HEAD" % wt)
rc, out = sh("git apply %s" % os.path.join(d, "patch.diff"), cwd=wt)
res = {"at": time.strftime("%Y-%m-%dT%H:%M:%SZ", time.gmtime()), "base_commit": sh("git -C /repo rev-parse --short HEAD")[1].strip()}
if rc != 0:
    rc, out = sh("git apply -3 %s" % os.path.join(d, "patch.diff"), cwd=wt)
if rc != 0:
    res["applied"] = "FAILED " + out[-200:]
else:
    res["applied"] = "ok"
    env = dict(os.environ, VERIF_REPO=wt)
    t0 = time.time()
    rcc, outc = sh("./check %s --tier quick" % pid, cwd=VERIF, env=env)
    lines = outc.split("\n")
    res["check_rc"] = rcc
    res["wall_s"] = round(time.time() - t0, 1)
    res["violation_lines"] = [l[:300] for l in lines if l.startswith("VIOLATION")][:4]
    res["messages"] = [l.strip()[:300] for l in lines if l.startswith("  ")][:4]
    res["detected_with_concrete_replay"] = any(l.startswith("VIOLATION") and "no-failing-input-found" not in l for l in lines)
    res["detected"] = any(l.startswith("VIOLATION") for l in lines)
m = json.load(open(os.path.join(d, "meta.json")))
m["recheck"] = res
json.dump(m, open(os.path.join(d, "meta.json"), "w"), indent=1)
sh("git -C /repo worktree remove --force %s" % wt); shutil.rmtree(wt, ignore_errors=True)
print(name, res.get("applied"), "concrete" if res.get("detected_with_concrete_replay") else ("broken-only" if res.get("detected") else "MISSED"), (res.get("messages") or [""])[0][:120])
