#!/bin/sh
# build_mdrv.sh <dom> — (re)build ocaml/mdrv_<dom> when, and only when, something it depends on
# changed: the extraction file or any .v it imports (decided by the coq_makefile dependency
# graph), or the hand-written OCaml glue.
set -e
dom=$1
cd "$(dirname "$0")/.."
make -s coqmk
( cd coq && timeout 3000 make -f Makefile.coq -j8 --no-print-directory COQC='timeout 900 coqc' extract/Extract_$dom.vo > /dev/null )
b=ocaml/_b_$dom
mkdir -p $b
if [ -f coq/model_$dom.ml ]; then
  mv coq/model_$dom.ml $b/model.ml; mv coq/model_$dom.mli $b/model.mli
fi
if [ ! -f $b/model.ml ]; then
  # the .vo was up to date but the extracted file is gone: force one extraction
  rm -f coq/extract/Extract_$dom.vo
  ( cd coq && timeout 3000 make -f Makefile.coq -j8 --no-print-directory COQC='timeout 900 coqc' extract/Extract_$dom.vo > /dev/null )
  mv coq/model_$dom.ml $b/model.ml; mv coq/model_$dom.mli $b/model.mli
fi
need=0
[ -x ocaml/mdrv_$dom ] || need=1
for f in $b/model.ml ocaml/util.ml ocaml/jvtext.ml ocaml/drv_$dom.ml ocaml/mdrv.ml; do
  [ $f -nt ocaml/mdrv_$dom ] && need=1
done
if [ $need = 1 ]; then
  cp ocaml/util.ml ocaml/jvtext.ml ocaml/drv_$dom.ml ocaml/mdrv.ml $b/
  ( cd $b && JV=$(grep -q Jvtext drv_$dom.ml && echo jvtext.ml || true) && \
    ocamlfind ocamlopt -w -a -inline 100 model.mli model.ml util.ml $JV drv_$dom.ml mdrv.ml -o mdrv_$dom.new && \
    mv mdrv_$dom.new ../mdrv_$dom )
fi
