# /verif/Makefile — builds the Coq development, the extracted model drivers (one per
# domain: coq/extract/Extract_<dom>.v + ocaml/drv_<dom>.ml -> ocaml/mdrv_<dom>), and
# (setup) the cmake-generated config headers and the sanitizer build of the library.
# Everything is offline.
COQFILES := $(wildcard coq/theories/*.v) $(wildcard coq/extract/*.v)
DOMS := $(patsubst coq/extract/Extract_%.v,%,$(wildcard coq/extract/Extract_*.v))
COQMK := flock coq/.lock $(MAKE) -C coq -f Makefile.coq --no-print-directory

.PHONY: models setup coq clean coqmk
models:
	@for d in $(DOMS); do $(MAKE) -s ocaml/mdrv_$$d || echo "model driver $$d not built"; done

setup: coq models
	python3 -c "import sys; sys.path.insert(0,'lib'); import fw; print(fw.ensure_cfg()); fw.build_lib('asan')"
	@if [ -f tools/setup_extra.sh ]; then sh tools/setup_extra.sh; fi
	-@sh tools/selfcheck.sh

# (re)generate Makefile.coq when the set of files changes
coqmk:
	@cd coq && flock .lock sh -c '(cat _CoqProject.in; ls theories/*.v extract/*.v) > _CoqProject.new; \
	  if ! cmp -s _CoqProject.new _CoqProject || [ ! -f Makefile.coq ]; then mv _CoqProject.new _CoqProject; \
	  coq_makefile -f _CoqProject -o Makefile.coq; else rm _CoqProject.new; fi'

coq: coqmk
	-cd coq && timeout 3000 $(MAKE) -f Makefile.coq -j16 -k --no-print-directory COQC='timeout 900 coqc'
	@echo "(a .v file that failed to compile above is reported by the check of its property)"

# one property file and what it depends on
coq/theories/%.vo: coqmk
	@cd coq && timeout 3000 $(MAKE) -f Makefile.coq -j8 --no-print-directory COQC='timeout 900 coqc' theories/$*.vo

.PHONY: FORCE
FORCE:
ocaml/mdrv_%: FORCE
	@sh tools/build_mdrv.sh $*

clean:
	rm -rf build ocaml/_b_* ocaml/mdrv_* coq/Makefile.coq* coq/_CoqProject coq/theories/*.vo* coq/theories/*.glob coq/theories/.*.aux coq/extract/*.vo* coq/extract/*.glob coq/extract/.*.aux coq/.*.d
