#!/usr/bin/env python3
"""tr/locale_exits.py — translator for property C14.

On every run: preprocess json_tokener.c of the working tree with the real configuration
headers, isolate the body of json_tokener_parse_ex, enumerate EVERY exit of the function
(each `return`, every `goto` that jumps past the restore statements, the end of the body
when it can be reached) in lexical order, and for each exit reconstruct the straight-line
sequence of locale-protocol events that precede it (query / duplocale / newlocale / free /
switch / body / restore), with the outcome of each creating call as far as the enclosing
and the skipped `if` guards determine it.  The result is written as Gallina to
coq/theories/LocaleExits.v; the theorems of LocaleProofs.v / Properties_C14.v are then
re-checked against this regenerated definition.

Recognised shape (anything else => TranslatorError, reported loudly; the generated file
then carries `shape_recognised := false`, which breaks the theorem `C14_shape_recognised`):

  locale_t OLD = uselocale(NULL);                        EvQuery
  locale_t DUP = duplocale(OLD);                         EvDup o
  NEW = newlocale(LC_NUMERIC_MASK, "C", DUP);            EvNew o
  freelocale(DUP) / freelocale(NEW)                      EvFreeDup / EvFreeNew
  uselocale(NEW)                                         EvSwitch
  <top-level statement that contains strtod & co.>       EvBody
  uselocale(OLD)                                         EvRestore

The setlocale()/strdup() fallback (HAVE_SETLOCALE without HAVE_USELOCALE) is mapped onto the
same events: strdup(name) = EvDup, setlocale(LC_NUMERIC,"C") = EvSwitchC,
setlocale(LC_NUMERIC, OLD) = EvRestoreName, free(OLD) = EvFreeDup.

Soundness conditions that are CHECKED (else TranslatorError):
  * every locale call in the function is one of the recognised forms;
  * switch and restore are unconditional top-level statements; every other locale event
    sits either at top level or inside `if` blocks that end in `return`;
  * no goto crosses the switch; no goto enters the restore statements in the middle; no
    backward goto from behind the restore; a goto from before the restore to a label behind
    it is listed as an exit of its own (it skips the restore);
  * the mask argument of newlocale is the expansion of LC_NUMERIC_MASK, the name is "C".
Assumption made explicit in the output: duplocale fails only with ENOMEM (POSIX lists no
other `shall fail`), so skipping `if (DUP == NULL && errno == ENOMEM) return` means DUP is live.
"""
import os, re, subprocess, sys

HERE = os.path.dirname(os.path.abspath(__file__))
VERIF = os.path.dirname(HERE)
OUT = os.path.join(VERIF, "coq", "theories", "LocaleExits.v")
FUNC = "json_tokener_parse_ex"
CONVERSIONS = {"strtod", "strtof", "strtold", "atof", "sscanf", "json_tokener_parse_double", "json_parse_double"}
LOCALE_CALLS = {"uselocale", "duplocale", "newlocale", "freelocale", "setlocale"}


class TranslatorError(Exception):
    pass


# ------------------------------------------------------------------ preprocessing + lexing
def preprocess(repo, cfg, extra=()):
    src = os.path.join(repo, "json_tokener.c")
    cmd = ["gcc", "-E", "-D_GNU_SOURCE", "-I", cfg, "-I", repo] + list(extra) + [src]
    r = subprocess.run(cmd, stdout=subprocess.PIPE, stderr=subprocess.PIPE, text=True)
    if r.returncode != 0:
        raise TranslatorError("json_tokener.c does not preprocess: " + r.stderr[-500:])
    return r.stdout, src


def probe_macros():
    """what LC_NUMERIC_MASK / LC_NUMERIC / NULL expand to with this libc"""
    text = '#include <locale.h>\n#include <stddef.h>\n@@MASK LC_NUMERIC_MASK\n@@CAT LC_NUMERIC\n@@NUL NULL\n'
    r = subprocess.run(["gcc", "-E", "-P", "-D_GNU_SOURCE", "-x", "c", "-"], input=text, stdout=subprocess.PIPE,
                       stderr=subprocess.PIPE, text=True)
    if r.returncode != 0:
        raise TranslatorError("cannot probe <locale.h>: " + r.stderr[-300:])
    out = {}
    for l in r.stdout.split("\n"):
        m = re.match(r"@@(\w+) (.*)", l)
        if m:
            out[m.group(1)] = [t for t, _ in lex(m.group(2) + "\n", None)]
    if set(out) != {"MASK", "CAT", "NUL"}:
        raise TranslatorError("probe of <locale.h> macros failed")
    return out


TOKEN = re.compile(r"""
    (?P<ws>[ \t\r\f\v]+)
  | (?P<nl>\n)
  | (?P<str>L?"(?:\\.|[^"\\\n])*")
  | (?P<chr>L?'(?:\\.|[^'\\\n])*')
  | (?P<id>[A-Za-z_]\w*)
  | (?P<num>\.?\d(?:[eEpP][+-]|[\w.])*)
  | (?P<op>->|\+\+|--|<<=|>>=|<<|>>|<=|>=|==|!=|&&|\|\||[-+*/%&|^]=|\.\.\.|[{}()\[\];:,?~!<>=+\-*/%&|^.\#])
""", re.X)


def lex(text, mainfile):
    """tokens of the preprocessed text as (text, source_line); source_line is the line in
    `mainfile` (0 for tokens that come from other files)"""
    toks = []
    pos = 0
    cur_file, cur_line = mainfile, 1
    n = len(text)
    bol = True
    while pos < n:
        if bol and text[pos] == "#":
            e = text.find("\n", pos)
            e = n if e < 0 else e
            m = re.match(r'#\s*(?:line\s+)?(\d+)\s+"((?:\\.|[^"\\])*)"', text[pos:e])
            if m:
                cur_line, cur_file = int(m.group(1)), m.group(2)
            pos = e + 1
            bol = True
            continue
        m = TOKEN.match(text, pos)
        if not m:
            raise TranslatorError("cannot tokenise preprocessed source near %r" % text[pos:pos + 30])
        pos = m.end()
        k = m.lastgroup
        if k == "nl":
            cur_line += 1
            bol = True
            continue
        if k == "ws":
            continue
        bol = False
        toks.append((m.group(0), cur_line if (mainfile is None or cur_file == mainfile) else 0))
    return toks


def match_close(toks, i, op, cl):
    """index of the token closing the bracket opened at i"""
    d = 0
    for j in range(i, len(toks)):
        t = toks[j][0]
        if t == op:
            d += 1
        elif t == cl:
            d -= 1
            if d == 0:
                return j
    raise TranslatorError("unbalanced %s at token %d" % (op, i))


def find_function(toks):
    for i in range(len(toks) - 1):
        if toks[i][0] == FUNC and toks[i + 1][0] == "(":
            j = match_close(toks, i + 1, "(", ")")
            if j + 1 < len(toks) and toks[j + 1][0] == "{":
                return j + 1, match_close(toks, j + 1, "{", "}")
    raise TranslatorError("definition of %s not found" % FUNC)


# ------------------------------------------------------------------ structure
class Block:
    def __init__(self, kind, cond, start, parent, kwpos):
        self.kind, self.cond, self.start, self.parent, self.kwpos = kind, cond, start, parent, kwpos
        self.end = None
        self.ends_in_return = False

    def chain(self):
        """enclosing non-plain blocks, outermost first (self included when non-plain)"""
        out = []
        b = self
        while b is not None:
            if b.kind != "plain":
                out.append(b)
            b = b.parent
        return out[::-1]


def split_args(toks, lo, hi):
    """split toks[lo:hi] at top-level commas -> list of token-text lists"""
    args, cur, d = [], [], 0
    for t, _ in toks[lo:hi]:
        if t in "([{":
            d += 1
        elif t in ")]}":
            d -= 1
        if t == "," and d == 0:
            args.append(cur)
            cur = []
        else:
            cur.append(t)
    args.append(cur)
    return args


def strip_parens(ts):
    while len(ts) >= 2 and ts[0] == "(" and ts[-1] == ")":
        d = 0
        ok = True
        for k, t in enumerate(ts):
            if t == "(":
                d += 1
            elif t == ")":
                d -= 1
                if d == 0 and k != len(ts) - 1:
                    ok = False
                    break
        if not ok:
            break
        ts = ts[1:-1]
    return ts


class Analysis:
    def __init__(self, toks, lo, hi, macros):
        self.t = toks
        self.lo, self.hi = lo, hi        # indices of the function's '{' and '}'
        self.macros = macros
        self.null_forms = [macros["NUL"], ["0"], ["(", "locale_t", ")", "0"], ["NULL"]]
        self.blocks = {}                 # index of '{' -> Block
        self.block_of = {}               # token index -> innermost Block
        self.build_blocks()

    def line(self, i):
        """source line of token i (nearest token of the main file when it comes from a macro/header)"""
        j = i
        while j > self.lo and self.t[j][1] == 0:
            j -= 1
        return self.t[j][1]

    def is_null(self, ts):
        ts = strip_parens(list(ts))
        return any(ts == strip_parens(list(f)) for f in self.null_forms)

    # -- blocks
    def header_of(self, i):
        """kind, cond-tokens, keyword position for the statement body starting at token i
        (either '{' or the first token of a braceless body)"""
        p = self.t[i - 1][0]
        if p == ")":
            # find the matching '('
            d = 0
            j = i - 1
            while j > self.lo:
                if self.t[j][0] == ")":
                    d += 1
                elif self.t[j][0] == "(":
                    d -= 1
                    if d == 0:
                        break
                j -= 1
            kw = self.t[j - 1][0]
            if kw in ("if", "while", "for", "switch"):
                return kw, [x for x, _ in self.t[j + 1:i - 1]], j - 1
            return "plain", None, i     # e.g. a compound literal / statement expression: not expected
        if p == "else":
            return "else", None, i - 1
        if p == "do":
            return "do", None, i - 1
        return "plain", None, i

    def build_blocks(self):
        stack = []
        cur = None
        for i in range(self.lo, self.hi + 1):
            t = self.t[i][0]
            if t == "{":
                if i == self.lo:
                    b = Block("plain", None, i, None, i)
                else:
                    kind, cond, kw = self.header_of(i)
                    b = Block(kind, cond, i, cur, kw)
                self.blocks[i] = b
                stack.append(b)
                cur = b
                self.block_of[i] = b
            elif t == "}":
                self.block_of[i] = cur
                cur.end = i
                # does the block end in `return …;` ?
                j = i - 1
                if self.t[j][0] == ";":
                    k = j - 1
                    while k > cur.start and self.t[k][0] not in (";", "{", "}"):
                        k -= 1
                    cur.ends_in_return = self.t[k + 1][0] == "return"
                stack.pop()
                cur = stack[-1] if stack else None
            else:
                self.block_of[i] = cur
        if stack:
            raise TranslatorError("unbalanced braces in the function body")

    def stmt_start(self, i):
        """index of the first token of the statement containing token i"""
        j = i - 1
        d = 0
        while j > self.lo:
            t = self.t[j][0]
            if t == ")":
                d += 1
            elif t == "(":
                d -= 1
            elif d == 0 and t in (";", "{", "}"):
                break
            elif d == 0 and t == ":" and self.t[j - 1][0] not in ("?",):
                # label or case
                break
            j -= 1
        return j + 1

    def braceless_guard(self, i):
        """if the statement containing token i is the braceless body of if/while/for/else/do,
        return (kind, cond, kwpos), else None.  The statement start is found by scanning
        back to the previous ; { } — a header `if ( … )` then shows up at depth 0 before it."""
        s = self.stmt_start(i)
        first = self.t[s][0]
        if first in ("if", "while", "for", "switch") and self.t[s + 1][0] == "(":
            c = match_close(self.t, s + 1, "(", ")")
            if c < i:
                return first, [x for x, _ in self.t[s + 2:c]], s
        if first in ("else", "do"):
            return first, None, s
        return None

    def chain_at(self, i):
        """guard chain of token i: enclosing non-plain blocks + a braceless header if any"""
        ch = self.block_of[i].chain()
        g = self.braceless_guard(i)
        if g:
            b = Block(g[0], g[1], g[2], self.block_of[i], g[2])
            b.end = i
            b.braceless = True
            ch = ch + [b]
        return ch


# ------------------------------------------------------------------ events
class Ev:
    def __init__(self, name, pos, chain, var=None):
        self.name, self.pos, self.chain, self.var = name, pos, chain, var
        self.outcome = None


def analyse(toks, macros):
    lo, hi = find_function(toks)
    A = Analysis(toks, lo, hi, macros)
    t = toks
    notes = []
    assumptions_pre = set()
    variant = None
    old = dup = new = None
    events = []
    # ---- every call of a locale function inside the body
    for i in range(lo, hi):
        name = t[i][0]
        if name in LOCALE_CALLS and t[i + 1][0] == "(":
            c = match_close(t, i + 1, "(", ")")
            args = split_args(t, i + 2, c)
            # assignment target:  [locale_t] V = call(...)   (V directly before '=')
            target = None
            if t[i - 1][0] == "=" and re.match(r"[A-Za-z_]\w*$", t[i - 2][0]):
                target = t[i - 2][0]
            ch = A.chain_at(i)
            ln = A.line(i)
            if name == "uselocale":
                variant = variant or "U"
                if len(args) != 1:
                    raise TranslatorError("line %d: uselocale with %d arguments" % (ln, len(args)))
                a = args[0]
                if A.is_null(a):
                    if target is None or old is not None:
                        raise TranslatorError("line %d: unexpected locale query uselocale(NULL)" % ln)
                    if ch:
                        raise TranslatorError("line %d: locale query inside a conditional" % ln)
                    old = target
                    events.append(Ev("EvQuery", i, ch, target))
                elif len(a) == 1 and a[0] == old:
                    if target is not None:
                        notes.append("line %d: result of uselocale(%s) is assigned" % (ln, old))
                    events.append(Ev("EvRestore", i, ch))
                elif len(a) == 1 and re.match(r"[A-Za-z_]\w*$", a[0]):
                    events.append(Ev("EvSwitch", i, ch, a[0]))
                else:
                    raise TranslatorError("line %d: unrecognised argument of uselocale: %s" % (ln, " ".join(a)))
            elif name == "duplocale":
                if len(args) != 1 or args[0] != [old] or target is None:
                    raise TranslatorError("line %d: duplocale not of the form V = duplocale(%s)" % (ln, old))
                if dup is not None:
                    raise TranslatorError("line %d: second duplocale" % ln)
                dup = target
                events.append(Ev("EvDup", i, ch, target))
            elif name == "newlocale":
                if len(args) != 3 or target is None:
                    raise TranslatorError("line %d: newlocale not of the form V = newlocale(mask, name, base)" % ln)
                if strip_parens(args[0]) != strip_parens(list(macros["MASK"])):
                    raise TranslatorError("line %d: newlocale mask is not LC_NUMERIC_MASK: %s" % (ln, " ".join(args[0])))
                if args[1] != ['"C"']:
                    raise TranslatorError("line %d: newlocale name is not \"C\": %s" % (ln, " ".join(args[1])))
                base = args[2]
                if not (len(base) == 1 and base[0] == dup and dup is not None):
                    raise TranslatorError("line %d: newlocale base is not the duplicated locale (%s): the call would modify "
                                          "or replace the caller's own locale object — configuration without HAVE_DUPLOCALE "
                                          "is not modelled" % (ln, " ".join(base)))
                if new is not None:
                    raise TranslatorError("line %d: second newlocale" % ln)
                new = target
                events.append(Ev("EvNew", i, ch, target))
            elif name == "freelocale":
                if len(args) != 1 or len(args[0]) != 1:
                    raise TranslatorError("line %d: unrecognised freelocale argument" % ln)
                v = args[0][0]
                if v == dup and dup is not None:
                    events.append(Ev("EvFreeDup", i, ch, v))
                elif v == new and new is not None:
                    events.append(Ev("EvFreeNew", i, ch, v))
                elif v == new or new is None:
                    # freelocale(NEW) lexically before NEW's creation cannot happen; unknown var
                    raise TranslatorError("line %d: freelocale(%s): not a locale object created in this function" % (ln, v))
                else:
                    raise TranslatorError("line %d: freelocale(%s): not a locale object created in this function" % (ln, v))
            elif name == "setlocale":
                if variant == "U":
                    raise TranslatorError("line %d: setlocale call in the uselocale variant" % ln)
                variant = "S"
                if len(args) != 2 or strip_parens(args[0]) != strip_parens(list(macros["CAT"])):
                    raise TranslatorError("line %d: setlocale category is not LC_NUMERIC" % ln)
                a = args[1]
                if A.is_null(a):
                    if target is None:
                        raise TranslatorError("line %d: setlocale query without target" % ln)
                    events.append(Ev("EvQuery", i, ch, target))
                elif a == ['"C"']:
                    events.append(Ev("EvSwitchC", i, ch))
                elif len(a) == 1 and re.match(r"[A-Za-z_]\w*$", a[0]):
                    events.append(Ev("EvRestoreName", i, ch, a[0]))
                else:
                    raise TranslatorError("line %d: unrecognised setlocale argument" % ln)
    if variant is None:
        raise TranslatorError("no uselocale()/setlocale() call in %s: the function no longer switches the numeric locale "
                              "(or the configuration has neither HAVE_USELOCALE nor HAVE_SETLOCALE)" % FUNC)
    if variant == "S":
        events = setlocale_variant(A, events, notes)
        old = dup = new = None
        # `if (TMP) { OLD = strdup(TMP); … }` with TMP = setlocale(LC_NUMERIC, NULL): the query of a valid
        # category never returns NULL, so the block is executed unconditionally
        tmp = [e.var for e in events if e.name == "EvQuery"][0]
        for b in A.blocks.values():
            if b.kind == "if" and b.cond == [tmp]:
                b.kind = "plain"
                assumptions_pre.add("setlocale(LC_NUMERIC, NULL) does not return NULL")
        for e in events:
            e.chain = A.chain_at(e.pos)
    else:
        for e in events:
            if e.name == "EvSwitch" and e.var != new:
                raise TranslatorError("line %d: uselocale(%s): not the locale created by newlocale" % (A.line(e.pos), e.var))
    # ---- body: top-level statements that contain a number conversion
    anchors = {}
    for i in range(lo, hi):
        if t[i][0] in CONVERSIONS and t[i + 1][0] == "(":
            ch = A.chain_at(i)
            anchor = ch[0].kwpos if ch else A.stmt_start(i)
            anchors.setdefault(anchor, []).append(t[i][0])
    if not anchors:
        raise TranslatorError("no number conversion call (strtod & co.) found in the body of %s" % FUNC)
    for a in sorted(anchors):
        events.append(Ev("EvBody", a, [], ",".join(sorted(set(anchors[a])))))
    events.sort(key=lambda e: e.pos)

    # ---- structural checks on event placement
    def top_level(e):
        return not e.chain
    switches = [e for e in events if e.name in ("EvSwitch", "EvSwitchC")]
    restores = [e for e in events if e.name in ("EvRestore", "EvRestoreName")]
    if len(switches) > 1:
        raise TranslatorError("more than one locale switch")
    if len(restores) != 1:
        raise TranslatorError("%d restore statements (uselocale(old)); exactly one expected" % len(restores))
    for e in switches + restores + [e for e in events if e.name == "EvQuery"]:
        if not top_level(e):
            raise TranslatorError("line %d: %s is conditional" % (A.line(e.pos), e.name))
    for e in events:
        for b in e.chain:
            if b.kind != "if":
                raise TranslatorError("line %d: %s inside a %s block" % (A.line(e.pos), e.name, b.kind))
            if getattr(b, "braceless", False) or not b.ends_in_return:
                if not (variant == "S" and e.name == "EvDup"):
                    raise TranslatorError("line %d: %s inside an `if` that falls through" % (A.line(e.pos), e.name))
    sw = switches[0].pos if switches else None
    rs = restores[0].pos
    if sw is not None and not sw < rs:
        raise TranslatorError("restore precedes the switch")
    # the statements of the restore block: restore + the frees that follow it at top level
    tail_frees = [e for e in events if e.pos > rs and e.name in ("EvFreeNew", "EvFreeDup")]
    re_end = max([rs] + [e.pos for e in tail_frees])

    # ---- labels and gotos
    labels = {}
    for i in range(lo + 1, hi):
        if t[i + 1][0] == ":" and re.match(r"[A-Za-z_]\w*$", t[i][0]) and t[i][0] not in ("default",) \
                and t[i - 1][0] in (";", "{", "}", ":") and t[i + 2][0] != ":":
            if t[i - 1][0] == ":" and t[i - 2][0] == "?":
                continue
            labels[t[i][0]] = i
    gotos = [(i, t[i + 1][0]) for i in range(lo, hi) if t[i][0] == "goto"]
    goto_exits = []
    for g, lab in gotos:
        if lab not in labels:
            raise TranslatorError("line %d: goto to unknown label %s" % (A.line(g), lab))
        l = labels[lab]
        if sw is not None and (g < sw) != (l < sw):
            raise TranslatorError("line %d: goto %s crosses the locale switch" % (A.line(g), lab))
        if g < rs and l > rs:
            if l < re_end:
                raise TranslatorError("line %d: goto %s enters the restore block in the middle" % (A.line(g), lab))
            goto_exits.append((g, lab))
        if g > rs and l < re_end:
            raise TranslatorError("line %d: backward goto %s from behind the restore" % (A.line(g), lab))
    for lab, l in labels.items():
        if rs < l < re_end:
            raise TranslatorError("label %s inside the restore block" % lab)

    # ---- exits
    exits = []
    for i in range(lo, hi):
        if t[i][0] == "return":
            exits.append(("Return", i))
    for g, lab in goto_exits:
        exits.append(("GotoPastRestore", g))
    # the end of the body is an exit when the last statement is not a return/goto
    j = hi - 1
    if t[j][0] == ";":
        k = A.stmt_start(j)
        if t[k][0] not in ("return", "goto"):
            exits.append(("End", hi))
    else:
        exits.append(("End", hi))
    exits.sort(key=lambda x: x[1])

    # ---- paths
    def prefix(c1, c2):
        """is guard chain c1 (list of Blocks) a prefix of c2 (by block identity/position)"""
        if len(c1) > len(c2):
            return False
        return all(a.start == b.start for a, b in zip(c1, c2))

    def cond_conjuncts(cond):
        if cond is None:
            return None
        parts, cur, d = [], [], 0
        for x in cond:
            if x in "([":
                d += 1
            elif x in ")]":
                d -= 1
            if d == 0 and x == "||":
                return None
            if d == 0 and x == "&&":
                parts.append(cur)
                cur = []
            else:
                cur.append(x)
        parts.append(cur)
        return [strip_parens(p) for p in parts]

    def null_test(conj):
        """variable asserted NULL by this conjunct, or None"""
        if len(conj) == 2 and conj[0] == "!":
            return conj[1]
        if "==" in conj:
            k = conj.index("==")
            l, r = strip_parens(conj[:k]), strip_parens(conj[k + 1:])
            if len(l) == 1 and A.is_null(r):
                return l[0]
            if len(r) == 1 and A.is_null(l):
                return r[0]
        return None

    def is_enomem(conj):
        # errno == ENOMEM after preprocessing: (*__errno_location ()) == 12
        s = " ".join(conj)
        return "errno" in s and "==" in conj and conj[-1] == "12"

    out = []
    assumptions = set(assumptions_pre)
    for kind, pos in exits:
        ch = A.chain_at(pos) if kind != "End" else []
        path = []
        known = {}          # creating variable -> 'Succ' | 'Fail'
        # enclosing guards: V == NULL  ==> creation of V failed
        for b in ch:
            if b.kind == "if":
                cj = cond_conjuncts(b.cond)
                if cj:
                    for c in cj:
                        v = null_test(c)
                        if v:
                            known[v] = "Fail"
        # skipped `if (V == NULL [&& errno == ENOMEM]) { …; return }` blocks ==> creation of V succeeded
        for bi, b in A.blocks.items():
            if b.kind == "if" and b.end is not None and b.end < pos and b.ends_in_return and prefix(b.chain()[:-1], ch) \
                    and not any(x.start == b.start for x in ch):
                cj = cond_conjuncts(b.cond)
                if not cj:
                    continue
                v = null_test(cj[0])
                if v and len(cj) == 1:
                    known.setdefault(v, "Succ")
                elif v and len(cj) == 2 and is_enomem(cj[1]):
                    if v not in known:
                        known[v] = "Succ"
                        assumptions.add("duplocale fails only with ENOMEM")
        for e in events:
            if e.pos < pos and prefix(e.chain, ch):
                if e.name in ("EvDup", "EvNew"):
                    # the guard only speaks about the value the variable got from this call if
                    # the variable is not assigned again in between: checked below
                    path.append((e.name, known.get(e.var, "Any")))
                else:
                    path.append((e.name, None))
        out.append(dict(kind=kind, pos=pos, line=A.line(pos) if kind != "End" else A.line(hi), path=path))
    # variables holding created objects must be assigned exactly once in the body
    for v in [x for x in (dup, new) if x]:
        n = sum(1 for i in range(lo, hi) if t[i][0] == v and t[i + 1][0] == "=" and t[i + 2][0] != "=")
        if n != 1:
            raise TranslatorError("variable %s is assigned %d times" % (v, n))
    if old:
        n = sum(1 for i in range(lo, hi) if t[i][0] == old and t[i + 1][0] == "=" and t[i + 2][0] != "=")
        if n != 1:
            raise TranslatorError("variable %s is assigned %d times" % (old, n))

    # ---- booleans, by the translator's own simulation of the protocol (LocaleModel.run mirrors it)
    for x in out:
        names = [p[0] for p in x["path"]]
        x["after_switch"] = any(n in ("EvSwitch", "EvSwitchC") for n in names)
        finals = [simulate(p) for p in expand(x["path"])]
        x["restores"] = all(f["cur"] == "entry" for f in finals) and \
            (not x["after_switch"] or any(n in ("EvRestore", "EvRestoreName") for n in names))
        x["frees_created"] = all(not f["live"] and not f["bad"] for f in finals)
    info = dict(variant=variant, vars=dict(old=old, dup=dup, new=new), notes=notes, assumptions=sorted(assumptions),
                func_lines=(A.line(lo), A.line(hi)),
                switch_line=A.line(sw) if sw is not None else None, restore_line=A.line(rs),
                body=[(A.line(e.pos), e.var) for e in events if e.name == "EvBody"],
                creations=[(e.name, A.line(e.pos), e.var) for e in events if e.name in ("EvDup", "EvNew")],
                frees=[(e.name, A.line(e.pos), e.var) for e in events if e.name in ("EvFreeDup", "EvFreeNew")],
                labels={k: A.line(v) for k, v in labels.items()}, ngotos=len(gotos))
    return out, info


def setlocale_variant(A, events, notes):
    """complete the event list of the setlocale()/strdup() fallback: OLD = strdup(TMP) is the
    creation (EvDup), free(OLD) its release (EvFreeDup)"""
    t = A.t
    q = [e for e in events if e.name == "EvQuery"]
    r = [e for e in events if e.name == "EvRestoreName"]
    if len(q) != 1 or len(r) != 1:
        raise TranslatorError("setlocale variant: expected one query and one restore")
    tmp, oldname = q[0].var, r[0].var
    found_dup = found_free = False
    for i in range(A.lo, A.hi):
        if t[i][0] in ("strdup", "xstrdup", "__strdup", "__builtin_strdup") and t[i + 1][0] == "(":
            c = match_close(t, i + 1, "(", ")")
            if [x for x, _ in t[i + 2:c]] == [tmp]:
                if not (t[i - 1][0] == "=" and t[i - 2][0] == oldname):
                    raise TranslatorError("line %d: copy of the locale name is not stored in %s" % (A.line(i), oldname))
                e = Ev("EvDup", i, A.chain_at(i), oldname)
                events.append(e)
                found_dup = True
        if t[i][0] in ("free", "xfree") and t[i + 1][0] == "(" and t[i + 2][0] == oldname and t[i + 3][0] == ")":
            events.append(Ev("EvFreeDup", i, A.chain_at(i), oldname))
            found_free = True
    if not found_dup:
        raise TranslatorError("setlocale variant: the locale name returned by setlocale(LC_NUMERIC, NULL) is not copied "
                              "(it is overwritten by the next setlocale call)")
    notes.append("setlocale()/strdup() fallback: the switch is process-wide, not per thread")
    return events


def expand(path):
    """concrete paths: every Any replaced by Succ and by Fail"""
    outs = [[]]
    for name, o in path:
        if o == "Any":
            outs = [p + [(name, x)] for p in outs for x in ("Succ", "Fail")]
        else:
            outs = [p + [(name, o)] for p in outs]
    return outs


def simulate(path):
    """the protocol of LocaleModel.v, mirrored: returns final cur / live set / bad flag"""
    s = dict(cur="entry", live=set(), nxt=0, old=None, dup=None, new=None, bad=False)
    for name, o in path:
        if name == "EvQuery":
            s["old"] = s["cur"]
        elif name == "EvDup":
            if o == "Succ":
                s["dup"] = s["nxt"]; s["live"].add(s["nxt"]); s["nxt"] += 1
            else:
                s["dup"] = None
        elif name == "EvNew":
            if o == "Succ":
                if s["dup"] is not None:
                    if s["dup"] in s["live"]:
                        s["live"].discard(s["dup"])
                    else:
                        s["bad"] = True
                s["new"] = s["nxt"]; s["live"].add(s["nxt"]); s["nxt"] += 1
            else:
                s["new"] = None
        elif name in ("EvFreeDup", "EvFreeNew"):
            v = s["dup"] if name == "EvFreeDup" else s["new"]
            if v is not None and v in s["live"]:
                s["live"].discard(v)
                if s["cur"] == v:
                    s["bad"] = True      # freeing the locale in use
            else:
                s["bad"] = True
        elif name == "EvSwitch":
            if s["new"] is not None and s["new"] in s["live"]:
                s["cur"] = s["new"]
            else:
                s["bad"] = True
        elif name == "EvSwitchC":
            s["cur"] = "C"
        elif name == "EvRestore":
            s["cur"] = s["old"] if s["old"] is not None else "garbage"
        elif name == "EvRestoreName":
            # setlocale(LC_NUMERIC, OLD): restores iff the name copy exists
            if s["dup"] is not None and s["dup"] in s["live"]:
                s["cur"] = "entry"
            else:
                s["bad"] = True
        elif name == "EvBody":
            pass
    return s


# ------------------------------------------------------------------ the rest of the library
STRAY_RE = re.compile(r"\b(uselocale|setlocale|newlocale|duplocale|freelocale)\s*\(")


def stray_locale_calls(repo, cfg, parse_ex_lines, extra=()):
    """every call of a locale-changing function in the library sources (all *.c of the repo root, preprocessed with
    the real configuration) OUTSIDE json_tokener_parse_ex: [(file, line, name)].  None is expected: the serializer
    and every other entry point must leave the caller's locale alone simply by never touching it."""
    import glob
    out = []
    for src in sorted(glob.glob(os.path.join(repo, "*.c"))):
        r = subprocess.run(["gcc", "-E", "-D_GNU_SOURCE", "-I", cfg, "-I", repo] + list(extra) + [src],
                           stdout=subprocess.PIPE, stderr=subprocess.PIPE, text=True)
        if r.returncode != 0:
            raise TranslatorError("%s does not preprocess: %s" % (os.path.basename(src), r.stderr[-300:]))
        cur_file, cur_line = src, 0
        base = os.path.basename(src)
        for l in r.stdout.split("\n"):
            if l.startswith("#"):
                m = re.match(r'#\s*(?:line\s+)?(\d+)\s+"((?:\\.|[^"\\])*)"', l)
                if m:
                    cur_line, cur_file = int(m.group(1)) - 1, m.group(2)
                continue
            cur_line += 1
            if cur_file != src:
                continue
            for m in STRAY_RE.finditer(l):
                if base == "json_tokener.c" and parse_ex_lines[0] <= cur_line <= parse_ex_lines[1]:
                    continue
                out.append((base, cur_line, m.group(1)))
    return out


# ------------------------------------------------------------------ output
def coq_bool(b):
    return "true" if b else "false"


def coq_ev(p):
    name, o = p
    return "%s O%s" % (name, o) if o else name


def render(exits, info, repo, error=None):
    L = []
    L.append("(* LocaleExits.v — GENERATED by tr/locale_exits.py on every run of ./check C14 from the")
    L.append("   preprocessed json_tokener.c of the working tree.  DO NOT EDIT.")
    L.append("   Every exit of json_tokener_parse_ex in lexical order, with the straight-line sequence of")
    L.append("   locale-protocol events that precedes it. *)")
    L.append("From Coq Require Import List.")
    L.append("From JC Require Import LocaleModel.")
    L.append("Import ListNotations.")
    L.append("")
    if error is not None:
        L.append("(* TRANSLATOR ERROR: the source shape was not recognised:")
        L.append("   %s *)" % error.replace("*)", "* )").replace("(*", "( *"))
        L.append("Definition shape_recognised : bool := false.")
        L.append("Definition stray_locale_calls : nat := 0.")
        L.append("Definition exits : list exit_desc := [].")
        return "\n".join(L) + "\n"
    L.append("(* variant: %s   variables: %s" % ({"U": "uselocale/duplocale/newlocale (per thread)",
                                                  "S": "setlocale/strdup fallback (process-wide)"}[info["variant"]], info["vars"]))
    L.append("   switch at line %s, restore at line %s, body statements (number conversions) at %s" %
             (info["switch_line"], info["restore_line"], info["body"]))
    L.append("   creations: %s" % info["creations"])
    L.append("   frees:     %s" % info["frees"])
    L.append("   labels: %s; %d gotos checked" % (info["labels"], info["ngotos"]))
    for a in info["assumptions"]:
        L.append("   assumption used for the outcomes: %s" % a)
    for n in info["notes"]:
        L.append("   note: %s" % n)
    L.append("*)")
    L.append("Definition shape_recognised : bool := true.")
    L.append("")
    L.append("(* calls of uselocale/setlocale/newlocale/duplocale/freelocale in the library sources (all *.c, preprocessed)")
    L.append("   outside json_tokener_parse_ex (lines %s-%s of json_tokener.c): %s *)" % (
        info["func_lines"][0], info["func_lines"][1],
        "none" if not info["stray"] else "; ".join("%s:%d %s" % x for x in info["stray"])))
    L.append("Definition stray_locale_calls : nat := %d." % len(info["stray"]))
    L.append("")
    L.append("Definition exits : list exit_desc := [")
    rows = []
    for x in exits:
        rows.append("  {| line := %d; kind := %s; after_switch := %s; restores := %s; frees_created := %s;\n"
                    "     path := [%s] |}" % (x["line"], "K" + x["kind"], coq_bool(x["after_switch"]), coq_bool(x["restores"]),
                                              coq_bool(x["frees_created"]), "; ".join(coq_ev(p) for p in x["path"])))
    L.append(";\n".join(rows))
    L.append("].")
    return "\n".join(L) + "\n"


def translate(repo, cfg, extra=()):
    macros = probe_macros()
    text, src = preprocess(repo, cfg, extra)
    toks = lex(text, src)
    exits, info = analyse(toks, macros)
    info["stray"] = stray_locale_calls(repo, cfg, info["func_lines"], extra)
    return exits, info


def regenerate(repo, cfg, out=OUT, extra=()):
    """returns (ok, message, exits, info); always leaves a LocaleExits.v behind"""
    try:
        exits, info = translate(repo, cfg, extra)
        text = render(exits, info, repo)
        ok, msg = True, "%d exits" % len(exits)
    except TranslatorError as e:
        exits, info = [], {}
        text = render([], {}, repo, error=str(e))
        ok, msg = False, str(e)
    old = None
    try:
        old = open(out).read()
    except OSError:
        pass
    if old != text:
        tmp = out + ".tmp.%d" % os.getpid()
        with open(tmp, "w") as f:
            f.write(text)
        os.replace(tmp, out)
    return ok, msg, exits, info


if __name__ == "__main__":
    sys.path.insert(0, os.path.join(VERIF, "lib"))
    import fw
    cfg = fw.ensure_cfg()
    out = OUT
    extra = []
    args = sys.argv[1:]
    if args and args[0] == "--stdout":
        try:
            ex, info = translate(fw.REPO, cfg, args[1:])
            sys.stdout.write(render(ex, info, fw.REPO))
        except TranslatorError as e:
            print("TRANSLATOR ERROR (source shape not recognised): %s" % e)
            sys.exit(1)
        sys.exit(0)
    ok, msg, ex, info = regenerate(fw.REPO, cfg, out, args)
    if not ok:
        print("TRANSLATOR ERROR (source shape not recognised): %s" % msg)
        sys.exit(1)
    print("%s: %s" % (out, msg))
    print("  locale calls outside json_tokener_parse_ex: %s" % (info.get("stray") or "none"))
    for x in ex:
        print("  line %-5d %-16s after_switch=%-5s restores=%-5s frees_created=%-5s %s" % (
            x["line"], x["kind"], x["after_switch"], x["restores"], x["frees_created"], " ".join(coq_ev(p) for p in x["path"])))
