"""tr/atomics.py — source -> Gallina translator for property C18.

On every run it preprocesses json_object.c and linkhash.c of the working tree with the
defines of the threaded (TSan) build and extracts, by pattern matching on the preprocessed
function bodies, the micro-operation programs of

  json_object_get   (the reference-count update)
  json_object_put   (the update and the destroy decision)
  lh_char_hash      (initialisation of the static random seed, and which value is handed
                     to hashlittle)

and regenerates coq/theories/ThreadImpl.v.  The theorems of Properties_C18.v are stated
about these regenerated definitions, so a source change to non-atomic code, to a destroy
decision that re-reads the field, or to a racy seed makes the proofs fail to re-check.

The translator is deliberately narrow: every statement of the three bodies up to the point
where the decision has been taken must be one of the shapes listed below, and every textual
occurrence of `_ref_count` / the seed variable in the translation units must be accounted
for.  Anything else raises Unrecognised for that function.  Then
  * coq/theories/ThreadImplCheck.v (generated too; Properties_C18.v depends on it) is a file that
    does NOT compile and names the reason: the proof obligation is reported broken;
  * ThreadImpl.v stays compilable: the unrecognised function gets the REFERENCE shape as a marked
    placeholder, so that ThreadModel / Extract_thr / the model driver still build and the runtime
    stream (TSan + exact counts) still runs and can produce a concrete failing replay.

Standalone use:  python3 tr/atomics.py [--repo DIR] [--print]
"""
import os, re, subprocess, sys

HERE = os.path.dirname(os.path.abspath(__file__))
VERIF = os.path.dirname(HERE)
OUT = os.path.join(VERIF, "coq", "theories", "ThreadImpl.v")
OUT_CHECK = os.path.join(VERIF, "coq", "theories", "ThreadImplCheck.v")


class Unrecognised(Exception):
    pass


# ------------------------------------------------------------------ preprocessing
def preprocess(repo, cfg, name, defines):
    cmd = ["gcc", "-E", "-P"] + list(defines) + ["-D_GNU_SOURCE", "-I", cfg, "-I", repo, os.path.join(repo, name)]
    r = subprocess.run(cmd, stdout=subprocess.PIPE, stderr=subprocess.PIPE, text=True)
    if r.returncode != 0:
        raise Unrecognised("%s does not preprocess: %s" % (name, r.stderr[-400:]))
    return r.stdout


def norm(s):
    return re.sub(r"\s+", " ", s).strip()


def match_close(text, i, open_ch, close_ch):
    """index of the bracket closing text[i] (which must be open_ch)"""
    assert text[i] == open_ch
    depth = 0
    j = i
    n = len(text)
    while j < n:
        ch = text[j]
        if ch == '"' or ch == "'":
            q = ch
            j += 1
            while j < n and text[j] != q:
                if text[j] == "\\":
                    j += 1
                j += 1
        elif ch == open_ch:
            depth += 1
        elif ch == close_ch:
            depth -= 1
            if depth == 0:
                return j
        j += 1
    raise Unrecognised("unbalanced %s" % open_ch)


def functions(tu):
    """top-level brace groups of a preprocessed translation unit: [(header, body, start)]"""
    out = []
    i, n, last = 0, len(tu), 0
    while i < n:
        ch = tu[i]
        if ch == '"' or ch == "'":
            q = ch
            i += 1
            while i < n and tu[i] != q:
                if tu[i] == "\\":
                    i += 1
                i += 1
        elif ch == ";":
            last = i + 1
        elif ch == "{":
            j = match_close(tu, i, "{", "}")
            out.append((norm(tu[last:i]), tu[i + 1:j], i))
            i = j
            last = j + 1
        i += 1
    return out


def find_function(tu, name):
    hits = [(h, b) for (h, b, _) in functions(tu) if re.search(r"\b%s\s*\([^()]*\)$" % re.escape(name), h)]
    if len(hits) != 1:
        raise Unrecognised("expected exactly one definition of %s, found %d" % (name, len(hits)))
    return hits[0]


# ------------------------------------------------------------------ a tiny statement splitter
def split_statements(body):
    """body text -> list of statements:
       ('if', cond, then_stmts, else_stmts|None) ('while', cond, stmts) ('block', stmts)
       ('simple', text-without-semicolon) ('switch', text)"""
    stmts = []
    i, n = 0, len(body)

    def skip_ws(k):
        while k < n and body[k].isspace():
            k += 1
        return k

    def one(k):
        k = skip_ws(k)
        if k >= n:
            return None, k
        if body[k] == "{":
            j = match_close(body, k, "{", "}")
            return ("block", split_statements(body[k + 1:j])), j + 1
        m = re.match(r"(if|while|switch|for)\b\s*\(", body[k:])
        if m:
            kw = m.group(1)
            p = k + m.end() - 1
            q = match_close(body, p, "(", ")")
            cond = norm(body[p + 1:q])
            sub, e = one(q + 1)
            if sub is None:
                raise Unrecognised("dangling %s" % kw)
            subl = sub[1] if sub[0] == "block" else [sub]
            if kw == "if":
                e2 = skip_ws(e)
                if body[e2:e2 + 4] == "else" and not (body[e2 + 4:e2 + 5].isalnum() or body[e2 + 4:e2 + 5] == "_"):
                    els, e3 = one(e2 + 4)
                    return ("if", cond, subl, els[1] if els[0] == "block" else [els]), e3
                return ("if", cond, subl, None), e
            if kw == "while":
                return ("while", cond, subl), e
            return (kw, cond, subl), e
        if body[k] == ";":
            return ("simple", ""), k + 1
        # simple statement up to the ';' at depth 0
        j = k
        depth = 0
        while j < n:
            ch = body[j]
            if ch in "([{":
                depth += 1
            elif ch in ")]}":
                depth -= 1
            elif ch == ";" and depth == 0:
                break
            elif ch == '"' or ch == "'":
                q = ch
                j += 1
                while j < n and body[j] != q:
                    if body[j] == "\\":
                        j += 1
                    j += 1
            j += 1
        return ("simple", norm(body[k:j])), j + 1

    while True:
        s, i = one(i)
        if s is None:
            break
        stmts.append(s)
    return stmts


def text_of(stmt):
    k = stmt[0]
    if k == "simple":
        return stmt[1] + ";"
    if k == "block":
        return "{ " + " ".join(text_of(s) for s in stmt[1]) + " }"
    if k == "if":
        t = "if (%s) { %s }" % (stmt[1], " ".join(text_of(s) for s in stmt[2]))
        if stmt[3] is not None:
            t += " else { %s }" % " ".join(text_of(s) for s in stmt[3])
        return t
    return "%s (%s) { %s }" % (k, stmt[1], " ".join(text_of(s) for s in stmt[2]))


# ------------------------------------------------------------------ reference count
RCF = r"jso\s*->\s*_ref_count"
NOP_STMT = re.compile(r"^\(\s*\(void\)\s*\(0\)\s*\)$|^\(void\)\s*0$|^$")
ASSERT_STMT = re.compile(r"^\(\s*\(?\s*(.*?)\s*\)?\s*\?\s*\(void\)\s*\(0\)\s*:\s*__assert_fail\s*\(.*\)\s*\)$")


def unwrap(t, drop_void=True):
    """normal form of a statement / expression text: `(jso)->` is `jso->`, enclosing parentheses
    and a leading (void) cast are dropped (macros such as JC_REF_DEC(jso) expand to
    `((void)__sync_sub_and_fetch(&(jso)->_ref_count, 1))`)"""
    t = re.sub(r"\(\s*jso\s*\)\s*->", "jso->", t.strip())
    while True:
        if t.startswith("(") and match_close(t, 0, "(", ")") == len(t) - 1:
            t = t[1:-1].strip()
            continue
        m = re.match(r"^\(\s*void\s*\)\s*", t)
        if drop_void and m:
            t = t[m.end():].strip()
            continue
        return t


ATOMIC_READ = re.compile(r"^(?:__sync_(?:add_and_fetch|sub_and_fetch|fetch_and_add|fetch_and_sub|or_and_fetch|fetch_and_or)"
                         r"\s*\(\s*&\s*%s\s*,\s*0\s*\)|__atomic_load_n\s*\(\s*&\s*%s\s*,\s*\w+\s*\))$" % (RCF, RCF))


def rc_expr(e):
    """ops computing expression e into reg (or None when e is not an rc expression)"""
    e = unwrap(e, drop_void=False)
    if ATOMIC_READ.match(e):
        return ["AtomicLoad RC"]
    m = re.match(r"^__sync_sub_and_fetch\s*\(\s*&\s*%s\s*,\s*(\d+)\s*\)$" % RCF, e)
    if m:
        return ["AtomicSubFetch RC %s" % m.group(1)]
    m = re.match(r"^__sync_add_and_fetch\s*\(\s*&\s*%s\s*,\s*(\d+)\s*\)$" % RCF, e)
    if m:
        raise Unrecognised("value of __sync_add_and_fetch used: %s" % e)
    if re.match(r"^--\s*%s$" % RCF, e):
        return ["Load RC", "Store RC (-1)"]
    if re.match(r"^%s$" % RCF, e):
        return ["Load RC"]
    return None


def rc_update_stmt(t):
    """ops of a simple statement that updates the count, result unused; None if not one"""
    t = unwrap(t)
    if ATOMIC_READ.match(t):
        return ["AtomicLoad RC"]            # a read whose value is discarded
    m = re.match(r"^__sync_add_and_fetch\s*\(\s*&\s*%s\s*,\s*(\d+)\s*\)$" % RCF, t)
    if m:
        return ["AtomicAdd RC %s" % m.group(1)]
    m = re.match(r"^__sync_sub_and_fetch\s*\(\s*&\s*%s\s*,\s*(\d+)\s*\)$" % RCF, t)
    if m:
        return ["AtomicSub RC %s" % m.group(1)]
    if re.match(r"^\+\+\s*%s$" % RCF, t) or re.match(r"^%s\s*\+\+$" % RCF, t):
        return ["Load RC", "Store RC 1"]
    if re.match(r"^--\s*%s$" % RCF, t) or re.match(r"^%s\s*--$" % RCF, t):
        return ["Load RC", "Store RC (-1)"]
    m = re.match(r"^%s\s*\+=\s*(\d+)$" % RCF, t)
    if m:
        return ["Load RC", "Store RC %s" % m.group(1)]
    m = re.match(r"^%s\s*-=\s*(\d+)$" % RCF, t)
    if m:
        return ["Load RC", "Store RC (-%s)" % m.group(1)]
    m = re.match(r"^%s\s*=\s*%s\s*([+-])\s*(\d+)$" % (RCF, RCF), t)
    if m:
        return ["Load RC", "Store RC %s" % (m.group(2) if m.group(1) == "+" else "(-%s)" % m.group(2))]
    return None


def flatten(stmts):
    """inline plain { } blocks (scopes do not matter for the shapes recognised here)"""
    out = []
    for s in stmts:
        if s[0] == "block":
            out += flatten(s[1])
        else:
            out.append(s)
    return out


LOCAL_DECL = re.compile(r"^(?:const\s+)?(?:uint32_t|unsigned|unsigned int|int|uint_fast32_t)\s+(\w+)\s*=\s*(.*)$")


def cas_once_stmt(t, reg_var):
    """`[(void)] __sync_{val,bool}_compare_and_swap(&rc, v, v +/- K)` as a statement (result
    ignored, no retry), v being the local that holds the value just loaded"""
    if reg_var is None:
        return None
    t = unwrap(t)
    m = re.match(r"^(?:\(void\)\s*)?__sync_(?:val|bool)_compare_and_swap\s*\(\s*&\s*%s\s*,\s*%s\s*,\s*%s\s*([+-])\s*(\d+)\s*\)$"
                 % (RCF, re.escape(reg_var), re.escape(reg_var)), t)
    if not m:
        return None
    return ["CASOnce RC %s" % (m.group(2) if m.group(1) == "+" else "(-%s)" % m.group(2))]


def is_null_guard(s, ret):
    return s[0] == "if" and s[3] is None and re.match(r"^!\s*jso$|^jso\s*==\s*(NULL|\(\(void \*\)0\)|0)$", s[1]) \
        and len(s[2]) == 1 and s[2][0] == ("simple", "return " + ret)


def count_rc(text):
    return len(re.findall(r"_ref_count", text))


def translate_get(body):
    stmts = flatten(split_statements(body))
    ops, used, done = [], 0, False
    reg_var = None
    shown = []
    for s in stmts:
        if done:
            raise Unrecognised("json_object_get: statement after return: " + text_of(s))
        if is_null_guard(s, "jso"):
            continue
        if s[0] == "simple":
            t = s[1]
            if NOP_STMT.match(t):
                continue
            m = ASSERT_STMT.match(t)
            if m and count_rc(t) == 0:
                continue                      # an assert on locals only
            if m:
                # an assert that survived preprocessing reads the field
                ops.append("AtomicLoad RC" if re.search(r"__sync_\w+\s*\([^()]*\(?\s*jso\s*\)?\s*->\s*_ref_count\s*,\s*0\s*\)", t) else "Load RC")
                reg_var = None
                used += count_rc(t)
                shown.append(t[:80] + " ...")
                continue
            u = rc_update_stmt(t)
            if u is not None:
                ops += u
                reg_var = None
                used += count_rc(t)
                shown.append(t + ";")
                continue
            m = LOCAL_DECL.match(t)
            if m and rc_expr(m.group(2)) == ["Load RC"]:
                ops.append("Load RC")
                reg_var = m.group(1)
                used += count_rc(t)
                shown.append(t + ";")
                continue
            u = cas_once_stmt(t, reg_var)
            if u is not None:
                ops += u
                used += count_rc(t)
                shown.append(t + ";")
                continue
            if t == "return jso":
                done = True
                continue
        raise Unrecognised("json_object_get: unrecognised statement: " + text_of(s)[:200])
    if not done:
        raise Unrecognised("json_object_get: no `return jso;`")
    if used != count_rc(body):
        raise Unrecognised("json_object_get: %d occurrence(s) of _ref_count not accounted for" % (count_rc(body) - used))
    if not ops:
        raise Unrecognised("json_object_get does not update _ref_count")
    return ops, shown


def translate_put(body):
    stmts = flatten(split_statements(body))
    ops, used, decided = [], 0, False
    reg_var = None          # a local variable currently holding the value of reg
    shown = []
    rest = []
    for s in stmts:
        if decided:
            rest.append(s)
            continue
        if is_null_guard(s, "0"):
            continue
        if s[0] == "simple":
            t = s[1]
            if NOP_STMT.match(t):
                continue
            m = ASSERT_STMT.match(t)
            if m and count_rc(t) == 0:
                continue
            if m:
                ops.append("AtomicLoad RC" if re.search(r"__sync_\w+\s*\([^()]*\(?\s*jso\s*\)?\s*->\s*_ref_count\s*,\s*0\s*\)", t) else "Load RC")
                reg_var = None
                used += count_rc(t)
                shown.append(t[:80] + " ...")
                continue
            u = rc_update_stmt(t)
            if u is not None:
                ops += u
                reg_var = None
                used += count_rc(t)
                shown.append(t + ";")
                continue
            u = cas_once_stmt(t, reg_var)
            if u is not None:
                ops += u
                reg_var = None        # the decision must not be taken on the pre-CAS value
                used += count_rc(t)
                shown.append(t + ";")
                continue
            m = LOCAL_DECL.match(t)
            if m:
                e = rc_expr(m.group(2))
                if e is None:
                    raise Unrecognised("json_object_put: unrecognised initialiser: " + t)
                ops += e
                reg_var = m.group(1)
                used += count_rc(t)
                shown.append(t + ";")
                continue
        if s[0] == "if" and s[3] is None and len(s[2]) == 1 and s[2][0] == ("simple", "return 0"):
            m = re.match(r"^(.*?)\s*(>|!=)\s*0$", s[1])
            if m:
                lhs = m.group(1).strip()
                while lhs.startswith("(") and match_close(lhs, 0, "(", ")") == len(lhs) - 1:
                    lhs = lhs[1:-1].strip()
                if reg_var is not None and lhs == reg_var:
                    ops.append("Branch")
                else:
                    e = rc_expr(lhs)
                    if e is None:
                        raise Unrecognised("json_object_put: destroy decision on an unrecognised value: " + s[1])
                    ops += e + ["Branch"]
                used += count_rc(s[1])
                shown.append("if (%s) return 0;" % s[1])
                decided = True
                continue
        raise Unrecognised("json_object_put: unrecognised statement before the destroy decision: " + text_of(s)[:200])
    if not decided:
        raise Unrecognised("json_object_put: no destroy decision of the form `if (<count> > 0) return 0;`")
    tail = " ".join(text_of(s) for s in rest)
    if "_user_delete" not in tail or not re.search(r"return 1\s*;", tail) or "json_object_generic_delete" not in tail:
        raise Unrecognised("json_object_put: the destroy path after the decision is not the expected one")
    if count_rc(tail):
        raise Unrecognised("json_object_put: _ref_count accessed again on the destroy path")
    if used != count_rc(body):
        raise Unrecognised("json_object_put: %d occurrence(s) of _ref_count not accounted for" % (count_rc(body) - used))
    return ops, shown


NONATOMIC_UPDATE = re.compile(r"(\+\+|--)\s*\w+\s*->\s*_ref_count|_ref_count\s*(\+\+|--|[-+*/|&^]?=(?!=))")


def fn_name(header):
    m = re.search(r"(\w+)\s*\([^()]*\)$", header)
    return m.group(1) if m else header[-60:]


def source_lines(repo, fname, func):
    """(line, text) of the lines mentioning _ref_count inside the definition of func in the
    ORIGINAL source file (the preprocessed text has no line numbers)"""
    try:
        src = open(os.path.join(repo, fname)).read()
    except OSError:
        return []
    m = re.search(r"^[A-Za-z_][^;{}()\n]*\b%s\s*\([^;{}]*\)\s*\{" % re.escape(func), src, re.M)
    if not m:
        return []
    start = m.end() - 1
    try:
        end = match_close(src, start, "{", "}")
    except Unrecognised:
        return []
    first = src.count("\n", 0, start) + 1
    out = []
    for i, l in enumerate(src[start:end].split("\n")):
        if "_ref_count" in l and not l.strip().startswith(("//", "*", "/*")):
            out.append((first + i, l.strip()))
    return out


def callers_closure(tu, target):
    """names of the functions of the translation unit from which `target` is reachable, where an
    edge g -> f is any mention of f in the body of g (a call, or its address handed to a table /
    array constructor as the entry-free function)"""
    fns = [(fn_name(h), b) for (h, b, _) in functions(tu) if re.search(r"\)$", h)]
    reach = {target}
    changed = True
    while changed:
        changed = False
        for name, body in fns:
            if name in reach:
                continue
            if any(re.search(r"\b%s\b" % re.escape(r), body) for r in reach):
                reach.add(name)
                changed = True
    return sorted(reach - {target})


def check_rc_sites(tu, repo=None, stray=None):
    """every occurrence of _ref_count in the translation unit is in get, put, the
    constructor's initialisation, or the struct declaration.  Every other function that touches
    the field is recorded in `stray` (function, source lines, whether it updates the count
    non-atomically, the functions it is reachable from) and reported."""
    msgs = []
    for (h, b, _) in functions(tu):
        k = count_rc(b)
        if not k:
            continue
        if re.search(r"\bjson_object_(get|put)\s*\([^()]*\)$", h):
            continue
        if re.match(r"^(typedef\s+)?struct json_object$", h) and k == 1 and re.search(r"uint32_t\s+_ref_count\s*;", b):
            continue
        if re.search(r"\bjson_object_new\s*\([^()]*\)$", h) and k == 1 and re.search(r"jso\s*->\s*_ref_count\s*=\s*1\s*;", b):
            continue
        name = fn_name(h)
        upd = bool(NONATOMIC_UPDATE.search(b))
        lines = source_lines(repo, "json_object.c", name) if repo else []
        where = ", ".join("json_object.c:%d `%s`" % (n, t[:60]) for n, t in lines) or "`%s`" % h[-100:]
        if stray is not None:
            stray.append(dict(function=name, file="json_object.c", lines=[n for n, _ in lines], nonatomic_update=upd,
                              reachable_from=callers_closure(tu, name)))
        msgs.append("%s of _ref_count outside json_object_get/put/new in %s(): %s"
                    % ("NON-ATOMIC UPDATE" if upd else "access", name, where))
    # the references a container holds on its members must be released through json_object_put
    for f in ("json_object_lh_entry_free", "json_object_array_entry_free"):
        hits = [b for (h, b, _) in functions(tu) if fn_name(h) == f]
        if len(hits) != 1 or not re.search(r"\bjson_object_put\s*\(", hits[0]):
            msgs.append("%s() does not release the member through json_object_put()" % f)
    if msgs:
        raise Unrecognised("; ".join(msgs))


# ------------------------------------------------------------------ seed
def translate_seed(body):
    stmts = split_statements(body)
    var = None
    local = None          # function-scope local copy of the seed variable
    ops = []
    shown = []
    used = 0
    state = "decl"

    def cnt(t):
        return len(re.findall(r"\b%s\b" % re.escape(var), t)) if var else 0

    def init_block(block, guard_local):
        nonlocal used
        b = []
        fresh = guard_local      # name of the variable holding the fresh value
        for s in block:
            if s[0] == "simple":
                t = s[1]
                m = re.match(r"^(?:int|long|LONG)\s+(\w+)$", t)
                if m and fresh is None:
                    fresh = m.group(1)
                    continue
                m = re.match(r"^(?:int|long|LONG)\s+(\w+)\s*=\s*json_c_get_random_seed\s*\(\s*\)$", t)
                if m and fresh is None:
                    fresh = m.group(1)
                    b.append("CallRandom")
                    shown.append(t + ";")
                    continue
                if fresh and re.match(r"^%s\s*=\s*json_c_get_random_seed\s*\(\s*\)$" % fresh, t):
                    b.append("CallRandom")
                    shown.append(t + ";")
                    continue
                if fresh and re.match(r"^\(void\)\s*__sync_val_compare_and_swap\s*\(\s*&\s*%s\s*,\s*-1\s*,\s*%s\s*\)$" % (var, fresh), t) \
                        or fresh and re.match(r"^__sync_val_compare_and_swap\s*\(\s*&\s*%s\s*,\s*-1\s*,\s*%s\s*\)$" % (var, fresh), t) \
                        or fresh and re.match(r"^(?:\(void\)\s*)?__sync_bool_compare_and_swap\s*\(\s*&\s*%s\s*,\s*-1\s*,\s*%s\s*\)$" % (var, fresh), t):
                    b.append("CAS Seed (-1)")
                    used += cnt(t)
                    shown.append(t + ";")
                    continue
                if fresh and re.match(r"^%s\s*=\s*%s$" % (var, fresh), t):
                    b.append("StoreFresh Seed")
                    used += cnt(t)
                    shown.append(t + ";")
                    continue
            if s[0] == "while" and fresh and re.match(r"^\(\s*%s\s*=\s*json_c_get_random_seed\s*\(\s*\)\s*\)\s*==\s*-1$" % fresh, s[1]) \
                    and all(x == ("simple", "") for x in s[2]):
                b += ["CallRandom", "RetryIfUnset"]
                shown.append("while (%s) {}" % s[1])
                continue
            raise Unrecognised("lh_char_hash: unrecognised statement in the seed initialisation: " + text_of(s)[:200])
        return b

    for s in stmts:
        if state == "decl":
            if s[0] == "simple":
                m = re.match(r"^static\s+(volatile\s+)?(?:int|long|LONG)\s+(\w+)\s*=\s*-1$", s[1])
                if m:
                    var = m.group(2)
                    used += 1
                    shown.append(s[1] + ";")
                    state = "guard"
                    continue
            raise Unrecognised("lh_char_hash: expected `static [volatile] int <seed> = -1;`, found: " + text_of(s)[:200])
        if state == "guard":
            if s[0] == "simple":
                m = re.match(r"^(?:int|long|LONG)\s+(\w+)\s*=\s*%s$" % var, s[1])
                if m and local is None:
                    local = m.group(1)
                    ops.append("Load Seed")
                    used += 1
                    shown.append(s[1] + ";")
                    continue
            if s[0] == "if" and s[3] is None:
                if local is None and re.match(r"^%s\s*==\s*-1$" % var, s[1]):
                    ops.append("Load Seed")
                    used += 1
                    shown.append("if (%s) {" % s[1])
                    ops.append("IfUnset [" + "; ".join(init_block(s[2], None)) + "]")
                    shown.append("}")
                    state = "ret"
                    continue
                if local is not None and re.match(r"^%s\s*==\s*-1$" % local, s[1]):
                    shown.append("if (%s) {" % s[1])
                    ops.append("IfUnset [" + "; ".join(init_block(s[2], local)) + "]")
                    shown.append("}")
                    state = "ret"
                    continue
            raise Unrecognised("lh_char_hash: expected `if (<seed> == -1) {...}`, found: " + text_of(s)[:200])
        if state == "ret":
            if s[0] == "simple":
                m = re.match(r"^return hashlittle\s*\(\s*\(const char \*\)\s*k\s*,\s*strlen\s*\(\s*\(const char \*\)\s*k\s*\)\s*,\s*(?:\(uint32_t\)\s*)?(\w+)\s*\)$", s[1])
                if m:
                    if m.group(1) == var:
                        ops.append("ReadForHash Shared")
                        used += 1
                    elif local is not None and m.group(1) == local:
                        ops.append("ReadForHash Local")
                    else:
                        raise Unrecognised("lh_char_hash: hash computed with an unrecognised value: " + m.group(1))
                    shown.append(s[1] + ";")
                    state = "end"
                    continue
            raise Unrecognised("lh_char_hash: expected `return hashlittle(k, strlen(k), <seed>);`, found: " + text_of(s)[:200])
        raise Unrecognised("lh_char_hash: statement after return: " + text_of(s)[:200])
    if state != "end":
        raise Unrecognised("lh_char_hash: incomplete body (stopped in state %s)" % state)
    total = len(re.findall(r"\b%s\b" % re.escape(var), body))
    if used != total:
        raise Unrecognised("lh_char_hash: %d occurrence(s) of %s not accounted for" % (total - used, var))
    return ops, shown, var


def check_seed_default(tu):
    if not re.search(r"static\s+lh_hash_fn\s*\*\s*char_hash_fn\s*=\s*lh_char_hash\s*;", tu):
        raise Unrecognised("lh_char_hash is no longer the default key hash (char_hash_fn initialiser)")


# ------------------------------------------------------------------ output
HEADER = """(* ThreadImpl.v — GENERATED by tr/atomics.py on every run of ./check C18.  DO NOT EDIT.

   The micro-operation programs of json_object_get, json_object_put (reference-count part)
   and of the seed initialisation in lh_char_hash, extracted from the preprocessed sources
   (gcc -E -P %(defs)s -D_GNU_SOURCE).

   Micro-operation language (semantics: ThreadModel.v, [exec]):
     AtomicAdd c d / AtomicSub c d   __sync_add_and_fetch / __sync_sub_and_fetch, result unused
     AtomicSubFetch c d              reg := __sync_sub_and_fetch(&c, d)
     Load c                          reg := c   (plain read)
     AtomicLoad c                    reg := c   (atomic read, e.g. __sync_add_and_fetch(&c, 0))
     Store c d                       c := reg + d   (plain write; `++c` is Load c; Store c 1)
     BranchDestroyIfResultZero n     `if (reg > 0) return 0;` otherwise the destroy path runs
     IfUnset [body]                  `if (reg == -1) { body }`
     CallRandom ; RetryIfUnset       `while ((fresh = json_c_get_random_seed()) == -1) {}`
     CAS c e                         __sync_val_compare_and_swap(&c, e, fresh), result unused
     CASOnce c d                     __sync_{val,bool}_compare_and_swap(&c, reg, reg + d), result
                                     ignored and not retried (the update is lost when it fails)
     StoreFresh c                    c = fresh   (plain write)
     ReadForHash Shared | Local      value handed to hashlittle: the shared seed variable
                                     re-read | the function's local copy

   Source statements recognised (whitespace-normalised):
%(excerpt)s
*)
From JC Require Import Base ThreadModel.
Local Open Scope Z_scope.

"""


def coq_ops(ops, node):
    out = []
    for o in ops:
        o = o.replace(" RC", " (RC %s)" % node)
        if o == "Branch":
            o = "BranchDestroyIfResultZero %s" % node
        out.append(o)
    return "[" + "; ".join(out) + "]"


REFERENCE = dict(
    get=(["AtomicAdd RC 1"], []),
    put=(["AtomicSubFetch RC 1", "Branch"], []),
    seed=(["Load Seed", "IfUnset [CallRandom; RetryIfUnset; CAS Seed (-1)]", "ReadForHash Shared"], []),
)


def render(getp, putp, seedp, defs, failed=()):
    """failed: names among get/put/seed whose program is a PLACEHOLDER (reference shape)"""
    ex = []
    for key, title, shown in (("get", "json_object_get", getp[1]), ("put", "json_object_put", putp[1]),
                              ("seed", "lh_char_hash", seedp[1])):
        ex.append("     %s:" % title)
        if key in failed:
            ex.append("       NOT RECOGNISED - the definition below is a PLACEHOLDER (the reference shape), see ThreadImplCheck.v")
        for l in shown:
            ex.append("       " + l.replace("(*", "( *").replace("*)", "* )"))
    s = HEADER % dict(defs=" ".join(defs), excerpt="\n".join(ex))
    mark = lambda k: "(* PLACEHOLDER: source shape not recognised *) " if k in failed else ""
    s += "Definition get_prog (n : nat) : list mop := %s%s.\n\n" % (mark("get"), coq_ops(getp[0], "n"))
    s += "Definition put_prog (n : nat) : list mop := %s%s.\n\n" % (mark("put"), coq_ops(putp[0], "n"))
    s += "Definition seed_prog : list mop := %s%s.\n\n" % (mark("seed"), "[" + "; ".join(seedp[0]) + "]")
    s += "Definition impl : impl_t := mkImpl get_prog put_prog seed_prog.\n"
    return s


def render_check(reasons):
    """ThreadImplCheck.v: compiles iff every function was recognised"""
    if not reasons:
        return ("(* ThreadImplCheck.v - GENERATED by tr/atomics.py on every run of ./check C18.  DO NOT EDIT.\n"
                "   Translation status: every function was recognised; ThreadImpl.v is the translation. *)\n"
                "From JC Require Import Base ThreadModel ThreadImpl.\n"
                "Definition translation_recognised : impl_t := ThreadImpl.impl.\n")
    txt = "\n   ".join(r.replace("(*", "( *").replace("*)", "* )") for r in reasons)
    ident = "translator_failed__" + re.sub(r"[^A-Za-z0-9]+", "_", reasons[0])[:150].strip("_")
    return ("(* ThreadImplCheck.v - GENERATED by tr/atomics.py.  TRANSLATION FAILED:\n   %s\n"
            "   The source no longer has a shape the translator recognises: the correspondence between\n"
            "   the threaded implementation and the model is broken, the theorems of Properties_C18.v\n"
            "   (which depends on this file) are NOT established for this source.  This file does not\n"
            "   compile on purpose.  (ThreadImpl.v carries marked placeholders so that the model driver\n"
            "   and the runtime stream still build and run.) *)\n"
            "From JC Require Import Base ThreadModel ThreadImpl.\n"
            "Definition translation_recognised : impl_t := %s.\n") % (txt, ident)


def translate(repo, cfg, defines):
    """returns (parts, reasons): parts = dict get/put/seed -> (ops, shown[, var]); a part that
    was not recognised is missing and has an entry in reasons"""
    parts, reasons = {}, []
    stray = parts.setdefault("_stray", [])
    try:
        jo = preprocess(repo, cfg, "json_object.c", defines)
    except Unrecognised as e:
        jo = None
        reasons.append(str(e))
    try:
        lh = preprocess(repo, cfg, "linkhash.c", defines)
    except Unrecognised as e:
        lh = None
        reasons.append(str(e))
    if jo is not None:
        try:
            check_rc_sites(jo, repo, stray)
        except Unrecognised as e:
            reasons.append(str(e))      # a stray access: get/put are still translated
        for key, name, fn in (("get", "json_object_get", translate_get), ("put", "json_object_put", translate_put)):
            try:
                parts[key] = fn(find_function(jo, name)[1])
            except Unrecognised as e:
                reasons.append(str(e))
    if lh is not None:
        try:
            check_seed_default(lh)
            parts["seed"] = translate_seed(find_function(lh, "lh_char_hash")[1])
        except Unrecognised as e:
            reasons.append(str(e))
    return parts, reasons


def write_if_changed(path, text):
    try:
        if open(path).read() == text:
            return False
    except OSError:
        pass
    tmp = path + ".tmp.%d" % os.getpid()
    with open(tmp, "w") as f:
        f.write(text)
    os.replace(tmp, path)
    return True


def regenerate(repo, cfg, defines, out=OUT, out_check=OUT_CHECK):
    """returns (ok, summary dict); both generated files are (re)written when their text changes"""
    parts, reasons = translate(repo, cfg, defines)
    failed = [k for k in ("get", "put", "seed") if k not in parts]
    full = {k: parts.get(k, REFERENCE[k]) for k in ("get", "put", "seed")}
    text = render(full["get"], full["put"], full["seed"], defines, failed)
    ok = not reasons
    info = dict(ok=ok, get=full["get"][0], put=full["put"][0], seed=full["seed"][0], placeholders=failed,
                stray=parts.get("_stray", []))
    if not ok:
        info["reason"] = "; ".join(reasons)
    info["changed"] = write_if_changed(out, text)
    info["check_changed"] = write_if_changed(out_check, render_check(reasons))
    return ok, info


if __name__ == "__main__":
    sys.path.insert(0, os.path.join(VERIF, "lib"))
    if "--repo" in sys.argv:
        os.environ["VERIF_REPO"] = sys.argv[sys.argv.index("--repo") + 1]
    import fw
    defs = [f for f in fw.VARIANTS["tsan"]["flags"] if f.startswith("-D")]
    cfg = fw.ensure_cfg()
    if "--print" in sys.argv:
        parts, reasons = translate(fw.REPO, cfg, defs)
        failed = [k for k in ("get", "put", "seed") if k not in parts]
        full = {k: parts.get(k, REFERENCE[k]) for k in ("get", "put", "seed")}
        print(render(full["get"], full["put"], full["seed"], defs, failed))
        for r in reasons:
            print("UNRECOGNISED: %s" % r)
        sys.exit(1 if reasons else 0)
    else:
        ok, info = regenerate(fw.REPO, cfg, defs)
        print(info)
        sys.exit(0 if ok else 1)
