/* drv_oom.c — allocation-fault domain (C08).  Same script and observation format as
 * ocaml/drv_oom.ml.
 *
 * line:  <ks> <setup|-> <test>
 *   setup, test   ';'-separated operations on ten registers r0..r9 holding json_object
 *                 pointers owned by the workload (the "caller").  The setup part always runs
 *                 fault-free; the allocations of the test part are the ones counted/failed.
 *   ks   '*'      every k in 0..N-1 (N = allocations requested by the fault-free test part)
 *        list     comma separated:  k      the k-th allocation of the test part fails
 *                                   k+j    …and, at the first driver control point after that
 *                                          fault fired (between two operations, inside the
 *                                          driver's serializer / shallow-copy callbacks), the
 *                                          j-th allocation counted from there fails too
 *                                   k^L    …and every request of more than L bytes fails
 *                                   A      every request of the test part (of more than 1 byte) fails: reaches
 *                                          an allocation whatever its index, also one a fault-free run of an
 *                                          earlier version never made
 *                 '*' may be followed by ',' and such items
 *
 * operations (d = destination register, empty before; r = container / subject; c = child):
 *   b<d>=<jv>                 build the tree through the public constructors and adds
 *   oa<r>,<c>,<hexkey>[,opts] json_object_object_add_ex(r, key, c, opts)
 *   aa<r>,<c>                 json_object_array_add
 *   ap<r>,<c>,<idx>           json_object_array_put_idx
 *   ai<r>,<c>,<idx>           json_object_array_insert_idx
 *   as<r>,<n>                 json_object_array_shrink
 *   ad<r>,<idx>,<count>       json_object_array_del_idx
 *   od<r>,<hexkey>            json_object_object_del
 *   si<r>,<int>  sd<r>,<bits>  sb<r>,<0|1>  ia<r>,<int>
 *                             json_object_set_int64 / set_double / set_boolean / int_inc (in place)
 *   ss<r>,<hex>               json_object_set_string(r, bytes ++ NUL)
 *   sl<r>,<hex>,<len>         json_object_set_string_len
 *   ns<d>,<hex>               json_object_new_string_len
 *   ds<d>,<bits>,<hextext>    json_object_new_double_s
 *   us<r>,<hextext>           json_object_set_serializer(r, json_object_userdata_to_json_string, copy, free_userdata)
 *   uc<r>,<hextext>           json_object_set_serializer(r, <driver function: control point, then appends text>, …)
 *   dc<d>,<r>                 json_object_deep_copy(r, &d, NULL)
 *   dk<d>,<r>                 json_object_deep_copy(r, &d, <driver function: control point, then the default>)
 *   js<r>,<flags>             json_object_to_json_string_ext
 *   gs<r>                     json_object_get_string
 *   tp<d>,<flags>,<depth>,<hex>[/<hex>…]   json_tokener_new_ex, set_flags, parse_ex per chunk, free
 *   tv<d>,<hex>               json_tokener_parse_verbose(bytes ++ NUL, &err)
 *   ff<d>,<depth>,<hex>       json_object_from_fd_ex(fd of a temporary file holding the bytes, depth)
 *   ps<r>,<c>,<hexpath>       json_pointer_set(&r, path, c)
 *   pg<r>,<hexpath>           json_pointer_get(r, path, &res): rc and typed dump of res
 *   df<g|t|x>,<hexfmt|->      json_c_set_serialization_double_format(fmt | NULL, GLOBAL | THREAD | 7 (invalid)); from then on
 *                             every state dump also shows how the double 1.5 serializes (a released format
 *                             string that is still in use shows up there, under ASan)
 *   pa<d>,<r>,<p>             json_patch_apply(r, p, &d, &err)   (copy mode)
 *   pi<r>,<p>                 json_patch_apply(NULL, p, &r, &err) (in place: after a failure r may keep the
 *                             effects of the operations before the failing one — documented — so r is
 *                             left out of the "unchanged" comparison, but it is still walked, must still
 *                             be valid and is released by the caller)
 *
 * the tokener's temporary "C" numeric locale: this driver carries its own copy of json_tokener.c (included at the
 * end of the file, allocator renamed as in the library build) in which duplocale / newlocale / freelocale are
 * wrappers: duplocale and newlocale are allocation requests of the workload like any other (counted in N, failed at
 * their index k, refused by 'A'), and a locale object obtained and not released counts as a leaked block — in every
 * locale, also where glibc hands out its static "C" object.
 *   lc<C|G|T>                 the locale the calling thread is under: "C"; the comma-decimal locale xx_COMMA set
 *                             globally (setlocale); xx_COMMA set for the thread (uselocale).  From then on the state
 *                             dump shows the thread's decimal point (a call must restore the caller's locale on
 *                             every path).  Reset to "C" at the end of each run.
 *
 * direct use of the print-buffer API on one driver-held buffer (printbuf.h is public):
 *   Pn                        printbuf_new            Pf   printbuf_free        Pr   printbuf_reset
 *   Pa<hex>                   printbuf_memappend(pb, bytes, n)
 *   Pm<off>,<c>,<len>         printbuf_memset
 *   Ps<f>,<hexstr>,<int>      sprintbuf(pb, FORMAT[f], …) with the string s and the int d:
 *                             0 "%s"(s)  1 "%d"(d)  2 "head:<%s>"(s)  3 "%s=%d;"(s,d)  4 "%0*d"(d,7)
 *                             5 "%s|%d|%s"(s,d,s)  6 "%-*s|"(d,s)  7 "%.3f/%x/%c%s"(d/7.0,d,'q',s)
 *                             (outputs of more than 127 bytes go through vasprintf: a temporary that the
 *                             controlled allocator does not hand out)
 *   the buffer is part of the state dump: pb=<bpos>:<contents as hex>
 *
 * Blocks the library obtains behind the controlled allocator (vasprintf, …) are accounted through
 * the sanitizer's heap statistics: the bytes allocated in the process before a run and after the
 * caller released everything must be equal; a difference that repeats when the run is repeated is
 * printed as h<bytes> after the leak count (only when the controlled allocator's own count is 0).
 * The fault-free workload is run a second time to apply the same test to it (!HLEAK<bytes>).
 *
 * observation:  n=<N> base=<res0>|<res1>…@<state> ks=<tok>,<tok>,…
 *   res_i   result of test operation i in the fault-free run (rc / text as hex / error code)
 *   state   typed dump of all registers after the fault-free run
 *   tok     <k>:<class>:<owned><leak>
 *     class  N     every operation returned what it returns fault-free, registers as fault-free
 *            F<i>  operation i failed through its documented channel (NULL, negative rc / 0 for
 *                  the string setters, tokener error "memory"); the operations after it are skipped
 *            D<i>  operation i returned something else (a different text, value, code) or changed
 *                  the registers differently
 *     owned  u  all registers (the container and the child after a failed add, the source of a
 *               copy, …) dump as before operation i;  c  something changed;  -  class N
 *     leak   live allocations above the baseline after every register was released (locale objects included:
 *            l<n> says how many of them are locale objects)
 *   A crash (use after free, double free, NULL dereference) is caught by the framework. */
// EXCLUDE: json_tokener.c
#include "common.h"
#include "jvtext.h"
#include "json_patch.h"
#include "printbuf.h"
#include <unistd.h>
#if defined(__SANITIZE_ADDRESS__)
extern size_t __sanitizer_get_current_allocated_bytes(void);   /* sanitizer/allocator_interface.h */
static long heap_now(void) { return (long)__sanitizer_get_current_allocated_bytes(); }
#else
static long heap_now(void) { return 0; }
#endif
const char *DOMAIN = "oom";

#define NREG 10
#define MAXOPS 32
static struct json_object *regs[NREG];
static struct printbuf *pbs;      /* the driver-held print buffer of the P operations */

/* blocks the workload itself must keep alive until the end of a run (constant keys) */
static void *arena[64];
static int narena;

/* ---- second fault ---- */
static long second_j = -1;     /* >= 0: re-arm at the next control point after the first fault */
static int rearmed;
static void control_point(void)
{
	if (second_j >= 0 && xa_failed && !rearmed) {
		xa_fail_at = xa_count + second_j;
		rearmed = 1;
	}
}

/* ---- typed dump into memory (never through the controlled allocator) ---- */
static void dumpf(FILE *f, struct json_object *o)
{
	if (!o) { fputc('n', f); return; }
	switch (json_object_get_type(o)) {
	case json_type_null: fputc('n', f); break;
	case json_type_boolean: fputc(json_object_get_boolean(o) ? 't' : 'f', f); break;
	case json_type_int: {
		struct json_object_int *ji = (struct json_object_int *)o;
		if (ji->cint_type == json_object_int_type_int64) fprintf(f, "i%lld", (long long)ji->cint.c_int64);
		else fprintf(f, "u%llu", (unsigned long long)ji->cint.c_uint64);
		break; }
	case json_type_double: {
		double d = json_object_get_double(o); uint64_t bits; memcpy(&bits, &d, 8);
		if (d != d) bits = 0x7ff8000000000000ull;
		fprintf(f, "d%016llx", (unsigned long long)bits);
		if (o->_userdata && o->_user_delete == json_object_free_userdata) {
			const unsigned char *t = (const unsigned char *)o->_userdata; size_t i, n = strlen((const char *)t);
			fputc(':', f);
			if (!n) fputc('-', f);
			for (i = 0; i < n; i++) fprintf(f, "%02x", t[i]);
		}
		break; }
	case json_type_string: {
		const unsigned char *s = (const unsigned char *)json_object_get_string(o);
		int i, n = json_object_get_string_len(o);
		fputc('s', f);
		if (n <= 0) fputc('-', f);
		for (i = 0; i < n; i++) fprintf(f, "%02x", s[i]);
		break; }
	case json_type_array: {
		size_t i, n = json_object_array_length(o);
		fputc('[', f);
		for (i = 0; i < n; i++) { if (i) fputc(',', f); dumpf(f, json_object_array_get_idx(o, i)); }
		fputc(']', f); break; }
	case json_type_object: {
		struct lh_entry *e; int first = 1;
		fputc('{', f);
		for (e = json_object_get_object(o)->head; e; e = e->next) {
			const unsigned char *k = (const unsigned char *)lh_entry_k(e); size_t i, n = strlen((const char *)k);
			if (!first) fputc(',', f);
			first = 0;
			if (!n) fputc('-', f);
			for (i = 0; i < n; i++) fprintf(f, "%02x", k[i]);
			fputc('=', f); dumpf(f, (struct json_object *)lh_entry_v(e));
		}
		fputc('}', f); break; }
	}
}

/* ---- locales ---- */
#include <locale.h>
static long loc_live;          /* locale objects the library obtained and has not released */
static locale_t comma_loc;
static int loc_state;          /* 0 not tried, 1 ok, -1 unavailable */
static int loc_used;           /* an lc operation ran: the thread's decimal point is part of the state */
static void loc_setup(void)
{
	if (loc_state) return;
	loc_state = -1;
	if (!getenv("LOCPATH")) {
		char exe[4096]; ssize_t n = readlink("/proc/self/exe", exe, sizeof exe - 32);
		int cut = 0;
		if (n <= 0) return;
		exe[n] = 0;
		while (n > 0 && cut < 2) { if (exe[--n] == '/') cut++; }
		strcpy(exe + n, "/locale");
		setenv("LOCPATH", exe, 1);
	}
	if (!setlocale(LC_ALL, "xx_COMMA")) return;
	if (strcmp(localeconv()->decimal_point, ",") != 0) { setlocale(LC_ALL, "C"); return; }
	setlocale(LC_ALL, "C");
	comma_loc = (newlocale)(LC_ALL_MASK, "xx_COMMA", (locale_t)0);
	if (comma_loc) loc_state = 1;
}
/* glibc itself keeps some bytes per newlocale(mask, name, base) call once LOCPATH is set (the search path it
 * builds is not released); that is measured here, per locale mode, and discounted from the heap balance of a run */
static long newlocale_keeps, loc_new_calls;
static long heap_now(void);
static void loc_calibrate(void)
{
	long a, d1, d2; int i;
	for (i = 0; i < 2; i++) {
		locale_t old = (uselocale)((locale_t)0), d, n;
		a = heap_now();
		d = (duplocale)(old);
		n = d ? (newlocale)(LC_NUMERIC_MASK, "C", d) : (locale_t)0;
		if (n) (freelocale)(n); else if (d) (freelocale)(d);
		if (i == 0) d1 = heap_now() - a; else d2 = heap_now() - a;
	}
	newlocale_keeps = (d1 == d2) ? d2 : 0;
}
static long loc_driver_bytes;   /* what the driver's own locale switching (and its calibration) left allocated */
static void loc_mode(char m)
{
	long h0 = heap_now();
	loc_setup();
	(uselocale)(LC_GLOBAL_LOCALE);
	setlocale(LC_ALL, "C");
	if (loc_state == 1) {
		if (m == 'G') setlocale(LC_ALL, "xx_COMMA");
		else if (m == 'T') (uselocale)(comma_loc);
	}
	loc_calibrate();
	loc_driver_bytes += heap_now() - h0;
}

static int dump_allocated;     /* set when a dump went through the controlled allocator */
static int fmt_used;           /* a df operation ran: the double format is part of the state */
static int mask_reg = -1;     /* this register is walked but printed as '~' */
static char *state_dump(void)
{
	char *buf = NULL; size_t len = 0; int i;
	long c0 = xa_count, save = xa_fail_at; size_t lim = xa_limit; int failed = xa_failed;
	FILE *f = open_memstream(&buf, &len);
	xa_fail_at = -1; xa_limit = 0;
	for (i = 0; i < NREG; i++)
		if (regs[i] && i == mask_reg) {
			char *tb = NULL; size_t tl = 0; FILE *tf = open_memstream(&tb, &tl);
			dumpf(tf, regs[i]); fclose(tf); (free)(tb);
			fprintf(f, "r%d=~;", i);
		} else if (regs[i]) { fprintf(f, "r%d=", i); dumpf(f, regs[i]); fputc(';', f); }
	if (pbs) {
		int b;
		fprintf(f, "pb=%d:", pbs->bpos);
		if (pbs->bpos <= 0) fputc('-', f);
		for (b = 0; b < pbs->bpos; b++) fprintf(f, "%02x", (unsigned char)pbs->buf[b]);
		fputc(';', f);
	}
	if (xa_count != c0) dump_allocated = 1;
	if (loc_used) {
		char num[32];
		snprintf(num, sizeof num, "%.1f", 1.5);          /* the decimal point the calling thread sees */
		fprintf(f, "loc=%s;", num);
	}
	if (fmt_used) {
		/* the EFFECTIVE format of this thread: how a fractional and a whole-number double serialize */
		struct json_object *probe = json_object_new_double(1.5), *whole = json_object_new_double(2.0);
		const char *t = probe ? json_object_to_json_string_ext(probe, 0) : NULL;
		const char *u = whole ? json_object_to_json_string_ext(whole, 0) : NULL;
		fprintf(f, "fmt=%s,%s;", t ? t : "NULL", u ? u : "NULL");
		json_object_put(probe); json_object_put(whole);
	}
	fclose(f);
	xa_failed = failed;
	xa_count = c0; xa_fail_at = save; xa_limit = lim;
	return buf;
}

/* ---- result strings ---- */
static char *res_buf; static size_t res_len; static FILE *res_f;
static void res_open(void) { res_buf = NULL; res_len = 0; res_f = open_memstream(&res_buf, &res_len); }
static char *res_close(void) { fclose(res_f); return res_buf; }
static void res_hex(const unsigned char *b, size_t n)
{
	size_t i;
	if (!n) fputc('-', res_f);
	for (i = 0; i < n; i++) fprintf(res_f, "%02x", b[i]);
}

/* ---- builder through the public API; on an allocation failure everything built so far is
 *      released and -1 returned (the caller of the library does what the documentation says:
 *      a constructor returning NULL / an add returning non-zero leaves ownership with it) ---- */
static int build(const char **p, struct json_object **out)
{
	char c = *(*p)++;
	*out = NULL;
	switch (c) {
	case 'n': return 0;
	case 't': *out = json_object_new_boolean(1); return *out ? 0 : -1;
	case 'f': *out = json_object_new_boolean(0); return *out ? 0 : -1;
	case 'i': { char *e; long long v = strtoll(*p, &e, 10); *p = e; *out = json_object_new_int64(v); return *out ? 0 : -1; }
	case 'u': { char *e; unsigned long long v = strtoull(*p, &e, 10); *p = e; *out = json_object_new_uint64(v); return *out ? 0 : -1; }
	case 'd': {
		char h[17]; uint64_t bits; double d;
		memcpy(h, *p, 16); h[16] = 0; *p += 16;
		bits = strtoull(h, NULL, 16); memcpy(&d, &bits, 8);
		if (**p == ':') {
			size_t n; unsigned char *t; (*p)++;
			t = jv_hexordash(p, &n);
			*out = json_object_new_double_s(d, (char *)t);
			(free)(t);
		} else *out = json_object_new_double(d);
		return *out ? 0 : -1; }
	case 's': { size_t n; unsigned char *b = jv_hexordash(p, &n);
		*out = json_object_new_string_len((char *)b, (int)n); (free)(b); return *out ? 0 : -1; }
	case '[': {
		struct json_object *a = json_object_new_array();
		if (!a) return -1;
		if (**p == ']') { (*p)++; *out = a; return 0; }
		for (;;) {
			struct json_object *v; int rc = build(p, &v);
			if (rc < 0) { json_object_put(a); return rc; }
			if (json_object_array_add(a, v) != 0) { json_object_put(v); json_object_put(a); return -1; }
			if (**p == ',') { (*p)++; continue; }
			if (**p == ']') { (*p)++; *out = a; return 0; }
			json_object_put(a); return -2;
		}
	}
	case '{': {
		struct json_object *o = json_object_new_object();
		if (!o) return -1;
		if (**p == '}') { (*p)++; *out = o; return 0; }
		for (;;) {
			size_t n; unsigned char *k = jv_hexordash(p, &n);
			struct json_object *v; int rc;
			if (**p != '=') { (free)(k); json_object_put(o); return -2; }
			(*p)++;
			rc = build(p, &v);
			if (rc < 0) { (free)(k); json_object_put(o); return rc; }
			rc = json_object_object_add(o, (char *)k, v);
			(free)(k);
			if (rc != 0) { json_object_put(v); json_object_put(o); return -1; }
			if (**p == ',') { (*p)++; continue; }
			if (**p == '}') { (*p)++; *out = o; return 0; }
			json_object_put(o); return -2;
		}
	}
	default: return -2;
	}
}

/* ---- driver callbacks ---- */
static int drv_serializer(struct json_object *jso, struct printbuf *pb, int level, int flags)
{
	const char *t = (const char *)json_object_get_userdata(jso);
	(void)level; (void)flags;
	control_point();
	return printbuf_memappend(pb, t, (int)strlen(t));
}
static int drv_shallow_copy(json_object *src, json_object *parent, const char *key, size_t index, json_object **dst)
{
	control_point();
	return json_c_shallow_copy_default(src, parent, key, index, dst);
}

static char *cstr_of(const unsigned char *b, size_t n)
{
	char *z = (char *)(malloc)(n + 1);
	memcpy(z, b, n);
	z[n] = 0;
	return z;
}

/* split "a,b,c" in place; returns the number of fields */
static int fields(char *s, char **out, int max)
{
	int n = 0;
	while (n < max) {
		out[n++] = s;
		s = strchr(s, ',');
		if (!s) break;
		*s++ = 0;
	}
	return n;
}
static int regno(const char *s) { return (s && s[0] >= '0' && s[0] <= '9' && !s[1]) ? s[0] - '0' : -1; }

/* one operation; returns the result string (heap), *isfail = reported through the documented
 * failure channel; *bad = malformed script */
static char *exec_op(char *op, int *isfail, int *bad)
{
	char *a[6]; int na, r, c, d;
	*isfail = 0; *bad = 0;
	res_open();
	if (op[0] == 'l' && op[1] == 'c' && (op[2] == 'C' || op[2] == 'G' || op[2] == 'T') && !op[3]) {
		loc_mode(op[2]);
		fprintf(res_f, loc_state == 1 ? "ok" : "nolocale");
		return res_close();
	}
	if (op[0] == 'P') {
		int rc = 0;
		if (op[1] == 'n') {
			if (pbs) { *bad = 1; return res_close(); }
			pbs = printbuf_new();
			fprintf(res_f, pbs ? "ok" : "NULL");
			*isfail = !pbs;
			return res_close();
		}
		if (!pbs) { *bad = 1; return res_close(); }
		if (op[1] == 'f') { printbuf_free(pbs); pbs = NULL; fprintf(res_f, "ok"); }
		else if (op[1] == 'r') { printbuf_reset(pbs); fprintf(res_f, "ok"); }
		else if (op[1] == 'a') {
			size_t n; unsigned char *b = unhex(op + 2, &n);
			rc = printbuf_memappend(pbs, (const char *)b, (int)n);
			(free)(b);
			fprintf(res_f, "%d", rc); *isfail = rc < 0;
		} else if (op[1] == 'm') {
			na = fields(op + 2, a, 6);
			if (na < 3) { *bad = 1; return res_close(); }
			rc = printbuf_memset(pbs, atoi(a[0]), atoi(a[1]), atoi(a[2]));
			fprintf(res_f, "%d", rc); *isfail = rc < 0;
		} else if (op[1] == 's') {
			size_t n; unsigned char *b; char *z; int dv;
			na = fields(op + 2, a, 6);
			if (na < 3) { *bad = 1; return res_close(); }
			b = unhex(a[1], &n); z = cstr_of(b, n); (free)(b);
			dv = atoi(a[2]);
			switch (atoi(a[0])) {
			case 0: rc = sprintbuf(pbs, "%s", z); break;
			case 1: rc = sprintbuf(pbs, "%d", dv); break;
			case 2: rc = sprintbuf(pbs, "head:<%s>", z); break;
			case 3: rc = sprintbuf(pbs, "%s=%d;", z, dv); break;
			case 4: rc = sprintbuf(pbs, "%0*d", dv, 7); break;
			case 5: rc = sprintbuf(pbs, "%s|%d|%s", z, dv, z); break;
			case 6: rc = sprintbuf(pbs, "%-*s|", dv, z); break;
			case 7: rc = sprintbuf(pbs, "%.3f/%x/%c%s", dv / 7.0, (unsigned)dv, 'q', z); break;
			default: *bad = 1;
			}
			(free)(z);
			fprintf(res_f, "%d", rc); *isfail = rc < 0;
		} else *bad = 1;
		return res_close();
	}
	if (strlen(op) < 3) { *bad = 1; return res_close(); }
	if (op[0] == 'b') {
		const char *p; struct json_object *o; int rc;
		d = op[1] - '0';
		if (d < 0 || d >= NREG || op[2] != '=' || regs[d]) { *bad = 1; return res_close(); }
		p = op + 3;
		rc = build(&p, &o);
		if (rc == -2 || (rc == 0 && *p)) { *bad = 1; if (rc == 0) json_object_put(o); return res_close(); }
		if (rc < 0) { *isfail = 1; fprintf(res_f, "NULL"); }
		else { regs[d] = o; fprintf(res_f, "ok"); }
		/* 'n' builds the NULL pointer: keep the register empty, that is what it denotes */
		return res_close();
	}
	if (op[0] == 'd' && op[1] == 'f' && (op[2] == 'g' || op[2] == 't' || op[2] == 'x') && op[3] == ',') {
		int rc, scope = op[2] == 'g' ? JSON_C_OPTION_GLOBAL : op[2] == 't' ? JSON_C_OPTION_THREAD : 7;
		if (op[4] == '-') rc = json_c_set_serialization_double_format(NULL, scope);
		else {
			size_t n; unsigned char *b = unhex(op + 4, &n); char *z = cstr_of(b, n);
			rc = json_c_set_serialization_double_format(z, scope);
			(free)(b); (free)(z);
		}
		fprintf(res_f, "%d", rc);
		*isfail = rc < 0;
		return res_close();
	}
	na = fields(op + 2, a, 6);
	r = regno(a[0]);
	if (r < 0) { *bad = 1; return res_close(); }
#define OP(x, y) (op[0] == (x) && op[1] == (y))
	if (OP('o', 'a') && na >= 3) {
		size_t n; unsigned char *k; char *key; int rc; unsigned opts = na >= 4 ? (unsigned)strtoul(a[3], NULL, 10) : 0;
		c = regno(a[1]);
		if (c < 0 || !regs[r]) { *bad = 1; return res_close(); }
		k = unhex(a[2], &n); key = cstr_of(k, n); (free)(k);
		rc = json_object_object_add_ex(regs[r], key, regs[c], opts);
		if (opts & JSON_C_OBJECT_ADD_CONSTANT_KEY) arena[narena++] = key; else (free)(key);
		fprintf(res_f, "%d", rc);
		if (rc == 0) regs[c] = NULL; else *isfail = rc < 0;
	} else if ((OP('a', 'a') && na >= 2) || ((OP('a', 'p') || OP('a', 'i')) && na >= 3)) {
		int rc; size_t idx = na >= 3 ? (size_t)strtoull(a[2], NULL, 10) : 0;
		c = regno(a[1]);
		if (c < 0 || !regs[r]) { *bad = 1; return res_close(); }
		rc = op[1] == 'a' ? json_object_array_add(regs[r], regs[c])
		   : op[1] == 'p' ? json_object_array_put_idx(regs[r], idx, regs[c])
		                  : json_object_array_insert_idx(regs[r], idx, regs[c]);
		fprintf(res_f, "%d", rc);
		if (rc == 0) regs[c] = NULL; else *isfail = rc < 0;
	} else if (OP('a', 'd') && na >= 3) {
		int rc = json_object_array_del_idx(regs[r], (size_t)strtoull(a[1], NULL, 10), (size_t)strtoull(a[2], NULL, 10));
		fprintf(res_f, "%d", rc);
		*isfail = rc < 0;
	} else if (OP('o', 'd') && na >= 2) {
		size_t n; unsigned char *k = unhex(a[1], &n); char *key = cstr_of(k, n);
		(free)(k);
		if (!regs[r]) { *bad = 1; (free)(key); return res_close(); }
		json_object_object_del(regs[r], key);
		(free)(key);
		fprintf(res_f, "ok");
	} else if ((OP('s', 'i') || OP('s', 'd') || OP('s', 'b') || OP('i', 'a')) && na >= 2) {
		int rc;
		if (op[0] == 'i') rc = json_object_int_inc(regs[r], strtoll(a[1], NULL, 10));
		else if (op[1] == 'i') rc = json_object_set_int64(regs[r], strtoll(a[1], NULL, 10));
		else if (op[1] == 'b') rc = json_object_set_boolean(regs[r], atoi(a[1]));
		else { uint64_t bits = strtoull(a[1], NULL, 16); double dv; memcpy(&dv, &bits, 8); rc = json_object_set_double(regs[r], dv); }
		fprintf(res_f, "%d", rc);
		*isfail = rc == 0;
	} else if (OP('a', 's') && na >= 2) {
		int rc = json_object_array_shrink(regs[r], atoi(a[1]));
		fprintf(res_f, "%d", rc);
		*isfail = rc < 0;
	} else if ((OP('s', 's') && na >= 2) || (OP('s', 'l') && na >= 3)) {
		size_t n; unsigned char *b = unhex(a[1], &n); int rc;
		if (op[1] == 's') { char *z = cstr_of(b, n); rc = json_object_set_string(regs[r], z); (free)(z); }
		else rc = json_object_set_string_len(regs[r], (const char *)b, atoi(a[2]));
		(free)(b);
		fprintf(res_f, "%d", rc);
		*isfail = rc == 0;
	} else if (OP('n', 's') && na >= 2) {
		size_t n; unsigned char *b = unhex(a[1], &n);
		if (regs[r]) { *bad = 1; (free)(b); return res_close(); }
		regs[r] = json_object_new_string_len((const char *)b, (int)n);
		(free)(b);
		fprintf(res_f, regs[r] ? "ok" : "NULL");
		*isfail = !regs[r];
	} else if (OP('d', 's') && na >= 3) {
		size_t n; unsigned char *b = unhex(a[2], &n); char *z = cstr_of(b, n);
		uint64_t bits = strtoull(a[1], NULL, 16); double dv; memcpy(&dv, &bits, 8);
		if (regs[r]) { *bad = 1; (free)(b); (free)(z); return res_close(); }
		regs[r] = json_object_new_double_s(dv, z);
		(free)(b); (free)(z);
		fprintf(res_f, regs[r] ? "ok" : "NULL");
		*isfail = !regs[r];
	} else if ((OP('u', 's') || OP('u', 'c')) && na >= 2) {
		size_t n; unsigned char *b = unhex(a[1], &n); char *z = cstr_of(b, n);
		(free)(b);
		if (!regs[r]) { *bad = 1; (free)(z); return res_close(); }
		/* the text is released by the library through json_object_free_userdata */
		json_object_set_serializer(regs[r], op[1] == 's' ? json_object_userdata_to_json_string : drv_serializer,
		                           z, json_object_free_userdata);
		fprintf(res_f, "ok");
	} else if ((OP('d', 'c') || OP('d', 'k')) && na >= 2) {
		int rc; struct json_object *dst = NULL;
		c = regno(a[1]);
		if (c < 0 || regs[r]) { *bad = 1; return res_close(); }
		rc = json_object_deep_copy(regs[c], &dst, op[1] == 'k' ? drv_shallow_copy : NULL);
		fprintf(res_f, "%d%s", rc, (rc < 0 && dst) ? "+DST" : "");
		if (rc < 0) { *isfail = dst == NULL; if (dst) json_object_put(dst); }
		else regs[r] = dst;
	} else if (OP('j', 's') && na >= 2) {
		const char *t = json_object_to_json_string_ext(regs[r], atoi(a[1]));
		if (!t) { fprintf(res_f, "NULL"); *isfail = 1; }
		else { fputc('T', res_f); res_hex((const unsigned char *)t, strlen(t)); }
	} else if (OP('g', 's')) {
		const char *t = json_object_get_string(regs[r]);
		if (!t) { fprintf(res_f, "NULL"); *isfail = 1; }
		else { fputc('T', res_f); res_hex((const unsigned char *)t, strlen(t)); }
	} else if (OP('t', 'p') && na >= 4) {
		struct json_tokener *tok;
		if (regs[r]) { *bad = 1; return res_close(); }
		tok = json_tokener_new_ex(atoi(a[2]));
		if (!tok) { fprintf(res_f, "NOTOK"); *isfail = 1; }
		else {
			char *ch = a[3]; int ci = 0; struct json_object *o = NULL; enum json_tokener_error e = json_tokener_continue;
			json_tokener_set_flags(tok, atoi(a[1]));
			while (ch) {
				char *nx = strchr(ch, '/'); size_t n; unsigned char *b;
				if (nx) *nx++ = 0;
				b = unhex(ch, &n);
				o = json_tokener_parse_ex(tok, (const char *)b, (int)n);
				e = json_tokener_get_error(tok);
				(free)(b);
				if (e != json_tokener_continue) break;
				ch = nx; ci++;
			}
			fprintf(res_f, "e%d,%d,%d", (int)e, ci, e == json_tokener_continue ? 0 : (int)json_tokener_get_parse_end(tok));
			if (e == json_tokener_error_memory) { *isfail = (o == NULL); if (o) fprintf(res_f, "+OBJ"); }
			if (o) { if (e == json_tokener_success) regs[r] = o; else json_object_put(o); }
			if (e == json_tokener_success && !o) fprintf(res_f, ",null");
			json_tokener_free(tok);
		}
	} else if (OP('t', 'v') && na >= 2) {
		size_t n; unsigned char *b = unhex(a[1], &n); char *z = cstr_of(b, n);
		enum json_tokener_error e = json_tokener_success; struct json_object *o;
		(free)(b);
		if (regs[r]) { *bad = 1; (free)(z); return res_close(); }
		o = json_tokener_parse_verbose(z, &e);
		(free)(z);
		fprintf(res_f, "e%d%s", (int)e, (o && e != json_tokener_success) ? "+OBJ" : "");
		if (e == json_tokener_error_memory) *isfail = (o == NULL);
		if (e == json_tokener_success) { regs[r] = o; if (!o) fprintf(res_f, ",null"); } else if (o) json_object_put(o);
	} else if (OP('f', 'f') && na >= 3) {
		size_t n; unsigned char *b = unhex(a[2], &n); char path[] = "/tmp/oomfdXXXXXX"; int fd = mkstemp(path);
		struct json_object *o;
		if (regs[r] || fd < 0) { *bad = 1; (free)(b); return res_close(); }
		unlink(path);
		if (write(fd, b, n) != (ssize_t)n || lseek(fd, 0, SEEK_SET) != 0) *bad = 1;
		(free)(b);
		o = json_object_from_fd_ex(fd, atoi(a[1]));
		close(fd);
		/* NULL is both the failure report and the value of the text "null": the caller can
		 * only tell them apart by the fault-free result, which is what the comparison does */
		fprintf(res_f, o ? "ok" : "NULL");
		*isfail = !o;
		regs[r] = o;
	} else if (OP('p', 'g') && na >= 2) {
		size_t n; unsigned char *b = unhex(a[1], &n); char *path = cstr_of(b, n); int rc; struct json_object *res = NULL;
		(free)(b);
		errno = 0;
		rc = json_pointer_get(regs[r], path, &res);
		(free)(path);
		fprintf(res_f, "%d,", rc);
		if (rc == 0) { long c1 = xa_count; dumpf(res_f, res); if (xa_count != c1) dump_allocated = 1; }
		else { fprintf(res_f, "%s", errno_name(errno)); *isfail = rc < 0; }
	} else if (OP('p', 's') && na >= 3) {
		size_t n; unsigned char *b = unhex(a[2], &n); char *path = cstr_of(b, n); int rc;
		(free)(b);
		c = regno(a[1]);
		if (c < 0 || !regs[r] || n == 0) { *bad = 1; (free)(path); return res_close(); }
		errno = 0;
		rc = json_pointer_set(&regs[r], path, regs[c]);
		(free)(path);
		fprintf(res_f, "%d", rc);
		if (rc == 0) regs[c] = NULL; else { fprintf(res_f, ",%s", errno_name(errno)); *isfail = rc < 0; }
	} else if (OP('p', 'a') && na >= 3) {
		struct json_patch_error pe; struct json_object *base = NULL; int rc, p;
		c = regno(a[1]); p = regno(a[2]);
		if (c < 0 || p < 0 || regs[r] || !regs[c]) { *bad = 1; return res_close(); }
		memset(&pe, 0, sizeof pe);
		rc = json_patch_apply(regs[c], regs[p], &base, &pe);
		fprintf(res_f, "%d", rc);
		if (rc < 0) {
			/* the documented contract: *base must be released by the caller also on failure */
			fprintf(res_f, ",%s,%ld", pe.errno_code == EFAULT ? "EFAULT" : errno_name(pe.errno_code),
			        pe.patch_failure_idx == (size_t)-1 ? -1L : (long)pe.patch_failure_idx);
			*isfail = 1;
			if (base) json_object_put(base);
		} else regs[r] = base;
	} else if (OP('p', 'i') && na >= 2) {
		struct json_patch_error pe; int rc, p = regno(a[1]);
		if (p < 0 || !regs[r] || !regs[p]) { *bad = 1; return res_close(); }
		memset(&pe, 0, sizeof pe);
		rc = json_patch_apply(NULL, regs[p], &regs[r], &pe);
		fprintf(res_f, "%d", rc);
		if (rc < 0) {
			fprintf(res_f, ",%s,%ld", pe.errno_code == EFAULT ? "EFAULT" : errno_name(pe.errno_code),
			        pe.patch_failure_idx == (size_t)-1 ? -1L : (long)pe.patch_failure_idx);
			*isfail = 1;
		}
	} else *bad = 1;
	return res_close();
}

/* does the ';'-separated list contain an operation starting with the two letters? */
static int has_op(const char *list, const char *two)
{
	const char *p = list;
	while (p && *p) {
		if (p[0] == two[0] && p[1] == two[1]) return 1;
		p = strchr(p, ';');
		if (p) p++;
	}
	return 0;
}

static char *base_res[MAXOPS], *base_state[MAXOPS], *base_state_m[MAXOPS];
static int nbase;

struct outcome { char cls; int opi; char owned; long leak; long n; int bad; int fired; long hidden; long locs; };

/* run setup + test once; k == -1: the fault-free reference run (records base_*);
 * k == -2: a second fault-free run, compared and accounted like a fault run */
static struct outcome run_workload(const char *setup, const char *test, long k, long j2, size_t limit)
{
	struct outcome oc = {'N', -1, '-', 0, 0, 0, 0, 0, 0};
	long heap0 = heap_now();
	char *s = strdup(setup), *t = strdup(test), *save = NULL, *op;
	long live0, c0, loc0 = loc_live, newc0 = loc_new_calls, keeps = 0, drv0 = loc_driver_bytes; int i;
	xa_reset();
	live0 = xa_live;
	loc_used = has_op(setup, "lc") || has_op(test, "lc");
	memset(regs, 0, sizeof regs);
	narena = 0; second_j = -1; rearmed = 0;
	fmt_used = has_op(setup, "df") || has_op(test, "df");
	if (strcmp(s, "-") != 0)
		for (op = strtok_r(s, ";", &save); op; op = strtok_r(NULL, ";", &save)) {
			int f, b; char *r = exec_op(op, &f, &b);
			(free)(r);
			if (f || b) oc.bad = 1;
		}
	c0 = xa_count;
	xa_failed = 0;
	if (k >= 0) { xa_fail_at = c0 + k; second_j = j2; xa_limit = limit; }
	if (k == -3) xa_limit = 1;
	save = NULL;
	for (i = 0, op = strtok_r(t, ";", &save); op && i < MAXOPS && !oc.bad; op = strtok_r(NULL, ";", &save), i++) {
		char *pre = state_dump(), *res, *post, *pre_m = NULL, *post_m = NULL; int isfail, bad;
		/* in-place patch: a second pair of dumps that leaves the patched tree out */
		int inplace = (op[0] == 'p' && op[1] == 'i' && op[2] >= '0' && op[2] <= '9') ? op[2] - '0' : -1;
		if (inplace >= 0) { mask_reg = inplace; pre_m = state_dump(); mask_reg = -1; }
		control_point();
		res = exec_op(op, &isfail, &bad);
		post = state_dump();
		if (inplace >= 0) { mask_reg = inplace; post_m = state_dump(); mask_reg = -1; }
		if (bad) oc.bad = 1;
		if (k == -1) {
			base_res[i] = res; base_state[i] = post; base_state_m[i] = post_m; nbase = i + 1;
			(free)(pre); (free)(pre_m);
			continue;
		}
		if (i < nbase && strcmp(res, base_res[i]) == 0 &&
		    (strcmp(post, base_state[i]) == 0 ||
		     (inplace >= 0 && isfail && strcmp(post_m, base_state_m[i]) == 0))) {
			(free)(pre); (free)(res); (free)(post); (free)(pre_m); (free)(post_m);
			continue;
		}
		oc.opi = i;
		if (isfail && xa_failed) {
			oc.cls = 'F';
			oc.owned = (inplace >= 0 ? strcmp(pre_m, post_m) : strcmp(pre, post)) == 0 ? 'u' : 'c';
		}
		else oc.cls = 'D';
		(free)(pre); (free)(res); (free)(post); (free)(pre_m); (free)(post_m);
		break;
	}
	oc.n = xa_count - c0;
	oc.fired = xa_failed;
	xa_fail_at = -1; xa_limit = 0; second_j = -1;
	for (i = 0; i < NREG; i++) { json_object_put(regs[i]); regs[i] = NULL; }
	for (i = 0; i < narena; i++) (free)(arena[i]);
	narena = 0;
	if (fmt_used) {
		json_c_set_serialization_double_format(NULL, JSON_C_OPTION_GLOBAL);
		json_c_set_serialization_double_format(NULL, JSON_C_OPTION_THREAD);
	}
	if (pbs) { printbuf_free(pbs); pbs = NULL; }
	keeps = (loc_new_calls - newc0) * newlocale_keeps;      /* calls made under the workload's locale mode */
	if (loc_used) loc_mode('C');
	oc.leak = (xa_live - live0) + (loc_live - loc0);
	oc.locs = loc_live - loc0;
	(free)(s); (free)(t);
	if (k != -1) oc.hidden = heap_now() - heap0 - keeps - (loc_driver_bytes - drv0);
	return oc;
}

/* a run whose heap balance is off is repeated: what the process allocates once (lazily, on the
 * first use of some libc facility) does not show up the second time */
static struct outcome run_checked(const char *setup, const char *test, long k, long j2, size_t limit)
{
	struct outcome oc = run_workload(setup, test, k, j2, limit);
	if (oc.hidden != 0 && oc.leak == 0) oc = run_workload(setup, test, k, j2, limit);
	return oc;
}

static void print_tok(const char *label, struct outcome oc, int *first)
{
	if (!*first) putchar(',');
	*first = 0;
	if (oc.cls == 'N') printf("%s:N:-%ld", label, oc.leak);
	else printf("%s:%c%d:%c%ld", label, oc.cls, oc.opi, oc.owned, oc.leak);
	if (oc.locs != 0) printf("l%ld", oc.locs);          /* of which locale objects */
	else if (oc.leak == 0 && oc.hidden != 0) printf("h%ld", oc.hidden);
}

void run_case(char *rest)
{
	char *save = NULL, *ks, *setup, *test, *item;
	struct outcome b; int i, first = 1; long k;
	ks = strtok_r(rest, " ", &save);
	setup = strtok_r(NULL, " ", &save);
	test = strtok_r(NULL, " ", &save);
	if (!ks || !setup || !test) { printf("BADLINE"); return; }
	dump_allocated = 0; nbase = 0;
	loc_setup();
	loc_calibrate();
	b = run_workload(setup, test, -1, -1, 0);
	if (b.bad) { printf("BADSCRIPT"); goto done; }
	printf("n=%ld base=", b.n);
	for (i = 0; i < nbase; i++) printf("%s%s", i ? "|" : "", base_res[i]);
	printf("@%s", nbase ? base_state[nbase - 1] : "");
	if (b.leak) printf("!LEAK%ld", b.leak);
	else {
		struct outcome b2 = run_checked(setup, test, -2, -1, 0);
		if (b2.cls != 'N') printf("!UNSTABLE");
		else if (b2.hidden != 0) printf("!HLEAK%ld", b2.hidden);
	}
	printf(" ks=");
	save = NULL;
	for (item = strtok_r(ks, ",", &save); item; item = strtok_r(NULL, ",", &save)) {
		if (strcmp(item, "A") == 0) {
			print_tok("A", run_checked(setup, test, -3, -1, 0), &first);
		} else if (strcmp(item, "*") == 0) {
			for (k = 0; k < b.n; k++) {
				char lab[32];
				snprintf(lab, sizeof lab, "%ld", k);
				print_tok(lab, run_checked(setup, test, k, -1, 0), &first);
			}
		} else {
			char *e; long j2 = -1; size_t lim = 0;
			k = strtol(item, &e, 10);
			if (*e == '+') j2 = strtol(e + 1, NULL, 10);
			else if (*e == '^') lim = (size_t)strtoull(e + 1, NULL, 10);
			print_tok(item, run_checked(setup, test, k, j2, lim), &first);
		}
	}
	if (first) putchar('-');
	if (dump_allocated) printf(" DUMPALLOC");
done:
	for (i = 0; i < nbase; i++) { (free)(base_res[i]); (free)(base_state[i]); (free)(base_state_m[i]); base_state_m[i] = NULL; }
	nbase = 0;
}

/* ---- this driver's copy of the tokener: locale objects are requests and blocks of the workload ---- */
static int loc_deny(void)
{
	long k = xa_count++;
	if ((xa_fail_at >= 0 && k == xa_fail_at) || xa_limit) { xa_failed = 1; errno = ENOMEM; return 1; }
	return 0;
}
static locale_t oom_duplocale(locale_t l)
{
	locale_t r;
	if (loc_deny()) return (locale_t)0;
	r = duplocale(l);
	if (r) loc_live++;
	return r;
}
static locale_t oom_newlocale(int mask, const char *name, locale_t base)
{
	locale_t r;
	if (loc_deny()) return (locale_t)0;          /* the base object stays the caller's */
	r = newlocale(mask, name, base);
	if (r) loc_new_calls++;
	if (r && !base) loc_live++;                  /* with a base, the base object is absorbed into the result */
	return r;
}
static void oom_freelocale(locale_t l)
{
	if (l) loc_live--;
	freelocale(l);
}
void *xmalloc(size_t); void *xcalloc(size_t, size_t); void *xrealloc(void *, size_t); char *xstrdup(const char *); void xfree(void *);
#define duplocale oom_duplocale
#define newlocale oom_newlocale
#define freelocale oom_freelocale
#define malloc xmalloc
#define calloc xcalloc
#define realloc xrealloc
#define strdup xstrdup
#define free xfree
#include "json_tokener.c"
