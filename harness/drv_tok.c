/* drv_tok.c — tokener domain (C01, C03, C04, C15, C16).  Same script and observation
 * format as ocaml/drv_tok.ml.  Chunks are copied into exact-size heap buffers so that
 * ASan sees any read beyond the given length. */
#include "jvtext.h"
#include "json_tokener.h"
#include "json_util.h"
#include <unistd.h>
#include <sys/socket.h>
const char *DOMAIN = "tok";

static const char *err_name(enum json_tokener_error e)
{
	switch (e) {
	case json_tokener_success: return "success";
	case json_tokener_continue: return "continue";
	case json_tokener_error_depth: return "depth";
	case json_tokener_error_parse_eof: return "eof";
	case json_tokener_error_parse_unexpected: return "unexpected";
	case json_tokener_error_parse_null: return "null";
	case json_tokener_error_parse_boolean: return "boolean";
	case json_tokener_error_parse_number: return "number";
	case json_tokener_error_parse_array: return "array";
	case json_tokener_error_parse_object_key_name: return "object_key_name";
	case json_tokener_error_parse_object_key_sep: return "object_key_sep";
	case json_tokener_error_parse_object_value_sep: return "object_value_sep";
	case json_tokener_error_parse_string: return "string";
	case json_tokener_error_parse_comment: return "comment";
	case json_tokener_error_parse_utf8_string: return "utf8";
	case json_tokener_error_size: return "size";
	case json_tokener_error_memory: return "memory";
	default: return "unknown";
	}
}

/* L op: the synthesised comma-decimal locale (tools/setup_extra.sh builds build/locale/xx_COMMA) installed
 * process-wide (G) or for this thread only (T); C = back to the C locale.  A no-op when the locale is missing. */
#include <locale.h>
static locale_t comma_loc;
static int loc_state;      /* 0 not tried, 1 ok, -1 unavailable */
static void loc_setup(void)
{
	if (loc_state) return;
	loc_state = -1;
	if (!getenv("LOCPATH")) {
		char exe[4096]; ssize_t n = readlink("/proc/self/exe", exe, sizeof exe - 32);
		int cut = 0;
		if (n <= 0) return;
		exe[n] = 0;
		while (n > 0 && cut < 2) { if (exe[--n] == '/') cut++; }
		strcpy(exe + n, "/locale");
		setenv("LOCPATH", exe, 1);
	}
	if (!setlocale(LC_ALL, "xx_COMMA")) return;
	if (strcmp(localeconv()->decimal_point, ",") != 0) { setlocale(LC_ALL, "C"); return; }
	setlocale(LC_ALL, "C");
	comma_loc = newlocale(LC_ALL_MASK, "xx_COMMA", (locale_t)0);
	if (comma_loc) loc_state = 1;
}
static void loc_mode(char m)
{
	loc_setup();
	uselocale(LC_GLOBAL_LOCALE);
	setlocale(LC_ALL, "C");
	if (loc_state != 1) return;
	if (m == 'G') setlocale(LC_ALL, "xx_COMMA");
	else if (m == 'T') uselocale(comma_loc);
}

void run_case(char *rest)
{
	char *save = NULL, *d = strtok_r(rest, " ", &save), *fl = strtok_r(NULL, " ", &save), *ops = strtok_r(NULL, " ", &save);
	char *tokp, *save2 = NULL;
	struct json_tokener *tok;
	int first = 1, dead = 0, armed = 0;   /* after an error status the API requires a reset: further parses are skipped */
	long live0;
	xa_reset();
	live0 = xa_live;
	if (!d || !fl || !ops) { printf("BADLINE"); return; }
	tok = json_tokener_new_ex(atoi(d));
	if (!tok) { printf("NEWFAIL"); return; }
	json_tokener_set_flags(tok, atoi(fl));
	for (tokp = strtok_r(ops, ";", &save2); tokp; tokp = strtok_r(NULL, ";", &save2)) {
		if (!first) printf(" | ");
		first = 0;
		switch (tokp[0]) {
		case 'P': case 'Z': {
			size_t n;
			if (dead) { printf("skipped"); break; } unsigned char *b = unhex(tokp + 1, &n);
			struct json_object *o;
			enum json_tokener_error e;
			if (tokp[0] == 'Z') {
				unsigned char *z = (unsigned char *)malloc(n + 1);
				memcpy(z, b, n); z[n] = 0;
				o = json_tokener_parse_ex(tok, (char *)z, -1);
				free(z);
			} else {
				o = json_tokener_parse_ex(tok, (char *)b, (int)n);
			}
			free(b);
			e = json_tokener_get_error(tok);
			dead = (e != json_tokener_success && e != json_tokener_continue);
			if (armed) { xa_fail_at = -1; armed = 0; dead = 1; }
			printf("%s %zu ", err_name(e), json_tokener_get_parse_end(tok));
			if (e == json_tokener_success) jv_dump(o);
			else if (o) printf("VALUE-WITH-ERROR");
			else putchar('-');
			if (o) json_object_put(o);
			break; }
		case 'S': {
			/* stream of concatenated documents fed in chunks: S<hex>[,cut,cut,...] */
			char *comma = strchr(tokp, ',');
			size_t n, base = 0; unsigned char *data;
			int stop = 0, anydoc = 0; char last[64] = "none";
			if (dead) { printf("skipped"); break; }
			if (comma) *comma = 0;
			data = unhex(tokp + 1, &n);
			printf("docs=");
			while (!stop) {
				size_t cut = n, off = base; int fin = 0, iters = 0;
				if (comma) { char *e; cut = strtoul(comma + 1, &e, 10); comma = (*e == ',') ? e : NULL; if (!comma && cut != n) { /* last explicit cut */ comma = (char *)""; } }
				else stop = 2;   /* this is the final chunk (up to n) */
				if (comma && comma[0] == 0) comma = NULL;
				while (!fin && stop != 1) {
					/* exact-size copy so ASan sees reads beyond the chunk */
					size_t len = cut - off; unsigned char *c = (unsigned char *)malloc(len ? len : 1);
					struct json_object *o; enum json_tokener_error e; size_t end;
					memcpy(c, data + off, len);
					o = json_tokener_parse_ex(tok, (char *)c, (int)len);
					free(c);
					e = json_tokener_get_error(tok); end = json_tokener_get_parse_end(tok);
					iters++;
					if (e == json_tokener_success) {
						jv_dump(o); printf("@%zu;", off + end); anydoc = 1;
						if (o) json_object_put(o);
						strcpy(last, "success"); off += end;
						if (off >= cut || iters > 10000) fin = 1;
					} else if (e == json_tokener_continue) { strcpy(last, "continue"); fin = 1; if (o) printf("VALUE-WITH-ERROR"); }
					else { snprintf(last, sizeof last, "%s@%zu", err_name(e), off + end); stop = 1; dead = 1; if (o) printf("VALUE-WITH-ERROR"); }
				}
				base = cut;
				if (stop == 2 || cut >= n) break;
			}
			if (!anydoc) putchar('-');
			printf(" final=%s", last);
			free(data);
			break; }
		case 'V': case 'W': {
			/* json_tokener_parse_verbose / json_tokener_parse on the C string */
			size_t n; unsigned char *b = unhex(tokp + 1, &n);
			unsigned char *z = (unsigned char *)malloc(n + 1);
			struct json_object *o; enum json_tokener_error e = json_tokener_success;
			memcpy(z, b, n); z[n] = 0;
			if (tokp[0] == 'V') { o = json_tokener_parse_verbose((char *)z, &e); printf("%s ", err_name(e)); }
			else { o = json_tokener_parse((char *)z); printf("parse "); }
			/* NULL is both "no value" and the JSON null value: tell them apart by the status where there is one */
			if (o || (tokp[0] == 'V' && e == json_tokener_success)) jv_dump(o); else putchar('-');
			if (o) json_object_put(o);
			free(z); free(b);
			break; }
		case 'D': {
			/* json_object_from_fd_ex(fd, depth) on the given bytes through a temporary file */
			char *comma = strchr(tokp, ',');
			size_t n; unsigned char *b; FILE *f; struct json_object *o; int dreq;
			if (!comma) { printf("BADOP"); break; }
			*comma = 0; dreq = atoi(tokp + 1);
			b = unhex(comma + 1, &n);
			f = tmpfile();
			if (!f) { printf("TMPFAIL"); free(b); break; }
			if (n) fwrite(b, 1, n, f);
			fflush(f); rewind(f); lseek(fileno(f), 0, SEEK_SET);
			o = json_object_from_fd_ex(fileno(f), dreq);
			printf("fd ");
			if (o) { jv_dump(o); json_object_put(o); } else putchar('-');
			fclose(f); free(b);
			break; }
		case 'E': {
			/* json_object_from_fd_ex(fd, depth) on a descriptor that delivers the bytes in slices:
			 * E<depth>,<hex>[,cut,cut,...] — one SOCK_SEQPACKET packet per slice (each read() returns one
			 * slice, i.e. short reads before the end of the data), then end-of-file */
			char *c1 = strchr(tokp, ','), *c2;
			size_t n, prev = 0; unsigned char *b; struct json_object *o; int dreq, sv[2];
			if (!c1) { printf("BADOP"); break; }
			*c1 = 0; dreq = atoi(tokp + 1);
			c2 = strchr(c1 + 1, ',');
			if (c2) *c2 = 0;
			b = unhex(c1 + 1, &n);
			if (socketpair(AF_UNIX, SOCK_SEQPACKET, 0, sv) != 0) { printf("SOCKFAIL"); free(b); break; }
			while (prev < n) {
				size_t cut = n;
				if (c2) { char *e; cut = strtoul(c2 + 1, &e, 10); c2 = (*e == ',') ? e : NULL; if (cut > n) cut = n; }
				if (cut > prev) { if (write(sv[1], b + prev, cut - prev) < 0) break; prev = cut; }
				else if (!c2) { if (write(sv[1], b + prev, n - prev) < 0) break; prev = n; }
			}
			close(sv[1]);
			o = json_object_from_fd_ex(sv[0], dreq);
			printf("fd ");
			if (o) { jv_dump(o); json_object_put(o); } else putchar('-');
			close(sv[0]); free(b);
			break; }
		case 'B': {
			/* a NUL-terminated input of n bytes parsed with len = -1: B<mode>,<n>
			 * mode 0: an unterminated string  "aaaa…   1: an unterminated comment  / * aaaa…   2: 7 and blanks */
			char *comma = strchr(tokp, ',');
			int mode; size_t n; char *z; struct json_object *o; enum json_tokener_error e;
			if (dead) { printf("skipped"); break; }
			if (!comma) { printf("BADOP"); break; }
			mode = atoi(tokp + 1); n = strtoull(comma + 1, NULL, 10);
			z = (char *)malloc(n + 1);
			if (!z) { printf("NOMEM"); break; }
			memset(z, mode == 2 ? ' ' : 'a', n); z[n] = 0;
			if (mode == 0 && n >= 1) z[0] = '"';
			if (mode == 1 && n >= 2) { z[0] = '/'; z[1] = '*'; }
			if (mode == 2 && n >= 1) z[0] = '7';
			o = json_tokener_parse_ex(tok, z, -1);
			free(z);
			e = json_tokener_get_error(tok);
			dead = (e != json_tokener_success && e != json_tokener_continue);
			printf("%s %zu ", err_name(e), json_tokener_get_parse_end(tok));
			if (e == json_tokener_success) jv_dump(o);
			else if (o) printf("VALUE-WITH-ERROR");
			else putchar('-');
			if (o) json_object_put(o);
			break; }
		case 'Y': {
			/* an invalid length argument: Y<len> with len < -1 — refused with the size error before anything is read;
			 * the calling thread's locale is what it was (loc1) and nothing is kept (the LEAK check at the end) */
			int len = atoi(tokp + 1);
			locale_t before = uselocale((locale_t)0), after;
			struct json_object *o; enum json_tokener_error e;
			if (dead) { printf("skipped"); break; }
			o = json_tokener_parse_ex(tok, "[1]", len);
			e = json_tokener_get_error(tok);
			after = uselocale((locale_t)0);
			dead = (e != json_tokener_success && e != json_tokener_continue);
			printf("%s %zu %s", err_name(e), json_tokener_get_parse_end(tok), o ? "VALUE-WITH-ERROR" : "-");
			printf(" loc%d", before == after);
			if (before != after) uselocale(before);
			if (o) json_object_put(o);
			break; }
		case 'R': json_tokener_reset(tok); dead = 0; printf("reset"); break;
		case 'M': /* fail the k-th allocation from now on, during the next parse only */
			xa_fail_at = xa_count + atol(tokp + 1); armed = 1; printf("armed"); break;
		case 'N':
			json_tokener_free(tok);
			tok = json_tokener_new_ex(atoi(d));
			json_tokener_set_flags(tok, atoi(fl));
			dead = 0;
			printf("new"); break;
		case 'F': json_tokener_set_flags(tok, atoi(tokp + 1)); printf("flags"); break;
		case 'L': loc_mode(tokp[1]); printf("locale"); break;
		default: printf("BADOP");
		}
	}
	json_tokener_free(tok);
	if (loc_state == 1) loc_mode('C');
	if (xa_live != live0) printf(" | LEAK %ld", xa_live - live0);
}
