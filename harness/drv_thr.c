/* drv_thr.c — C18 implementation driver (threaded build under ThreadSanitizer).
 * Built with VARIANT "tsan": -fsanitize=thread -DENABLE_THREADING -DNDEBUG -pthread;
 * HAVE_ATOMIC_BUILTINS comes from the cmake-generated config.h.
 *
 * Script lines (same as ocaml/drv_thr.ml):
 *   rc <N> <K> <M> <mode> <L> <seed>   N worker threads, each K random get/put on M shared nodes
 *        (a worker is handed one reference per node, never drops to zero before its final
 *        releases, and releases only what it owns).  The creator keeps L extra references.
 *        mode join: the creator releases its own reference after the join;
 *             race: the creator releases it concurrently with the workers;
 *             hand: it is handed to worker 0, who releases it.
 *        After the join the count must be EXACTLY L (+1 for join); the creator then releases
 *        the rest.  A userdata delete callback counts destructions per node.
 *   cont <N> <K> <op> <C> <seed>   the count of a node changed by CONTAINER paths (destroying /
 *        emptying / overwriting a container that holds it) in one thread while N workers
 *        get/put it directly; see case_cont.
 *   last <N> <R> <seed>   R rounds: N threads own one reference each of a fresh node (nobody else
 *        does) and release them at the same moment; see case_last.
 *   iso <N> <iters> <size> <seed>   N threads, NO shared json object: own thread-local double format,
 *        own trees, serialise / parse / deep-copy / compare / pointer / patch in a loop; see case_iso.
 *   sched <what>   the model driver explores ALL schedules of small configurations with the
 *        regenerated micro-operation programs; the implementation side has no schedule control
 *        and prints the expected "sched ok".
 *   seedx <N> <R> <keyhex> <draws>   as `seed`, with the first results of json_c_get_random_seed()
 *        scripted (comma list of ints, "xK" = K more copies of the previous value), e.g. the
 *        sentinel -1 on the first draws; afterwards the real source.
 *   seed <N> <R> <keyhex>   N threads released by a barrier each create their first object,
 *        add the key and record the key's hash (default table hash) 1+R times; then the
 *        main thread hashes once more and looks the key up in every thread's table WITH ITS
 *        OWN hash value.
 *   trees <N> <size> <seed> N threads build / serialise / destroy disjoint trees; the same is
 *        done sequentially afterwards and the texts compared.
 * Observation:  "<kind> k=v ... volrd <0|1>".
 *
 * The hash seed is process-global, so EVERY case runs in a freshly forked child of the
 * (single-threaded, never-hashing) driver process.
 *
 * ThreadSanitizer reports: halt_on_error is off and __tsan_on_report() decides.  One class
 * is counted (volrd=1) instead of failing: a data race between an ATOMIC WRITE and a plain
 * READ of a 4-byte GLOBAL — that is lh_char_hash reading its volatile `random_seed` while
 * another thread's CAS installs it (see Properties_C18.v, C18_seed_plain_read_witness).
 * Every other report (any plain write, anything on the heap, i.e. on a reference count)
 * terminates the child with status 66; the parent prints "CRASH tsan:race" as the
 * observation of that line (the framework's notation for a sanitizer abort) and goes on. */
// EXCLUDE: random_seed.c
#include "common.h"
#include <pthread.h>
#include <sched.h>
#include <signal.h>
#include <sys/syscall.h>
#include <sys/wait.h>
#include <unistd.h>
#include "json.h"
#include "json_object_private.h"
#include "linkhash.h"

const char *DOMAIN = "thr";

/* ------------------------------------------------------------------ the random source as an oracle
 * The theorems quantify over EVERY random source (incl. one that returns the "unset" sentinel
 * -1, the same value twice, 0, INT_MIN ...).  To give the runtime stream the same reach the
 * library's json_c_get_random_seed is compiled into this unit under another name and the
 * public name is a front that, for `seedx` cases, first hands out a scripted sequence of draws
 * (process-wide, in call order) and then falls back to the real source. */
#define json_c_get_random_seed real_json_c_get_random_seed
#include "random_seed.c"
#undef json_c_get_random_seed
#define MAXDRAWS 4096
static int draws[MAXDRAWS];
static int n_draws, next_draw, total_draws;
int json_c_get_random_seed(void)
{
	int k = __atomic_fetch_add(&next_draw, 1, __ATOMIC_SEQ_CST);
	__atomic_add_fetch(&total_draws, 1, __ATOMIC_SEQ_CST);
	if (k < n_draws)
		return draws[k];
	return real_json_c_get_random_seed();
}

const char *__tsan_default_options(void)
{
	/* exitcode: what the runtime exits with when IT dies (internal fatal error, deadly signal it
	 * handles); must not be 0 or a crashed child would look like a silent success.  A child that
	 * finishes leaves through a raw exit_group(0) so that tolerated reports do not turn into 67. */
	return "halt_on_error=0 exitcode=67 report_signal_unsafe=0 atexit_sleep_ms=0 handle_segv=0 handle_sigbus=0 handle_abort=0";
}

extern int __tsan_get_report_data(void *report, const char **description, int *count, int *stack_count,
                                  int *mop_count, int *loc_count, int *mutex_count, int *thread_count,
                                  int *unique_tid_count, void **sleep_trace, unsigned long trace_size);
extern int __tsan_get_report_mop(void *report, unsigned long idx, int *tid, void **addr, int *size, int *write,
                                 int *atomic, void **trace, unsigned long trace_size);
extern int __tsan_get_report_loc(void *report, unsigned long idx, const char **type, void **addr,
                                 unsigned long *start, unsigned long *size, int *tid, int *fd,
                                 int *suppressable, void **trace, unsigned long trace_size);

static volatile int tolerated_reports;

static char why[256];
static int tolerable(void *rep)
{
	const char *desc = NULL, *ltype = NULL;
	int count, stacks, mops = 0, locs = 0, mutexes, threads, utids, i;
	void *sleep_trace[1], *addr, *trace[1];
	int plain_reads = 0, atomic_writes = 0;
	unsigned long start = 0, lsize = 0;
	int tid, fd, supp;
	if (!__tsan_get_report_data(rep, &desc, &count, &stacks, &mops, &locs, &mutexes, &threads, &utids, sleep_trace, 1))
		return 0;
	if (!desc || strcmp(desc, "data-race") != 0 || mops != 2 || locs < 1)
		return 0;
	for (i = 0; i < mops; i++) {
		int size, write, atomic;
		if (!__tsan_get_report_mop(rep, (unsigned long)i, &tid, &addr, &size, &write, &atomic, trace, 1))
			return 0;
		if (size != (int)sizeof(int))
			return 0;
		if (write && atomic) atomic_writes++;
		else if (!write && !atomic) plain_reads++;
		else return 0;                     /* a plain write, or an atomic read: not this class */
	}
	if (plain_reads != 1 || atomic_writes != 1)
		return 0;
	if (!__tsan_get_report_loc(rep, 0, &ltype, &addr, &start, &lsize, &tid, &fd, &supp, trace, 1))
		return 0;
	snprintf(why, sizeof why, "loc type=%s size=%lu", ltype ? ltype : "?", lsize);
	/* (this libtsan reports size 0 for globals; the access size was checked above) */
	return ltype && strcmp(ltype, "global") == 0;
}

void __tsan_on_report(void *rep)
{
	if (tolerable(rep)) {
		tolerated_reports = 1;
		return;
	}
	{
		static const char msg[] = "\ndrv_thr: ThreadSanitizer report is fatal for C18 ";
		(void)!write(2, msg, sizeof msg - 1);
		(void)!write(2, why, strlen(why));
		(void)!write(2, "\n", 1);
	}
	syscall(SYS_exit_group, 66);
}

/* ------------------------------------------------------------------ helpers */
#define MAXT 64
#define MAXM 8
static unsigned long lcg(unsigned long x) { return (x * 1103515245UL + 12345UL) & 0x7fffffffUL; }

static pthread_barrier_t bar;
static int destroyed[MAXT];                 /* per node / per tree */
static void count_delete(struct json_object *o, void *ud)
{
	(void)o;
	__atomic_add_fetch((int *)ud, 1, __ATOMIC_SEQ_CST);
}

/* ------------------------------------------------------------------ rc */
static struct json_object *nodes[MAXM];
static int rc_N, rc_K, rc_M, rc_hand;
static unsigned long rc_seed;
static int put1_total;

static void do_put(int m)
{
	if (json_object_put(nodes[m]) == 1)
		__atomic_add_fetch(&put1_total, 1, __ATOMIC_SEQ_CST);
}

static void *rc_worker(void *arg)
{
	long i = (long)arg;
	unsigned long x = (rc_seed * 1000003UL + (unsigned long)i * 7919UL + 1UL) & 0x7fffffffUL;
	int held[MAXM], m, k;
	for (m = 0; m < rc_M; m++) held[m] = (rc_hand && i == 0) ? 2 : 1;
	pthread_barrier_wait(&bar);
	for (k = 0; k < rc_K; k++) {
		int get;
		unsigned r;
		x = lcg(x); m = (int)((x >> 8) % (unsigned long)rc_M);
		x = lcg(x); r = (unsigned)((x >> 16) & 3);
		get = held[m] <= 1 ? 1 : held[m] >= 6 ? 0 : r < 2;
		if (get) { json_object_get(nodes[m]); held[m]++; }
		else { do_put(m); held[m]--; }
	}
	for (m = 0; m < rc_M; m++)
		while (held[m] > 0) { do_put(m); held[m]--; }
	return NULL;
}

static void case_rc(char *args)
{
	char mode[16];
	int L, m, j, exp, early = 0, d = 0;
	long lost = 0, i;
	pthread_t th[MAXT];
	if (sscanf(args, "%d %d %d %15s %d %lu", &rc_N, &rc_K, &rc_M, mode, &L, &rc_seed) != 6 ||
	    rc_N < 1 || rc_N > MAXT || rc_M < 1 || rc_M > MAXM) { printf("BADLINE"); return; }
	rc_hand = strcmp(mode, "hand") == 0;
	for (m = 0; m < rc_M; m++) {
		nodes[m] = json_object_new_object();
		json_object_object_add(nodes[m], "k", json_object_new_int(m));
		json_object_set_userdata(nodes[m], &destroyed[m], count_delete);
		/* hand out: one reference per worker, L extra for the creator (single-threaded here) */
		for (j = 0; j < rc_N + L; j++) json_object_get(nodes[m]);
	}
	pthread_barrier_init(&bar, NULL, (unsigned)rc_N + 1);
	for (i = 0; i < rc_N; i++) pthread_create(&th[i], NULL, rc_worker, (void *)i);
	pthread_barrier_wait(&bar);
	if (strcmp(mode, "race") == 0)
		for (m = 0; m < rc_M; m++) do_put(m);
	for (i = 0; i < rc_N; i++) pthread_join(th[i], NULL);
	exp = L + (strcmp(mode, "join") == 0 ? 1 : 0);
	for (m = 0; m < rc_M; m++) {
		int dm = __atomic_load_n(&destroyed[m], __ATOMIC_SEQ_CST);
		if (exp > 0) {
			long rc;
			if (dm > 0) { early++; continue; }         /* destroyed while references are owned */
			rc = (long)nodes[m]->_ref_count;
			lost += labs(rc - exp);
			for (j = 1; j <= exp; j++) {
				/* release what the creator owns; stop if the node went away early */
				if (j > 1 && __atomic_load_n(&destroyed[m], __ATOMIC_SEQ_CST) > 0) { early++; break; }
				do_put(m);
			}
		} else if (dm != 1) {
			early++;
		}
	}
	for (m = 0; m < rc_M; m++) d += __atomic_load_n(&destroyed[m], __ATOMIC_SEQ_CST);
	printf("rc nodes=%d destroyed=%d early=%d lost=%ld put1=%d", rc_M, d, early, lost,
	       __atomic_load_n(&put1_total, __ATOMIC_SEQ_CST));
}

/* ------------------------------------------------------------------ cont: counts changed by container paths */
/* The member node X is referenced directly by N workers (get/put hammering, as in `rc`) and,
 * again and again, from inside a container that only thread A (this thread) owns and touches:
 * A acquires a reference, hands it to the container, and the container releases it on one of
 * the library's own paths:
 *   putc_arr / putc_obj  json_object_put(container)            (container destroyed)
 *   adel                 json_object_array_del_idx
 *   aput                 json_object_array_put_idx replacing the element
 *   odel                 json_object_object_del
 *   oadd                 json_object_object_add replacing the member
 *   mix                  one of the above per iteration
 * A keeps one reference of its own throughout; after the join the count must be exactly 1,
 * nothing destroyed; A's release then destroys X exactly once. */
static const char *CONT_OPS[] = {"putc_arr", "putc_obj", "adel", "aput", "odel", "oadd"};

static void case_cont(char *args)
{
	char op[16];
	int C, it, which = -1, early = 0;
	long lost = 0, i;
	unsigned long x;
	struct json_object *X, *arr, *obj;
	pthread_t th[MAXT];
	if (sscanf(args, "%d %d %15s %d %lu", &rc_N, &rc_K, op, &C, &rc_seed) != 5 || rc_N < 1 || rc_N > MAXT) { printf("BADLINE"); return; }
	for (it = 0; it < 6; it++) if (strcmp(op, CONT_OPS[it]) == 0) which = it;
	if (which < 0 && strcmp(op, "mix") != 0) { printf("BADLINE"); return; }
	rc_M = 1; rc_hand = 0;
	X = json_object_new_object();
	json_object_object_add(X, "k", json_object_new_int(7));
	json_object_set_userdata(X, &destroyed[0], count_delete);
	nodes[0] = X;
	for (i = 0; i < rc_N; i++) json_object_get(X);          /* one reference per worker */
	arr = json_object_new_array();
	json_object_array_add(arr, json_object_new_int(0));
	obj = json_object_new_object();
	json_object_object_add(obj, "n", json_object_new_int(0));
	x = (rc_seed * 48271UL + 11UL) & 0x7fffffffUL;
	pthread_barrier_init(&bar, NULL, (unsigned)rc_N + 1);
	for (i = 0; i < rc_N; i++) pthread_create(&th[i], NULL, rc_worker, (void *)i);
	pthread_barrier_wait(&bar);
	for (it = 0; it < C; it++) {
		int w = which;
		if (w < 0) { x = lcg(x); w = (int)((x >> 9) % 6); }
		switch (w) {
		case 0: {
			struct json_object *a = json_object_new_array();
			json_object_array_add(a, json_object_new_int(it));
			json_object_array_add(a, json_object_get(X));
			json_object_put(a);
			break; }
		case 1: {
			struct json_object *o = json_object_new_object();
			json_object_object_add(o, "m", json_object_get(X));
			json_object_object_add(o, "n", json_object_new_int(it));
			json_object_put(o);
			break; }
		case 2:
			json_object_array_add(arr, json_object_get(X));
			json_object_array_del_idx(arr, json_object_array_length(arr) - 1, 1);
			break;
		case 3:
			json_object_array_put_idx(arr, 0, json_object_get(X));
			json_object_array_put_idx(arr, 0, json_object_new_int(it));
			break;
		case 4:
			json_object_object_add(obj, "m", json_object_get(X));
			json_object_object_del(obj, "m");
			break;
		default:
			json_object_object_add(obj, "m", json_object_get(X));
			json_object_object_add(obj, "m", json_object_new_int(it));
			break;
		}
	}
	for (i = 0; i < rc_N; i++) pthread_join(th[i], NULL);
	json_object_put(arr);
	json_object_put(obj);
	if (__atomic_load_n(&destroyed[0], __ATOMIC_SEQ_CST) > 0) {
		early++;                                     /* destroyed while A still owns a reference */
	} else {
		lost = labs((long)X->_ref_count - 1);
		do_put(0);
	}
	printf("cont destroyed=%d early=%d lost=%ld put1=%d", __atomic_load_n(&destroyed[0], __ATOMIC_SEQ_CST), early, lost,
	       __atomic_load_n(&put1_total, __ATOMIC_SEQ_CST));
}

/* ------------------------------------------------------------------ last: the LAST references released concurrently */
/* Every round: a fresh node with N references, each owned by exactly one of N threads, nobody
 * else holds one; all threads are released together (spinning on one flag, so that they really
 * overlap) and call json_object_put.  Exactly one of the puts must return 1 and the delete
 * callback must run exactly once per round. */
static int last_R, last_go, last_done;

static void *last_worker(void *arg)
{
	int r;
	(void)arg;
	for (r = 1; r <= last_R; r++) {
		unsigned spins = 0;
		while (__atomic_load_n(&last_go, __ATOMIC_ACQUIRE) < r)
			if ((++spins & 127) == 0) sched_yield();
		do_put(0);
		__atomic_add_fetch(&last_done, 1, __ATOMIC_ACQ_REL);
	}
	return NULL;
}

static void case_last(char *args)
{
	int N, r, bad = 0, j;
	long i;
	unsigned long sd;
	pthread_t th[MAXT];
	if (sscanf(args, "%d %d %lu", &N, &last_R, &sd) != 3 || N < 1 || N > MAXT) { printf("BADLINE"); return; }
	for (i = 0; i < N; i++) pthread_create(&th[i], NULL, last_worker, (void *)i);
	for (r = 1; r <= last_R; r++) {
		unsigned spins = 0;
		struct json_object *x = (r & 1) ? json_object_new_object() : json_object_new_array();
		if (r & 1) json_object_object_add(x, "k", json_object_new_int(r));
		else json_object_array_add(x, json_object_new_int(r));
		json_object_set_userdata(x, &destroyed[0], count_delete);
		for (j = 1; j < N; j++) json_object_get(x);        /* N references, handed to the N threads */
		nodes[0] = x;
		__atomic_store_n(&last_done, 0, __ATOMIC_RELEASE);
		__atomic_store_n(&last_go, r, __ATOMIC_RELEASE);
		while (__atomic_load_n(&last_done, __ATOMIC_ACQUIRE) < N)
			if ((++spins & 127) == 0) sched_yield();
		if (__atomic_load_n(&destroyed[0], __ATOMIC_SEQ_CST) != r || __atomic_load_n(&put1_total, __ATOMIC_SEQ_CST) != r) bad++;
	}
	for (i = 0; i < N; i++) pthread_join(th[i], NULL);
	printf("last rounds=%d destroyed=%d put1=%d bad=%d", last_R, __atomic_load_n(&destroyed[0], __ATOMIC_SEQ_CST),
	       __atomic_load_n(&put1_total, __ATOMIC_SEQ_CST), bad);
}

/* ------------------------------------------------------------------ iso: disjoint objects, hidden shared state */
/* N threads; NO json object is shared.  Each thread sets its OWN thread-local double format
 * (JSON_C_OPTION_THREAD: "%.0f", "%.3g", "%.17g" or unset), builds its own tree (with whole
 * and fractional doubles) and computes reference texts ALONE (one thread at a time, under a
 * mutex).  After the barrier all threads loop concurrently over their own objects:
 * serialising under several flag words, parsing with their own tokener, deep-copying,
 * comparing, json_pointer get/set and json_patch — every text must equal that thread's
 * reference.  Whatever TSan reports here is a race on library-internal shared state. */
#include "json_pointer.h"
#include "json_patch.h"
static const char *ISO_FORMATS[] = {"%.0f", "%.3g", "%.17g", NULL, "%.2f", "%.0f"};
static const int ISO_FLAGS[] = {JSON_C_TO_STRING_PLAIN, JSON_C_TO_STRING_SPACED, JSON_C_TO_STRING_PRETTY,
                                JSON_C_TO_STRING_PRETTY | JSON_C_TO_STRING_PRETTY_TAB,
                                JSON_C_TO_STRING_PLAIN | JSON_C_TO_STRING_NOZERO,
                                JSON_C_TO_STRING_SPACED | JSON_C_TO_STRING_NOSLASHESCAPE};
#define ISO_NFLAGS 6
#define ISO_NTEXT (ISO_NFLAGS + 4)
static int iso_iters, iso_size;
static unsigned long iso_seed;
static pthread_mutex_t iso_mu = PTHREAD_MUTEX_INITIALIZER;
static long iso_diff[MAXT];

static struct json_object *iso_build(unsigned long *x, int *budget, int depth)
{
	static const double DV[] = {2.0, -3.0, 0.5, 1e21, 1.25e-7, 100.0, 0.0, 12345678.0, 0.1, 7.0};
	unsigned r;
	*x = lcg(*x);
	r = (unsigned)((*x >> 10) % 8);
	(*budget)--;
	if (depth > 4 || *budget <= 0) r = r % 5;
	if (r < 3) return json_object_new_double(DV[(*x >> 4) % 10] * (double)(1 + (*x >> 20) % 3));
	if (r == 3) return json_object_new_int64((long long)(*x >> 3) - 100000000LL);
	if (r == 4) {
		char b[32];
		snprintf(b, sizeof b, "s/%lu", *x % 100000);
		return json_object_new_string(b);
	}
	if (r == 5) {
		struct json_object *a = json_object_new_array();
		int c = 1 + (int)((*x >> 5) % 4), j;
		for (j = 0; j < c; j++) json_object_array_add(a, iso_build(x, budget, depth + 1));
		return a;
	} else {
		struct json_object *o = json_object_new_object();
		int c = 1 + (int)((*x >> 5) % 4), j;
		for (j = 0; j < c; j++) {
			char k[32];
			snprintf(k, sizeof k, "k%d", j);
			json_object_object_add(o, k, iso_build(x, budget, depth + 1));
		}
		return o;
	}
}

/* all texts one pass produces from the thread's own tree; out[] entries are strdup'ed */
static void iso_pass(struct json_object *tree, struct json_object *patch, char **out)
{
	int f;
	struct json_object *copy = NULL, *parsed, *res = NULL;
	struct json_tokener *tok;
	struct json_patch_error perr;
	const char *plain;
	for (f = 0; f < ISO_NFLAGS; f++)
		out[f] = strdup(json_object_to_json_string_ext(tree, ISO_FLAGS[f]));
	/* parse the plain text with an own tokener, print it again */
	plain = out[0];
	tok = json_tokener_new();
	parsed = json_tokener_parse_ex(tok, plain, (int)strlen(plain) + 1);
	out[ISO_NFLAGS] = strdup(parsed ? json_object_to_json_string_ext(parsed, JSON_C_TO_STRING_PLAIN) : "PARSEFAIL");
	json_tokener_free(tok);
	/* deep copy, compare, print the copy */
	if (json_object_deep_copy(tree, &copy, NULL) != 0 || !json_object_equal(tree, copy))
		out[ISO_NFLAGS + 1] = strdup("COPYFAIL");
	else
		out[ISO_NFLAGS + 1] = strdup(json_object_to_json_string_ext(copy, JSON_C_TO_STRING_SPACED));
	/* pointer: read a member, overwrite another one in the copy */
	if (copy && json_pointer_get(copy, "/d/1", &res) == 0 && json_pointer_set(&copy, "/w", json_object_new_double(4.0)) == 0)
		out[ISO_NFLAGS + 2] = strdup(json_object_to_json_string_ext(res, JSON_C_TO_STRING_PLAIN));
	else
		out[ISO_NFLAGS + 2] = strdup("POINTERFAIL");
	/* patch the copy */
	if (copy && json_patch_apply(NULL, patch, &copy, &perr) == 0)
		out[ISO_NFLAGS + 3] = strdup(json_object_to_json_string_ext(copy, JSON_C_TO_STRING_PLAIN));
	else
		out[ISO_NFLAGS + 3] = strdup("PATCHFAIL");
	if (parsed) json_object_put(parsed);
	if (copy) json_object_put(copy);
}

static void *iso_worker(void *arg)
{
	long i = (long)arg;
	unsigned long x = (iso_seed * 1000003UL + (unsigned long)i * 15485863UL + 3UL) & 0x7fffffffUL;
	const char *fmt = ISO_FORMATS[(iso_seed + (unsigned long)i) % 6];
	int budget = iso_size, it, k;
	struct json_object *tree, *d, *patch;
	char *ref[ISO_NTEXT], *got[ISO_NTEXT];
	/* alone: format, tree, references */
	pthread_mutex_lock(&iso_mu);
	json_c_set_serialization_double_format(fmt, JSON_C_OPTION_THREAD);
	tree = json_object_new_object();
	d = json_object_new_array();
	json_object_array_add(d, json_object_new_double(2.0));
	json_object_array_add(d, json_object_new_double(3.0 + (double)(i % 2) * 0.5));
	json_object_object_add(tree, "d", d);
	json_object_object_add(tree, "w", json_object_new_double(1.0));
	while (budget > 0) {
		char kk[32];
		snprintf(kk, sizeof kk, "r%d", budget);
		json_object_object_add(tree, kk, iso_build(&x, &budget, 1));
	}
	patch = json_tokener_parse("[{\"op\":\"add\",\"path\":\"/zz\",\"value\":5.0},{\"op\":\"remove\",\"path\":\"/w\"},"
	                           "{\"op\":\"copy\",\"from\":\"/d/0\",\"path\":\"/d/-\"},{\"op\":\"test\",\"path\":\"/zz\",\"value\":5.0}]");
	iso_pass(tree, patch, ref);
	pthread_mutex_unlock(&iso_mu);
	pthread_barrier_wait(&bar);
	for (it = 0; it < iso_iters; it++) {
		iso_pass(tree, patch, got);
		for (k = 0; k < ISO_NTEXT; k++) {
			if (strcmp(got[k], ref[k]) != 0) iso_diff[i]++;
			free(got[k]);
		}
	}
	json_object_put(tree);
	json_object_put(patch);
	json_c_set_serialization_double_format(NULL, JSON_C_OPTION_THREAD);
	for (k = 0; k < ISO_NTEXT; k++) {
		if (strstr(ref[k], "FAIL")) iso_diff[i] += 1000000;     /* the reference pass itself must work */
		free(ref[k]);
	}
	return NULL;
}

static void case_iso(char *args)
{
	int N;
	long i, diff = 0;
	pthread_t th[MAXT];
	if (sscanf(args, "%d %d %d %lu", &N, &iso_iters, &iso_size, &iso_seed) != 4 || N < 1 || N > MAXT) { printf("BADLINE"); return; }
	pthread_barrier_init(&bar, NULL, (unsigned)N);
	for (i = 0; i < N; i++) pthread_create(&th[i], NULL, iso_worker, (void *)i);
	for (i = 0; i < N; i++) pthread_join(th[i], NULL);
	for (i = 0; i < N; i++) diff += iso_diff[i];
	printf("iso threads=%d diff=%ld", N, diff);
}

/* ------------------------------------------------------------------ seed */
static char *seed_key;
static int seed_R;
static unsigned long seed_first[MAXT];
static int seed_late[MAXT];
static struct json_object *seed_obj[MAXT];

static void *seed_worker(void *arg)
{
	long i = (long)arg;
	int r;
	struct json_object *o;
	pthread_barrier_wait(&bar);
	o = json_object_new_object();                  /* the thread's first object */
	/* the very first use of the hash in this thread is, alternately, the insertion itself
	 * (its hash is then only visible through the later lookup) or an explicit hash call */
	if (i & 1) seed_first[i] = lh_get_hash(json_object_get_object(o), seed_key);
	json_object_object_add(o, seed_key, json_object_new_int((int)i));
	if (!(i & 1)) seed_first[i] = lh_get_hash(json_object_get_object(o), seed_key);
	for (r = 0; r < seed_R; r++)
		if (lh_get_hash(json_object_get_object(o), seed_key) != seed_first[i]) seed_late[i]++;
	seed_obj[i] = o;
	return NULL;
}

static void case_seed(char *args)
{
	int N, distinct = 0, found = 0, late = 0;
	long i, j;
	char keyhex[512];
	size_t kl;
	unsigned char *kb;
	unsigned long hmain;
	struct json_object *o;
	pthread_t th[MAXT];
	char *dr;
	if (sscanf(args, "%d %d %500s", &N, &seed_R, keyhex) != 3 || N < 1 || N >= MAXT) { printf("BADLINE"); return; }
	/* optional 4th field: the scripted draws "v,v,xK,..." (v xK = K more copies of the last value) */
	dr = strchr(args, ' '); dr = dr ? strchr(dr + 1, ' ') : NULL; dr = dr ? strchr(dr + 1, ' ') : NULL;
	if (dr) {
		char *tok, *save = NULL;
		for (tok = strtok_r(dr + 1, ",", &save); tok; tok = strtok_r(NULL, ",", &save)) {
			if (tok[0] == 'x' && n_draws > 0) {
				long k = strtol(tok + 1, NULL, 10);
				while (k-- > 0 && n_draws < MAXDRAWS) { draws[n_draws] = draws[n_draws - 1]; n_draws++; }
			} else if (n_draws < MAXDRAWS) {
				draws[n_draws++] = (int)strtol(tok, NULL, 10);
			}
		}
	}
	kb = unhex(keyhex, &kl);
	seed_key = (char *)malloc(kl + 1);
	memcpy(seed_key, kb, kl);
	seed_key[kl] = 0;
	pthread_barrier_init(&bar, NULL, (unsigned)N);
	for (i = 0; i < N; i++) pthread_create(&th[i], NULL, seed_worker, (void *)i);
	for (i = 0; i < N; i++) pthread_join(th[i], NULL);
	/* a later use, in another thread */
	o = json_object_new_object();
	hmain = lh_get_hash(json_object_get_object(o), seed_key);
	json_object_put(o);
	for (i = 0; i < N; i++) {
		int seen = 0;
		for (j = 0; j < i; j++) if (seed_first[j] == seed_first[i]) seen = 1;
		if (!seen) distinct++;
		late += seed_late[i];
		/* the entry a thread inserted under ITS hash must be found with the main thread's hash */
		if (lh_table_lookup_entry_w_hash(json_object_get_object(seed_obj[i]), seed_key, hmain) != NULL &&
		    seed_first[i] == hmain)
			found++;
	}
	{
		int seen = 0;
		for (j = 0; j < N; j++) if (seed_first[j] == hmain) seen = 1;
		if (!seen) distinct++;
	}
	for (i = 0; i < N; i++) json_object_put(seed_obj[i]);
	printf("seed distinct=%d found=%d late=%d", distinct, found, late);
}

/* ------------------------------------------------------------------ disjoint trees */
static int tr_size;
static unsigned long tr_seed;
static char *tr_text[MAXT];

static struct json_object *build(unsigned long *x, int *budget, int depth)
{
	unsigned r;
	*x = lcg(*x);
	r = (unsigned)((*x >> 10) % 6);
	(*budget)--;
	if (depth > 5 || *budget <= 0) r = r % 3;
	if (r < 2) return json_object_new_int64((long long)(*x >> 3) - 100000000LL);
	if (r == 2) {
		char b[32];
		snprintf(b, sizeof b, "s%lu", *x % 100000);
		return json_object_new_string(b);
	}
	if (r == 3) {
		struct json_object *a = json_object_new_array();
		int c = (int)((*x >> 5) % 5), j;
		for (j = 0; j < c; j++) json_object_array_add(a, build(x, budget, depth + 1));
		return a;
	} else {
		struct json_object *o = json_object_new_object();
		int c = 1 + (int)((*x >> 5) % 5), j;
		for (j = 0; j < c; j++) {
			char k[32];
			snprintf(k, sizeof k, "k%d_%lu", j, *x % 1000);
			json_object_object_add(o, k, build(x, budget, depth + 1));
		}
		return o;
	}
}

static char *tree_text(long i, int *dcount)
{
	unsigned long x = (tr_seed * 1000003UL + (unsigned long)i * 104729UL + 17UL) & 0x7fffffffUL;
	int budget = tr_size;
	struct json_object *root = json_object_new_object();
	struct json_object *child;
	char *s;
	json_object_set_userdata(root, dcount, count_delete);
	while (budget > 0) {
		char k[32];
		snprintf(k, sizeof k, "r%d", budget);
		child = build(&x, &budget, 1);
		json_object_object_add(root, k, child);
		/* share and unshare a subtree of our own */
		json_object_get(child);
		json_object_put(child);
	}
	s = strdup(json_object_to_json_string_ext(root, JSON_C_TO_STRING_PLAIN));
	json_object_get(root);
	json_object_put(root);
	json_object_put(root);
	return s;
}

static void *tree_worker(void *arg)
{
	long i = (long)arg;
	pthread_barrier_wait(&bar);
	tr_text[i] = tree_text(i, &destroyed[i]);
	return NULL;
}

static void case_trees(char *args)
{
	int N, same = 0, d = 0, dummy = 0;
	long i;
	pthread_t th[MAXT];
	if (sscanf(args, "%d %d %lu", &N, &tr_size, &tr_seed) != 3 || N < 1 || N > MAXT) { printf("BADLINE"); return; }
	pthread_barrier_init(&bar, NULL, (unsigned)N);
	for (i = 0; i < N; i++) pthread_create(&th[i], NULL, tree_worker, (void *)i);
	for (i = 0; i < N; i++) pthread_join(th[i], NULL);
	for (i = 0; i < N; i++) {
		char *ref = tree_text(i, &dummy);          /* single-threaded reference run */
		if (tr_text[i] && strcmp(ref, tr_text[i]) == 0) same++;
		free(ref);
		d += __atomic_load_n(&destroyed[i], __ATOMIC_SEQ_CST);
	}
	printf("trees same=%d destroyed=%d", same, d);
}

/* ------------------------------------------------------------------ dispatch: one child per case */
void run_case(char *rest)
{
	pid_t pid;
	int status = 0;
	FILE *errf = tmpfile();
	fflush(stdout);
	fflush(stderr);
	pid = fork();
	if (pid < 0) { printf("FORKFAIL"); return; }
	if (pid == 0) {
		if (errf) dup2(fileno(errf), 2);
		alarm(240);
		if (strncmp(rest, "rc ", 3) == 0) case_rc(rest + 3);
		else if (strncmp(rest, "cont ", 5) == 0) case_cont(rest + 5);
		else if (strncmp(rest, "last ", 5) == 0) case_last(rest + 5);
		else if (strncmp(rest, "iso ", 4) == 0) case_iso(rest + 4);
		else if (strncmp(rest, "sched", 5) == 0) printf("sched ok");   /* model-side schedule exploration: nothing to run here */
		else if (strncmp(rest, "seed ", 5) == 0) case_seed(rest + 5);
		else if (strncmp(rest, "seedx ", 6) == 0) case_seed(rest + 6);
		else if (strncmp(rest, "trees ", 6) == 0) case_trees(rest + 6);
		else printf("BADLINE");
		printf(" volrd %d", tolerated_reports ? 1 : 0);
		fflush(stdout);
		syscall(SYS_exit_group, 0);
		_exit(0);
	}
	while (waitpid(pid, &status, 0) < 0 && errno == EINTR) {}
	if (!(WIFEXITED(status) && WEXITSTATUS(status) == 0)) {
		/* The case ran in its own process, so the driver itself survives: forward what the child
		 * wrote to stderr (the sanitizer report) and record the crash as this line's observation,
		 * in the framework's own notation, then go on with the next case. */
		if (errf) {
			char buf[4096];
			size_t n;
			rewind(errf);
			while ((n = fread(buf, 1, sizeof buf, errf)) > 0) fwrite(buf, 1, n, stderr);
		}
		fflush(stderr);
		if (WIFEXITED(status) && WEXITSTATUS(status) == 66) printf(" CRASH tsan:race");
		else if (WIFEXITED(status) && WEXITSTATUS(status) == 67) printf(" CRASH tsan:fatal");
		else if (WIFSIGNALED(status) && WTERMSIG(status) == SIGALRM) printf(" TIMEOUT");   /* the case's own time budget: not a judgement */
		else if (WIFSIGNALED(status)) printf(" CRASH signal:%d", WTERMSIG(status));
		else printf(" CRASH exit:%d", WEXITSTATUS(status));
	}
	if (errf) fclose(errf);
}
