/* drv_ptr.c — JSON Pointer domain (C12).  Same script and observation format as
 * ocaml/drv_ptr.ml.
 *
 * Line:  ptr <tree in jvtext> <op>;<op>;...
 *   g<hexptr>            json_pointer_get(root, ptr, &res)
 *   json_pointer_getf(root, &res, fmt, ...) with the SAME formatted string <ptr>, in the
 *   format shapes a caller uses:
 *   G<hexptr>            "%s", ptr
 *   H<hexptr>            <ptr with every % doubled>                    (no arguments)
 *   I<hexptr>            "/%s", ptr+1          ("%s" when ptr has no leading '/')
 *   J<hexptr>            "%s%s", first half, second half
 *   D<hexptr>            "%s/%d", ptr up to its last '/', last token   (when that token is a
 *                        canonical decimal < 10^9; "%s" otherwise)
 *   s<hexptr>=<jvtext>   json_pointer_set(&root, ptr, value)
 *   S T U V E <hexptr>=<jvtext>   json_pointer_setf(&root, value, fmt, ...) in the shapes of
 *                        G H I J D
 *   A lookup op prefixed with 'n' (ng…, nG…) passes res == NULL (documented: existence test).
 * Observation per op:  <rc> <errno> <var> <typed dump of the whole tree after the op>
 *   <var> of a lookup = the caller's result variable after the call; it is preset to the
 *   address of a sentinel node before the call:
 *     after a success: the location of the node now in it = the first node in document order
 *       with that address, written r(.k<hexkey|->|.i<index>)*; NULL for the NULL pointer (a
 *       JSON null target); OUTSIDE when it is not in the tree; UNSET when it still holds the
 *       sentinel;
 *     after a failure: kept when it still holds the sentinel, CLOBBERED otherwise;
 *     noarg when res == NULL was passed.
 *   <var> of a set = the root handle *obj after the call: same | new (a different pointer).
 * Last step:  END <live allocations after everything was released>.
 * Ownership: after a failed set the value still belongs to the caller, who releases it
 * (a value wrongly kept by the library then shows as a double free / use after free). */
#include "common.h"
#include "jvtext.h"
#include "json_pointer.h"
const char *DOMAIN = "ptr";

/* array growth above this many bytes is refused by the allocator (the model's oracle:
 * an array can be made to hold n slots iff n <= PTR_SLOT_LIMIT = PTR_ALLOC_LIMIT / 8) */
#define PTR_ALLOC_LIMIT ((size_t)1 << 24)

#define IDBUF ((size_t)1 << 20)
struct pathbuf { char *s; size_t n; };

static int find_node(struct json_object *cur, struct json_object *want, struct pathbuf *pb)
{
	size_t keep = pb->n;
	if (cur == want) return 1;
	if (!cur) return 0;
	if (json_object_get_type(cur) == json_type_array) {
		size_t i, n = json_object_array_length(cur);
		for (i = 0; i < n; i++) {
			if (keep + 64 >= IDBUF) break;
			pb->n = keep + (size_t)sprintf(pb->s + keep, ".i%zu", i);
			if (find_node(json_object_array_get_idx(cur, i), want, pb)) return 1;
		}
	} else if (json_object_get_type(cur) == json_type_object) {
		struct lh_entry *e;
		static const char hexd[] = "0123456789abcdef";
		for (e = json_object_get_object(cur)->head; e; e = e->next) {
			const unsigned char *k = (const unsigned char *)lh_entry_k(e);
			size_t j, kl = strlen((const char *)k);
			if (keep + 2 * kl + 70 >= IDBUF) continue;
			pb->n = keep;
			pb->s[pb->n++] = '.'; pb->s[pb->n++] = 'k';
			if (kl == 0) pb->s[pb->n++] = '-';
			for (j = 0; j < kl; j++) { pb->s[pb->n++] = hexd[k[j] >> 4]; pb->s[pb->n++] = hexd[k[j] & 15]; }
			pb->s[pb->n] = 0;
			if (find_node((struct json_object *)lh_entry_v(e), want, pb)) return 1;
		}
	}
	pb->n = keep;
	pb->s[keep] = 0;
	return 0;
}

/* what the caller's result variable holds before a lookup: the address of a node that is not
 * part of any tree (never dereferenced) */
static struct json_object *sentinel_node(void)
{
	static struct json_object dummy;
	return &dummy;
}

static void print_id(struct json_object *root, struct json_object *res)
{
	static char *buf;
	struct pathbuf pb;
	if (!res) { printf("NULL"); return; }
	if (res == sentinel_node()) { printf("UNSET"); return; }
	if (!buf) buf = (char *)(malloc)(IDBUF);
	pb.s = buf;
	pb.s[0] = 'r'; pb.s[1] = 0; pb.n = 1;
	if (find_node(root, res, &pb)) printf("%s", pb.s);
	else printf("OUTSIDE");
}

/* NUL-terminated copy of n bytes in an exact-size block (so ASan sees overreads) */
static char *cstr_n(const char *b, size_t n)
{
	char *z = (char *)(malloc)(n + 1);
	memcpy(z, b, n); z[n] = 0;
	return z;
}
static char *cstr_of_hex(const char *hex)
{
	size_t n; unsigned char *b = unhex(hex, &n);
	char *z = cstr_n((const char *)b, n);
	(free)(b);
	return z;
}
static char *double_percent(const char *s)
{
	char *z = (char *)(malloc)(2 * strlen(s) + 1), *q = z;
	for (; *s; s++) { *q++ = *s; if (*s == '%') *q++ = '%'; }
	*q = 0;
	return z;
}

/* the last token as an int for "%s/%d": canonical decimal below 10^9, with a '/' before it */
static int last_token_int(const char *p, size_t *cut, int *val)
{
	const char *sl = strrchr(p, '/');
	size_t n, i;
	long v = 0;
	if (!sl) return 0;
	n = strlen(sl + 1);
	if (n == 0 || n > 9 || (n > 1 && sl[1] == '0')) return 0;
	for (i = 0; i < n; i++) {
		if (sl[1 + i] < '0' || sl[1 + i] > '9') return 0;
		v = v * 10 + (sl[1 + i] - '0');
	}
	*cut = (size_t)(sl - p);
	*val = (int)v;
	return 1;
}

/* one call of the f-variant: is_set selects setf; the format shape is `shape` (G H I J D) */
static int call_f(int is_set, char shape, struct json_object **root, struct json_object **res,
                  struct json_object *val, const char *p)
{
	int rc;
	size_t len = strlen(p);
#define CALLF(...) (is_set ? json_pointer_setf(root, val, __VA_ARGS__) : json_pointer_getf(*root, res, __VA_ARGS__))
	switch (shape) {
	case 'H': {
		char *f = double_percent(p);
		rc = CALLF(f);
		(free)(f);
		return rc; }
	case 'I':
		if (p[0] == '/') {
			char *a = cstr_n(p + 1, len - 1);
			rc = CALLF("/%s", a);
			(free)(a);
			return rc;
		}
		break;
	case 'J': {
		size_t h = len / 2;
		char *a = cstr_n(p, h), *b = cstr_n(p + h, len - h);
		rc = CALLF("%s%s", a, b);
		(free)(a); (free)(b);
		return rc; }
	case 'D': {
		size_t cut; int v;
		if (last_token_int(p, &cut, &v)) {
			char *a = cstr_n(p, cut);
			rc = CALLF("%s/%d", a, v);
			(free)(a);
			return rc;
		}
		break; }
	default:
		break;
	}
	return CALLF("%s", p);
#undef CALLF
}

static char get_shape(char kind) { return kind; }                      /* G H I J D */
static char set_shape(char kind)                                       /* S T U V E */
{
	switch (kind) { case 'S': return 'G'; case 'T': return 'H'; case 'U': return 'I'; case 'V': return 'J'; default: return 'D'; }
}

void run_case(char *rest)
{
	char *sp = strchr(rest, ' ');
	char *ops, *tok, *save = NULL;
	const char *tp;
	struct json_object *root;
	int perr = 0;
	if (!sp) { printf("BADLINE"); return; }
	*sp = 0;
	ops = sp + 1;
	xa_reset();
	tp = rest;
	root = jv_parse(&tp, &perr);
	if (perr || *tp) { printf("BADTREE"); json_object_put(root); return; }
	xa_limit = PTR_ALLOC_LIMIT;
	for (tok = strtok_r(ops, ";", &save); tok; tok = strtok_r(NULL, ";", &save)) {
		int noarg = (tok[0] == 'n');
		char kind;
		int rc, err;
		if (noarg) tok++;
		kind = tok[0];
		switch (kind) {
		case 'g': case 'G': case 'H': case 'I': case 'J': case 'D': {
			char *p = cstr_of_hex(tok + 1);
			struct json_object *res = sentinel_node();      /* the caller's default */
			struct json_object **resp = noarg ? NULL : &res;
			struct json_object *handle = root;
			errno = 0;
			if (kind == 'g') rc = json_pointer_get(root, p, resp);
			else rc = call_f(0, get_shape(kind), &root, resp, NULL, p);
			err = errno;
			(free)(p);
			printf("%d %s ", rc, rc < 0 ? errno_name(err) : "0");
			if (root != handle) printf("ROOTCHANGED");
			else if (noarg) printf(res == sentinel_node() ? "noarg" : "CLOBBERED");
			else if (rc == 0) print_id(root, res);
			else printf(res == sentinel_node() ? "kept" : "CLOBBERED");
			break; }
		case 's': case 'S': case 'T': case 'U': case 'V': case 'E': {
			char *eq = strchr(tok, '=');
			char *p;
			const char *vp;
			struct json_object *val;
			int verr = 0;
			if (!eq) { printf("BADOP"); json_object_put(root); return; }
			*eq = 0;
			p = cstr_of_hex(tok + 1);
			vp = eq + 1;
			xa_limit = 0;
			val = jv_parse(&vp, &verr);
			xa_limit = PTR_ALLOC_LIMIT;
			if (verr || *vp) { printf("BADVALUE"); (free)(p); json_object_put(val); json_object_put(root); return; }
			struct json_object *handle = root;
			if (noarg) { printf("BADOP"); (free)(p); json_object_put(val); json_object_put(root); return; }
			errno = 0;
			if (kind == 's') rc = json_pointer_set(&root, p, val);
			else rc = call_f(1, set_shape(kind), &root, NULL, val, p);
			err = errno;
			(free)(p);
			if (rc < 0) {
				/* the value is still ours; so is the old root should the handle have moved */
				if (root != handle && root == val) root = handle;
				json_object_put(val);
			}
			printf("%d %s %s", rc, rc < 0 ? errno_name(err) : "0", root == handle ? "same" : "new");
			break; }
		default:
			printf("BADOP"); json_object_put(root); return;
		}
		putchar(' ');
		jv_dump(root);
		printf(" | ");
	}
	json_object_put(root);
	printf("END %ld", xa_live);
}
