/* drv_ptr.c — JSON Pointer domain (C12).  Same script and observation format as
 * ocaml/drv_ptr.ml.
 *
 * Line:  ptr <tree in jvtext> <op>;<op>;...
 *   g<hexptr>            json_pointer_get(root, ptr, &res)
 *   G<hexptr>            json_pointer_getf(root, &res, "%s", ptr)
 *   H<hexptr>            json_pointer_getf(root, &res, <ptr with every % doubled>)
 *   s<hexptr>=<jvtext>   json_pointer_set(&root, ptr, value)
 *   S<hexptr>=<jvtext>   json_pointer_setf(&root, value, "%s", ptr)
 *   T<hexptr>=<jvtext>   json_pointer_setf(&root, value, <ptr with every % doubled>)
 * Observation per op:  <rc> <errno> <id> <typed dump of the whole tree after the op>
 *   id of a get: the location of the returned node = the first node in document order
 *   whose address is the returned pointer, written r(.k<hexkey|->|.i<index>)*; NULL when the
 *   returned pointer is NULL (a JSON null target); OUTSIDE when it is not in the tree; - on
 *   failure and for set.
 * Last step:  END <live allocations after everything was released>.
 * Ownership: after a failed set the value still belongs to the caller, who releases it
 * (a value wrongly kept by the library then shows as a double free / use after free). */
#include "common.h"
#include "jvtext.h"
#include "json_pointer.h"
const char *DOMAIN = "ptr";

/* array growth above this many bytes is refused by the allocator (the model's oracle:
 * an array can be made to hold n slots iff n <= PTR_SLOT_LIMIT = PTR_ALLOC_LIMIT / 8) */
#define PTR_ALLOC_LIMIT ((size_t)1 << 24)

struct pathbuf { char s[4096]; size_t n; };

static int find_node(struct json_object *cur, struct json_object *want, struct pathbuf *pb)
{
	size_t keep = pb->n;
	if (cur == want) return 1;
	if (!cur) return 0;
	if (json_object_get_type(cur) == json_type_array) {
		size_t i, n = json_object_array_length(cur);
		for (i = 0; i < n; i++) {
			pb->n = keep + (size_t)snprintf(pb->s + keep, sizeof pb->s - keep, ".i%zu", i);
			if (pb->n < sizeof pb->s - 64 && find_node(json_object_array_get_idx(cur, i), want, pb)) return 1;
		}
	} else if (json_object_get_type(cur) == json_type_object) {
		struct lh_entry *e;
		for (e = json_object_get_object(cur)->head; e; e = e->next) {
			const unsigned char *k = (const unsigned char *)lh_entry_k(e);
			size_t j, kl = strlen((const char *)k);
			if (keep + 2 * kl + 70 >= sizeof pb->s) continue;
			pb->n = keep + (size_t)sprintf(pb->s + keep, ".k");
			if (kl == 0) pb->s[pb->n++] = '-';
			for (j = 0; j < kl; j++) pb->n += (size_t)sprintf(pb->s + pb->n, "%02x", k[j]);
			pb->s[pb->n] = 0;
			if (find_node((struct json_object *)lh_entry_v(e), want, pb)) return 1;
		}
	}
	pb->n = keep;
	pb->s[keep] = 0;
	return 0;
}

static void print_id(struct json_object *root, struct json_object *res)
{
	struct pathbuf pb;
	if (!res) { printf("NULL"); return; }
	pb.s[0] = 'r'; pb.s[1] = 0; pb.n = 1;
	if (find_node(root, res, &pb)) printf("%s", pb.s);
	else printf("OUTSIDE");
}

/* NUL-terminated copy of a hex pointer string in an exact-size block */
static char *cstr_of_hex(const char *hex)
{
	size_t n; unsigned char *b = unhex(hex, &n);
	char *z = (char *)(malloc)(n + 1);
	memcpy(z, b, n); z[n] = 0;
	(free)(b);
	return z;
}
static char *double_percent(const char *s)
{
	char *z = (char *)(malloc)(2 * strlen(s) + 1), *q = z;
	for (; *s; s++) { *q++ = *s; if (*s == '%') *q++ = '%'; }
	*q = 0;
	return z;
}

void run_case(char *rest)
{
	char *sp = strchr(rest, ' ');
	char *ops, *tok, *save = NULL;
	const char *tp;
	struct json_object *root;
	int perr = 0;
	if (!sp) { printf("BADLINE"); return; }
	*sp = 0;
	ops = sp + 1;
	xa_reset();
	tp = rest;
	root = jv_parse(&tp, &perr);
	if (perr || *tp) { printf("BADTREE"); json_object_put(root); return; }
	xa_limit = PTR_ALLOC_LIMIT;
	for (tok = strtok_r(ops, ";", &save); tok; tok = strtok_r(NULL, ";", &save)) {
		char kind = tok[0];
		int rc, err;
		switch (kind) {
		case 'g': case 'G': case 'H': {
			char *p = cstr_of_hex(tok + 1);
			struct json_object *res = (struct json_object *)(uintptr_t)0x10;   /* never a node */
			errno = 0;
			if (kind == 'g') rc = json_pointer_get(root, p, &res);
			else if (kind == 'G') rc = json_pointer_getf(root, &res, "%s", p);
			else { char *f = double_percent(p); rc = json_pointer_getf(root, &res, f); (free)(f); }
			err = errno;
			(free)(p);
			printf("%d %s ", rc, rc < 0 ? errno_name(err) : "0");
			if (rc == 0) print_id(root, res); else putchar('-');
			break; }
		case 's': case 'S': case 'T': {
			char *eq = strchr(tok, '=');
			char *p;
			const char *vp;
			struct json_object *val;
			int verr = 0;
			if (!eq) { printf("BADOP"); json_object_put(root); return; }
			*eq = 0;
			p = cstr_of_hex(tok + 1);
			vp = eq + 1;
			xa_limit = 0;
			val = jv_parse(&vp, &verr);
			xa_limit = PTR_ALLOC_LIMIT;
			if (verr || *vp) { printf("BADVALUE"); (free)(p); json_object_put(val); json_object_put(root); return; }
			errno = 0;
			if (kind == 's') rc = json_pointer_set(&root, p, val);
			else if (kind == 'S') rc = json_pointer_setf(&root, val, "%s", p);
			else { char *f = double_percent(p); rc = json_pointer_setf(&root, val, f); (free)(f); }
			err = errno;
			(free)(p);
			if (rc < 0) json_object_put(val);       /* still ours */
			printf("%d %s -", rc, rc < 0 ? errno_name(err) : "0");
			break; }
		default:
			printf("BADOP"); json_object_put(root); return;
		}
		putchar(' ');
		jv_dump(root);
		printf(" | ");
	}
	json_object_put(root);
	printf("END %ld", xa_live);
}
