/* drv_patch.c — JSON Patch domain (C13).  Same script and observation format as
 * ocaml/drv_patch.ml.
 *
 * Line:  patch <mode> <target in jvtext> <patch document in jvtext>
 *   mode i   json_patch_apply(NULL, patch, &base, &err) with base = the target (patched in place)
 *   mode c   json_patch_apply(target, patch, &base, &err) with base = NULL (the target is copied first)
 * The patch document is ANY tree, not only an array of objects.
 *
 * Observation:
 *   <rc> <errno_code> <idx> <typed dump of *base> P<=|!dump> C<=|!|-> S<n>:<m>:<d> R<=|!..> END <live>
 *     errno_code  json_patch_error.errno_code by name (EFAULT is spelled out), 0 on success
 *     idx         patch_failure_idx when rc != 0 (MAX = SIZE_T_MAX), - on success
 *     P=          the patch document is what it was before the call (typed, ordered comparison
 *                 against an independently built twin); otherwise P! and its dump afterwards
 *     C= / C!     mode c: the copy source is / is not what it was;  C-  in mode i
 *     S<n>:<m>    sharing probe: n = nodes reachable from *base that are also reachable from the
 *                 patch document, m = (mode c) nodes reachable from *base also reachable from the source
 *     R= / R!     ownership of the document: in mode i the driver keeps a second reference on
 *                 the target node; afterwards that node is held by exactly *base and the driver
 *                 (*base still the target) or by the driver alone (root replaced / removed), and a
 *                 new *base is held exactly once; in mode c the source and *base are each held
 *                 exactly once.  R!<detail> when a reference was dropped or kept that was not the
 *                 library's — also, and in particular, when the call FAILS
 *     END <live>  allocations still live after *base, the patch document (both references), the
 *                 twins and the source were released
 * A NULL dereference / use after free / double release is caught by the framework (CRASH). */
#include "common.h"
#include "jvtext.h"
#include "json_patch.h"
#include <math.h>
const char *DOMAIN = "patch";

/* typed, ordered identity of two trees (what jv_dump would print, without printing) */
static int same_tree(struct json_object *a, struct json_object *b)
{
	enum json_type t;
	if (!a || !b) return a == b;
	t = json_object_get_type(a);
	if (t != json_object_get_type(b)) return 0;
	switch (t) {
	case json_type_null: return 1;
	case json_type_boolean: return !json_object_get_boolean(a) == !json_object_get_boolean(b);
	case json_type_int: {
		struct json_object_int *x = (struct json_object_int *)a, *y = (struct json_object_int *)b;
		if (x->cint_type != y->cint_type) return 0;
		return x->cint_type == json_object_int_type_int64 ? x->cint.c_int64 == y->cint.c_int64
		                                                  : x->cint.c_uint64 == y->cint.c_uint64; }
	case json_type_double: {
		double p = json_object_get_double(a), q = json_object_get_double(b);
		int ta = a->_userdata && a->_user_delete == json_object_free_userdata;
		int tb = b->_userdata && b->_user_delete == json_object_free_userdata;
		if (!(p != p && q != q) && memcmp(&p, &q, 8) != 0) return 0;
		if (ta != tb) return 0;
		return !ta || strcmp((char *)a->_userdata, (char *)b->_userdata) == 0; }
	case json_type_string:
		return json_object_get_string_len(a) == json_object_get_string_len(b) &&
		       memcmp(json_object_get_string(a), json_object_get_string(b), (size_t)json_object_get_string_len(a)) == 0;
	case json_type_array: {
		size_t i, n = json_object_array_length(a);
		if (n != json_object_array_length(b)) return 0;
		for (i = 0; i < n; i++)
			if (!same_tree(json_object_array_get_idx(a, i), json_object_array_get_idx(b, i))) return 0;
		return 1; }
	case json_type_object: {
		struct lh_entry *e = json_object_get_object(a)->head, *f = json_object_get_object(b)->head;
		for (; e && f; e = e->next, f = f->next) {
			if (strcmp((const char *)lh_entry_k(e), (const char *)lh_entry_k(f)) != 0) return 0;
			if (!same_tree((struct json_object *)lh_entry_v(e), (struct json_object *)lh_entry_v(f))) return 0;
		}
		return !e && !f; }
	}
	return 0;
}

/* the set of node addresses reachable from a tree */
struct pset { struct json_object **p; size_t n, cap; };
static void pset_add(struct pset *s, struct json_object *o)
{
	if (s->n == s->cap) { s->cap = s->cap ? 2 * s->cap : 64; s->p = (struct json_object **)(realloc)(s->p, s->cap * sizeof *s->p); }
	s->p[s->n++] = o;
}
static void reach(struct json_object *o, struct pset *s)
{
	if (!o) return;
	pset_add(s, o);
	if (json_object_get_type(o) == json_type_array) {
		size_t i, n = json_object_array_length(o);
		for (i = 0; i < n; i++) reach(json_object_array_get_idx(o, i), s);
	} else if (json_object_get_type(o) == json_type_object) {
		struct lh_entry *e;
		for (e = json_object_get_object(o)->head; e; e = e->next) reach((struct json_object *)lh_entry_v(e), s);
	}
}
static int cmp_ptr(const void *a, const void *b)
{
	uintptr_t x = (uintptr_t)*(struct json_object *const *)a, y = (uintptr_t)*(struct json_object *const *)b;
	return x < y ? -1 : x > y;
}
/* number of distinct addresses that occur more than once in the (sorted) set */
static size_t dups(struct pset *a)
{
	size_t i, n = 0;
	if (a->n) qsort(a->p, a->n, sizeof *a->p, cmp_ptr);
	for (i = 1; i < a->n; i++)
		if (a->p[i] == a->p[i - 1] && (i < 2 || a->p[i] != a->p[i - 2])) n++;
	return n;
}
/* number of distinct addresses present in both sets */
static size_t common(struct pset *a, struct pset *b)
{
	size_t i = 0, j = 0, n = 0;
	if (a->n) qsort(a->p, a->n, sizeof *a->p, cmp_ptr);
	if (b->n) qsort(b->p, b->n, sizeof *b->p, cmp_ptr);
	while (i < a->n && j < b->n) {
		if (a->p[i] == b->p[j]) {
			struct json_object *x = a->p[i];
			n++;
			while (i < a->n && a->p[i] == x) i++;
			while (j < b->n && b->p[j] == x) j++;
		} else if (cmp_ptr(&a->p[i], &b->p[j]) < 0) i++;
		else j++;
	}
	return n;
}

static const char *pe_name(int e)
{
	return e == EFAULT ? "EFAULT" : errno_name(e);
}

void run_case(char *rest)
{
	char mode;
	char *t1, *t2;
	const char *p;
	struct json_object *tgt = NULL, *tgt_twin = NULL, *pat = NULL, *pat_twin = NULL, *base = NULL, *orig = NULL;
	char rdetail[96] = "";
	struct json_patch_error err;
	struct pset sr = {0}, sp = {0}, ss = {0};
	int perr = 0, rc;
	size_t n_patch, n_src = 0;

	mode = rest[0];
	if ((mode != 'i' && mode != 'c') || rest[1] != ' ') { printf("BADLINE"); return; }
	t1 = rest + 2;
	t2 = strchr(t1, ' ');
	if (!t2) { printf("BADLINE"); return; }
	*t2++ = 0;
	xa_reset();
	p = t1; tgt = jv_parse(&p, &perr);       if (perr || *p) goto bad;
	p = t1; tgt_twin = jv_parse(&p, &perr);  if (perr || *p) goto bad;
	p = t2; pat = jv_parse(&p, &perr);       if (perr || *p) goto bad;
	p = t2; pat_twin = jv_parse(&p, &perr);  if (perr || *p) goto bad;
	json_object_get(pat);                    /* our own second reference to the patch document */

	memset(&err, 0x5a, sizeof err);
	errno = 0;
	if (mode == 'i') {
		base = tgt;                           /* ownership of the target moves into base */
		orig = json_object_get(tgt);          /* and we keep a second reference on that node */
		tgt = NULL;
		rc = json_patch_apply(NULL, pat, &base, &err);
	} else {
		base = NULL;
		rc = json_patch_apply(tgt, pat, &base, &err);
	}

	/* who holds the document now?  (before anything dereferences *base) */
	if (mode == 'i') {
		if (orig) {
			unsigned have = orig->_ref_count, want = (base == orig) ? 2u : 1u;
			if (have != want) snprintf(rdetail, sizeof rdetail, "target:%u/%u", have, want);
			else if (base && base != orig && base->_ref_count != 1) snprintf(rdetail, sizeof rdetail, "base:%u/1", (unsigned)base->_ref_count);
		}
	} else {
		if (tgt && tgt->_ref_count != 1) snprintf(rdetail, sizeof rdetail, "source:%u/1", (unsigned)tgt->_ref_count);
		else if (base && base->_ref_count != 1) snprintf(rdetail, sizeof rdetail, "base:%u/1", (unsigned)base->_ref_count);
	}
	if (rdetail[0] && mode == 'i' && orig && base == orig && orig->_ref_count < 2) base = NULL;   /* *base dangles: do not touch it again */

	printf("%d %s ", rc, pe_name(err.errno_code));
	if (rc == 0) putchar('-');
	else if (err.patch_failure_idx == (size_t)-1) printf("MAX");
	else printf("%zu", err.patch_failure_idx);
	putchar(' ');
	jv_dump(base);
	if (same_tree(pat, pat_twin)) printf(" P=");
	else { printf(" P!"); jv_dump(pat); }
	if (mode == 'i') printf(" C-");
	else printf(same_tree(tgt, tgt_twin) ? " C=" : " C!");
	reach(base, &sr); reach(pat, &sp);
	n_patch = common(&sr, &sp);
	if (mode == 'c') { reach(tgt, &ss); n_src = common(&sr, &ss); }
	printf(" S%zu:%zu:%zu", n_patch, n_src, dups(&sr));
	(free)(sr.p); (free)(sp.p); (free)(ss.p);
	if (rdetail[0]) printf(" R!%s", rdetail); else printf(" R=");

	json_object_put(base);
	json_object_put(orig);
	json_object_put(pat); json_object_put(pat);
	json_object_put(pat_twin);
	json_object_put(tgt); json_object_put(tgt_twin);
	printf(" END %ld", xa_live);
	return;
bad:
	printf("BADTREE");
	json_object_put(tgt); json_object_put(tgt_twin); json_object_put(pat); json_object_put(pat_twin);
}
