/* drv_ser.c — serializer domain (C02).  Same script and observation format as
 * ocaml/drv_ser.ml:  "<tree in jvtext> <flags>,<flags>,... [<op>;<op>;...]"; the optional history is applied to
 * the tree through the public API before it is serialized:
 *   C  json_object_deep_copy, go on with the copy, release the original
 *   K  the same, but the original is kept aside untouched and dumped at the end
 *   R<flags>  go on with json_tokener_parse_ex(serialization of the tree under <flags>)   -> step "R <text hex>"
 *   D<path>=<16hex> set_double   I<path>=<dec> set_int64   U<path>=<dec> set_uint64   B<path>=<0|1> set_boolean
 *   T<path>=<hex|-> set_string_len
 *   Z<path>=<hex|-|~> json_object_set_serializer(n, NULL, copy of the bytes (~ = NULL), deleter): reset + opaque userdata
 *   W<path>=<hex|-|~> json_object_set_userdata(n, ...) on a node that carries no retained text (json_object.h sends
 *                     retained-text doubles to set_serializer(NULL): there W addresses nothing)
 *   Y<path>=<hex>     install json_object_userdata_to_json_string with the bytes, then reset with (NULL, NULL, NULL)
 *   G<path>=<hex>     on a double: install json_object_double_to_json_string with the bytes as format, then reset
 *   F<who><scope>=<hex|~>  json_c_set_serialization_double_format(bytes (~ = NULL), scope) -> step "F <return value>"
 *                     who: m the main thread, h a helper thread that makes the call and exits (pthread_create + join),
 *                     p a helper thread that stays alive until the case ends; scope: g GLOBAL, t THREAD, x an invalid value.
 *                     The main thread serializes.  At the end of the case the helper and the main thread drop their
 *                     thread formats and the global format is reset.
 *   P<path>=<mode>,<n>,<hextag>  json_object_set_serializer(node, a serializer of this driver, ...): the node then prints a piece
 *                     built with the public print-buffer API:  q sprintbuf("\"%s\"", tag)   d sprintbuf("1%0*d", n, 7)
 *                     m printbuf_memappend x3 (quote, tag, quote)   s printbuf_memset(-1, ' ', n) + printbuf_strappend("true")
 *                     c printbuf_strappend(quote) + sprintbuf("%.*s", n, ...) per chunk of n bytes of the tag + quote
 *   A<path>:<jvtext> replace the child (array_put_idx / object_add on the
 *   existing key)   X<path> delete the child (array_del_idx / object_del);  <path> = @ (root) or i.j.k (child positions)
 * then a step "tree <typed dump>" (and "aside <typed dump>" after K) precedes the per-flag steps.  Per flag value
 *   <text hex> <reported length> <json_object_equal(orig,reparsed)> <typed dump of reparsed> <re-serialization hex>
 * or <text hex> <reported length> PARSEFAIL <err>.  With JSON_C_TO_STRING_COLOR the colour
 * sequences ESC [ ... m are removed before the re-parse (the text column shows them). */
#include "jvtext.h"
#include "json_tokener.h"
#include "printbuf.h"
#include <pthread.h>
const char *DOMAIN = "ser";

static const char *err_name(enum json_tokener_error e)
{
	switch (e) {
	case json_tokener_success: return "success";
	case json_tokener_continue: return "continue";
	case json_tokener_error_depth: return "depth";
	case json_tokener_error_parse_eof: return "eof";
	case json_tokener_error_parse_unexpected: return "unexpected";
	case json_tokener_error_parse_null: return "null";
	case json_tokener_error_parse_boolean: return "boolean";
	case json_tokener_error_parse_number: return "number";
	case json_tokener_error_parse_array: return "array";
	case json_tokener_error_parse_object_key_name: return "object_key_name";
	case json_tokener_error_parse_object_key_sep: return "object_key_sep";
	case json_tokener_error_parse_object_value_sep: return "object_value_sep";
	case json_tokener_error_parse_string: return "string";
	case json_tokener_error_parse_comment: return "comment";
	case json_tokener_error_parse_utf8_string: return "utf8";
	case json_tokener_error_size: return "size";
	case json_tokener_error_memory: return "memory";
	default: return "unknown";
	}
}

/* the node at a path; *parent / *idx receive the container and position of the last step */
static struct json_object *child_at(struct json_object *o, size_t i, int *ok)
{
	*ok = 0;
	if (!o) return NULL;
	if (json_object_get_type(o) == json_type_array) {
		if (i >= json_object_array_length(o)) return NULL;
		*ok = 1;
		return json_object_array_get_idx(o, i);
	}
	if (json_object_get_type(o) == json_type_object) {
		struct lh_entry *e = json_object_get_object(o)->head;
		while (e && i > 0) { e = e->next; i--; }
		if (!e) return NULL;
		*ok = 1;
		return (struct json_object *)lh_entry_v(e);
	}
	return NULL;
}
static const char *key_at(struct json_object *o, size_t i)
{
	struct lh_entry *e = json_object_get_object(o)->head;
	while (e && i > 0) { e = e->next; i--; }
	return e ? (const char *)lh_entry_k(e) : NULL;
}
/* parses "@" or "i.j.k" up to the terminator; walks down from root.  With want_parent the last
 * component is returned in *last and the walk stops at its container. */
static struct json_object *walk(struct json_object *root, const char **pp, int want_parent, size_t *last, int *ok)
{
	const char *p = *pp;
	struct json_object *o = root;
	size_t comps[64], n = 0, i;
	*ok = 1;
	if (*p == '@') p++;
	else {
		for (;;) {
			char *e;
			if (n < 64) comps[n++] = (size_t)strtoull(p, &e, 10); else strtoull(p, &e, 10);
			p = e;
			if (*p == '.') { p++; continue; }
			break;
		}
	}
	*pp = p;
	if (want_parent) {
		if (n == 0) { *ok = 0; return NULL; }
		*last = comps[--n];
	}
	for (i = 0; i < n; i++) {
		int k;
		o = child_at(o, comps[i], &k);
		if (!k) { *ok = 0; return NULL; }
	}
	return o;
}

static void strip_color(char *copy, size_t tl)
{
	size_t i = 0, j = 0;
	while (i < tl) {
		if (copy[i] == 27 && copy[i + 1] == '[') {
			size_t k = i + 2;
			while (copy[k] == ';' || (copy[k] >= '0' && copy[k] <= '9')) k++;
			if (copy[k] == 'm') { i = k + 1; continue; }
		}
		copy[j++] = copy[i++];
	}
	copy[j] = 0;
}

/* opaque application data: own deleter (jv_dump takes json_object_free_userdata for a retained text), counted */
static long tags_live = 0;
static void free_tag(struct json_object *jso, void *userdata)
{
	(void)jso;
	if (userdata) { tags_live--; (free)(userdata); }
}
static char *new_tag(const char *hex)
{
	size_t n; unsigned char *b; char *t;
	if (*hex == '~') return NULL;
	b = unhex(hex, &n);
	t = (char *)(malloc)(n + 1);
	memcpy(t, b, n); t[n] = 0;
	(free)(b);
	tags_live++;
	return t;
}
static int has_retained_text(struct json_object *n)
{
	return n->_userdata && n->_user_delete == json_object_free_userdata;
}

/* ---- option formats set from the main thread or from helper threads ---- */
static long expected_lost = 0;       /* thread formats of exited threads: json-c has no hook to free them */
static int formats_touched = 0;
struct fmt_call { const char *fmt; int scope; int rc; };
static void *oneshot_main(void *arg)
{
	struct fmt_call *c = (struct fmt_call *)arg;
	c->rc = json_c_set_serialization_double_format(c->fmt, c->scope);
	return NULL;
}
static struct {
	pthread_t th; int alive; pthread_mutex_t mu; pthread_cond_t cv;
	int cmd;                 /* 0 idle, 1 make the call, 2 leave */
	struct fmt_call call; int done;
} ph = { .mu = PTHREAD_MUTEX_INITIALIZER, .cv = PTHREAD_COND_INITIALIZER };
static void *persistent_main(void *arg)
{
	(void)arg;
	pthread_mutex_lock(&ph.mu);
	for (;;) {
		while (ph.cmd == 0) pthread_cond_wait(&ph.cv, &ph.mu);
		if (ph.cmd == 2) break;
		ph.call.rc = json_c_set_serialization_double_format(ph.call.fmt, ph.call.scope);
		ph.cmd = 0; ph.done = 1;
		pthread_cond_broadcast(&ph.cv);
	}
	json_c_set_serialization_double_format(NULL, JSON_C_OPTION_THREAD);   /* do not leave the thread's format behind */
	ph.cmd = 0; ph.done = 1;
	pthread_cond_broadcast(&ph.cv);
	pthread_mutex_unlock(&ph.mu);
	return NULL;
}
static int persistent_call(const char *fmt, int scope, int leave)
{
	int rc;
	if (!ph.alive) {
		if (leave) return 0;
		ph.cmd = 0; ph.done = 0;
		pthread_create(&ph.th, NULL, persistent_main, NULL);
		ph.alive = 1;
	}
	pthread_mutex_lock(&ph.mu);
	ph.call.fmt = fmt; ph.call.scope = scope; ph.done = 0;
	ph.cmd = leave ? 2 : 1;
	pthread_cond_broadcast(&ph.cv);
	while (!ph.done) pthread_cond_wait(&ph.cv, &ph.mu);
	rc = ph.call.rc;
	pthread_mutex_unlock(&ph.mu);
	if (leave) { pthread_join(ph.th, NULL); ph.alive = 0; }
	return rc;
}
static void formats_cleanup(void)
{
	if (!formats_touched) return;
	persistent_call(NULL, 0, 1);
	json_c_set_serialization_double_format(NULL, JSON_C_OPTION_THREAD);
	json_c_set_serialization_double_format(NULL, JSON_C_OPTION_GLOBAL);
	formats_touched = 0;
}
static int format_op(const char *op)
{
	/* F<who><scope>=<hex|~> */
	char who = op[1], sc = op[2];
	int scope = sc == 'g' ? JSON_C_OPTION_GLOBAL : sc == 't' ? JSON_C_OPTION_THREAD : 7, rc;
	char *fmt = NULL;
	if (!who || !sc || op[3] != '=') return -99;
	if (op[4] != '~') {
		size_t n; unsigned char *b = unhex(op + 4, &n);
		fmt = (char *)(malloc)(n + 1); memcpy(fmt, b, n); fmt[n] = 0; (free)(b);
	}
	formats_touched = 1;
	if (who == 'm') rc = json_c_set_serialization_double_format(fmt, scope);
	else if (who == 'h') {
		struct fmt_call c = { fmt, scope, 0 };
		pthread_t th;
		pthread_create(&th, NULL, oneshot_main, &c);
		pthread_join(th, NULL);
		rc = c.rc;
		if (rc == 0 && scope == JSON_C_OPTION_THREAD && fmt) expected_lost++;
	} else if (who == 'p') rc = persistent_call(fmt, scope, 0);
	else rc = -99;
	if (fmt) (free)(fmt);
	return rc;
}

/* ---- custom serializers that build their text with the public print-buffer API ---- */
struct piece { char mode; int n; char *tag; size_t taglen; };
static long pieces_live = 0;
static void free_piece(struct json_object *jso, void *userdata)
{
	struct piece *pc = (struct piece *)userdata;
	(void)jso;
	if (pc) { (free)(pc->tag); (free)(pc); pieces_live--; }
}
static int piece_printer(struct json_object *jso, struct printbuf *pb, int level, int flags)
{
	struct piece *pc = (struct piece *)json_object_get_userdata(jso);
	(void)level; (void)flags;
	switch (pc->mode) {
	case 'q': return sprintbuf(pb, "\"%s\"", pc->tag);
	case 'd': return sprintbuf(pb, "1%0*d", pc->n, 7);
	case 'm':
		if (printbuf_memappend(pb, "\"", 1) < 0 || printbuf_memappend(pb, pc->tag, (int)pc->taglen) < 0) return -1;
		return printbuf_memappend(pb, "\"", 1);
	case 's':
		if (printbuf_memset(pb, -1, ' ', pc->n) < 0) return -1;
		return printbuf_strappend(pb, "true");
	case 'c': {
		size_t i;
		if (printbuf_strappend(pb, "\"") < 0) return -1;
		for (i = 0; i < pc->taglen; i += (size_t)pc->n) {
			size_t k = pc->taglen - i < (size_t)pc->n ? pc->taglen - i : (size_t)pc->n;
			if (sprintbuf(pb, "%.*s", (int)k, pc->tag + i) < 0) return -1;
		}
		return printbuf_strappend(pb, "\""); }
	}
	return -1;
}

/* returns 0 when the history has to stop (a step was printed that says why) */
static int apply_op(char *op, struct json_object **t, struct json_object **aside, int *has_aside, int *nsteps)
{
	const char *p = op + 1;
	int ok;
	size_t last = 0;
	struct json_object *n;
	switch (op[0]) {
	case 'C': case 'K': {
		struct json_object *c = NULL;
		if (*t && json_object_deep_copy(*t, &c, NULL) != 0) {
			if ((*nsteps)++) printf(" | ");
			printf("COPYFAIL");
			return 0;
		}
		if (op[0] == 'K') {
			if (*has_aside) json_object_put(*aside);
			*aside = *t; *has_aside = 1;
		} else json_object_put(*t);
		*t = c;
		return 1; }
	case 'R': {
		int flags = atoi(p);
		size_t len = 0, tl;
		const char *text = json_object_to_json_string_length(*t, flags, &len);
		char *copy;
		struct json_tokener *tok;
		struct json_object *r;
		enum json_tokener_error e;
		if ((*nsteps)++) printf(" | ");
		if (!text) { printf("R NULLTEXT"); return 0; }
		tl = strlen(text);
		copy = (char *)(malloc)(tl + 1);
		memcpy(copy, text, tl + 1);
		printf("R "); puthex((const unsigned char *)copy, tl);
		if (flags & JSON_C_TO_STRING_COLOR) strip_color(copy, tl);
		tok = json_tokener_new();
		r = json_tokener_parse_ex(tok, copy, -1);
		e = json_tokener_get_error(tok);
		json_tokener_free(tok);
		(free)(copy);
		if (e != json_tokener_success) {
			printf(" PARSEFAIL %s", err_name(e));
			if (r) json_object_put(r);
			return 0;
		}
		json_object_put(*t);
		*t = r;
		return 1; }
	case 'D': case 'I': case 'U': case 'B': case 'T': case 'Z': case 'W': case 'Y': case 'G':
		n = walk(*t, &p, 0, &last, &ok);
		if (*p != '=') { if ((*nsteps)++) printf(" | "); printf("BADOP"); return 0; }
		p++;
		if (!ok) return 1;                       /* the path addresses nothing */
		if (strchr("ZWYG", op[0]) && !n) return 1;   /* the NULL pointer has no userdata */
		switch (op[0]) {
		case 'Z': { char *tag = new_tag(p); json_object_set_serializer(n, NULL, tag, tag ? free_tag : NULL); break; }
		case 'W': if (!has_retained_text(n)) { char *tag = new_tag(p); json_object_set_userdata(n, tag, tag ? free_tag : NULL); } break;
		case 'Y': { char *tag = new_tag(p);
			json_object_set_serializer(n, json_object_userdata_to_json_string, tag, tag ? free_tag : NULL);
			json_object_set_serializer(n, NULL, NULL, NULL); break; }
		case 'G': if (json_object_get_type(n) == json_type_double) { char *tag = new_tag(p);
			json_object_set_serializer(n, json_object_double_to_json_string, tag, tag ? free_tag : NULL);
			json_object_set_serializer(n, NULL, NULL, NULL); } break;
		case 'D': { uint64_t bits = strtoull(p, NULL, 16); double d; memcpy(&d, &bits, 8); json_object_set_double(n, d); break; }
		case 'I': json_object_set_int64(n, (int64_t)strtoll(p, NULL, 10)); break;
		case 'U': json_object_set_uint64(n, (uint64_t)strtoull(p, NULL, 10)); break;
		case 'B': json_object_set_boolean(n, *p == '1'); break;
		case 'T': { size_t len; unsigned char *b = unhex(p, &len); json_object_set_string_len(n, (const char *)b, (int)len); (free)(b); break; }
		}
		return 1;
	case 'P': {
		/* P<path>=<mode>,<n>,<hextag> */
		struct piece *pc;
		size_t tl; unsigned char *b;
		char *c1, *c2;
		n = walk(*t, &p, 0, &last, &ok);
		if (*p != '=' || !p[1] || p[2] != ',' || !(c2 = strchr(p + 3, ','))) { if ((*nsteps)++) printf(" | "); printf("BADOP"); return 0; }
		c1 = (char *)p + 3;
		if (!ok || !n) return 1;                 /* nothing there, or the NULL pointer */
		pc = (struct piece *)(malloc)(sizeof(*pc));
		pc->mode = p[1];
		pc->n = atoi(c1);
		b = unhex(c2 + 1, &tl);
		pc->tag = (char *)(malloc)(tl + 1); memcpy(pc->tag, b, tl); pc->tag[tl] = 0; pc->taglen = tl;
		(free)(b);
		if (pc->mode == 'c' && pc->n < 1) pc->n = 1;
		pieces_live++;
		json_object_set_serializer(n, piece_printer, pc, free_piece);
		return 1; }
	case 'F': {
		int rc = format_op(op);
		if ((*nsteps)++) printf(" | ");
		if (rc == -99) { printf("BADOP"); return 0; }
		printf("F %d", rc);
		return 1; }
	case 'A': case 'X': {
		struct json_object *v = NULL;
		int err = 0;
		n = walk(*t, &p, 1, &last, &ok);
		if (op[0] == 'A') {
			if (*p != ':') { if ((*nsteps)++) printf(" | "); printf("BADOP"); return 0; }
			p++;
			v = jv_parse(&p, &err);
			if (err) { json_object_put(v); if ((*nsteps)++) printf(" | "); printf("BADOP"); return 0; }
		}
		if (ok && n && json_object_get_type(n) == json_type_array && last < json_object_array_length(n)) {
			if (op[0] == 'A') { if (json_object_array_put_idx(n, last, v) != 0) json_object_put(v); }
			else json_object_array_del_idx(n, last, 1);
		} else if (ok && n && json_object_get_type(n) == json_type_object && key_at(n, last)) {
			char *k = (strdup)(key_at(n, last));
			if (op[0] == 'A') { if (json_object_object_add(n, k, v) != 0) json_object_put(v); }
			else json_object_object_del(n, k);
			(free)(k);
		} else if (v) json_object_put(v);
		return 1; }
	default:
		if ((*nsteps)++) printf(" | ");
		printf("BADOP");
		return 0;
	}
}

void run_case(char *rest)
{
	char *sp = strchr(rest, ' '), *sp2;
	const char *p = rest;
	char *fl, *save = NULL, *ops = NULL;
	struct json_object *o, *aside = NULL;
	int err = 0, nsteps = 0, has_aside = 0;
	long live0;
	xa_reset();
	live0 = xa_live;
	if (!sp) { printf("BADLINE"); return; }
	*sp = 0;
	sp2 = strchr(sp + 1, ' ');
	if (sp2) { *sp2 = 0; ops = sp2 + 1; }
	o = jv_parse(&p, &err);
	if (err || *p) { printf("BADTREE"); json_object_put(o); return; }
	if (ops) {
		char *op, *save2 = NULL;
		for (op = strtok_r(ops, ";", &save2); op; op = strtok_r(NULL, ";", &save2))
			if (!apply_op(op, &o, &aside, &has_aside, &nsteps)) break;
		if (nsteps++) printf(" | ");
		printf("tree "); jv_dump(o);
		if (has_aside) { printf(" | aside "); jv_dump(aside); json_object_put(aside); }
	}
	for (fl = strtok_r(sp + 1, ",", &save); fl; fl = strtok_r(NULL, ",", &save)) {
		int flags = atoi(fl);
		size_t len = (size_t)-1, tl;
		const char *text;
		char *copy;
		struct json_tokener *tok;
		struct json_object *r;
		enum json_tokener_error e;
		if (nsteps++) printf(" | ");
		text = json_object_to_json_string_length(o, flags, &len);
		if (!text) { printf("NULLTEXT %zu", len); continue; }
		tl = strlen(text);
		/* exact-size private copy: the re-parse must not depend on the object's buffer, and
		 * ASan sees any read past the terminator */
		copy = (char *)(malloc)(tl + 1);
		memcpy(copy, text, tl + 1);
		puthex((const unsigned char *)copy, tl);
		printf(" %zu ", len);
		/* the property allows colour escapes: remove ESC [ ... m before the re-parse */
		if (flags & JSON_C_TO_STRING_COLOR) strip_color(copy, tl);
		tok = json_tokener_new();
		r = json_tokener_parse_ex(tok, copy, -1);
		e = json_tokener_get_error(tok);
		if (e != json_tokener_success) {
			printf("PARSEFAIL %s", err_name(e));
			if (r) { printf(" VALUE-WITH-ERROR"); json_object_put(r); }
		} else {
			size_t len2 = 0;
			const char *t2;
			printf("%d ", json_object_equal(o, r) ? 1 : 0);
			jv_dump(r);
			putchar(' ');
			t2 = json_object_to_json_string_length(r, flags, &len2);
			if (!t2) printf("NULLTEXT");
			else puthex((const unsigned char *)t2, strlen(t2));
			json_object_put(r);
		}
		json_tokener_free(tok);
		(free)(copy);
	}
	json_object_put(o);
	formats_cleanup();
	live0 += expected_lost; expected_lost = 0;
	if (xa_live != live0) printf(" | LEAK %ld", xa_live - live0);
	else if (tags_live != 0) { printf(" | LEAK userdata %ld", tags_live); tags_live = 0; }
	else if (pieces_live != 0) { printf(" | LEAK userdata %ld", pieces_live); pieces_live = 0; }
}
