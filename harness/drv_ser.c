/* drv_ser.c — serializer domain (C02).  Same script and observation format as
 * ocaml/drv_ser.ml:  "<tree in jvtext> <flags>,<flags>,..."; per flag value
 *   <text hex> <reported length> <json_object_equal(orig,reparsed)> <typed dump of reparsed> <re-serialization hex>
 * or <text hex> <reported length> PARSEFAIL <err>.  With JSON_C_TO_STRING_COLOR the colour
 * sequences ESC [ ... m are removed before the re-parse (the text column shows them). */
#include "jvtext.h"
#include "json_tokener.h"
const char *DOMAIN = "ser";

static const char *err_name(enum json_tokener_error e)
{
	switch (e) {
	case json_tokener_success: return "success";
	case json_tokener_continue: return "continue";
	case json_tokener_error_depth: return "depth";
	case json_tokener_error_parse_eof: return "eof";
	case json_tokener_error_parse_unexpected: return "unexpected";
	case json_tokener_error_parse_null: return "null";
	case json_tokener_error_parse_boolean: return "boolean";
	case json_tokener_error_parse_number: return "number";
	case json_tokener_error_parse_array: return "array";
	case json_tokener_error_parse_object_key_name: return "object_key_name";
	case json_tokener_error_parse_object_key_sep: return "object_key_sep";
	case json_tokener_error_parse_object_value_sep: return "object_value_sep";
	case json_tokener_error_parse_string: return "string";
	case json_tokener_error_parse_comment: return "comment";
	case json_tokener_error_parse_utf8_string: return "utf8";
	case json_tokener_error_size: return "size";
	case json_tokener_error_memory: return "memory";
	default: return "unknown";
	}
}

void run_case(char *rest)
{
	char *sp = strchr(rest, ' ');
	const char *p = rest;
	char *fl, *save = NULL;
	struct json_object *o;
	int err = 0, first = 1;
	long live0;
	xa_reset();
	live0 = xa_live;
	if (!sp) { printf("BADLINE"); return; }
	*sp = 0;
	o = jv_parse(&p, &err);
	if (err || *p) { printf("BADTREE"); json_object_put(o); return; }
	for (fl = strtok_r(sp + 1, ",", &save); fl; fl = strtok_r(NULL, ",", &save)) {
		int flags = atoi(fl);
		size_t len = (size_t)-1, tl;
		const char *text;
		char *copy;
		struct json_tokener *tok;
		struct json_object *r;
		enum json_tokener_error e;
		if (!first) printf(" | ");
		first = 0;
		text = json_object_to_json_string_length(o, flags, &len);
		if (!text) { printf("NULLTEXT %zu", len); continue; }
		tl = strlen(text);
		/* exact-size private copy: the re-parse must not depend on the object's buffer, and
		 * ASan sees any read past the terminator */
		copy = (char *)(malloc)(tl + 1);
		memcpy(copy, text, tl + 1);
		puthex((const unsigned char *)copy, tl);
		printf(" %zu ", len);
		if (flags & JSON_C_TO_STRING_COLOR) {
			/* the property allows colour escapes: remove ESC [ ... m before the re-parse */
			size_t i = 0, j = 0;
			while (i < tl) {
				if (copy[i] == 27 && copy[i + 1] == '[') {
					size_t k = i + 2;
					while (copy[k] == ';' || (copy[k] >= '0' && copy[k] <= '9')) k++;
					if (copy[k] == 'm') { i = k + 1; continue; }
				}
				copy[j++] = copy[i++];
			}
			copy[j] = 0;
		}
		tok = json_tokener_new();
		r = json_tokener_parse_ex(tok, copy, -1);
		e = json_tokener_get_error(tok);
		if (e != json_tokener_success) {
			printf("PARSEFAIL %s", err_name(e));
			if (r) { printf(" VALUE-WITH-ERROR"); json_object_put(r); }
		} else {
			size_t len2 = 0;
			const char *t2;
			printf("%d ", json_object_equal(o, r) ? 1 : 0);
			jv_dump(r);
			putchar(' ');
			t2 = json_object_to_json_string_length(r, flags, &len2);
			if (!t2) printf("NULLTEXT");
			else puthex((const unsigned char *)t2, strlen(t2));
			json_object_put(r);
		}
		json_tokener_free(tok);
		(free)(copy);
	}
	json_object_put(o);
	if (xa_live != live0) printf(" | LEAK %ld", xa_live - live0);
}
