/* drv_eq.c — equality / deep-copy domain (C09).  Same script and observation format as
 * ocaml/drv_eq.ml:
 *   E <a> <b>       equal(a,b) equal(b,a) equal(a,a) equal(b,b)
 *   T <a> <b> <c>   equal over ab bc ac ba cb ca
 *   X <a>           two arrays / two objects holding the SAME node a
 *   C <a> <mut>     deep copy; equal both ways; typed dumps; node counts and the number of
 *                   json_object addresses reachable from both; serializations of source
 *                   and copy under six flag sets (hex, '=' when the copy's is identical);
 *                   the mutation applied to a copy (source must not change), to the source
 *                   (a second copy must not change); destruction of a copy, then of the
 *                   source; live allocations at the end.
 *                   after each mutation the trees are compared again, and the mutated
 *                   source is deep-copied once more (a tree WITH a history as copy source)
 *   H <a> <ha> <b> <hb> [<hg>]  both trees get a history (mutations joined by ';', '-' = none);
 *                   equal both ways and on themselves; deep copy of a'; then the steps hg
 *                   (process-wide settings only); then the copy compared with a', b' and
 *                   a' with b' once more
 *   Y <a> <rules> <tags>  deep copy through a caller-supplied json_c_shallow_copy_fn that
 *                   wraps json_c_shallow_copy_default and answers as scripted:
 *                   rules = '-' | <cond>=<ans>;...  (first match wins, default 1),
 *                   ans = 1 | 2 (carries retained text itself) | T (2 + sets application
 *                   userdata on the copy) | F (-1 before creating the node) | G (-1 after);
 *                   cond = atoms joined by '&': * | t<o|a|s|i|d|b> type | p<o|a|r> parent type |
 *                   d<n> depth = n | D<n> depth >= n | i<n> index in parent array |
 *                   k<hexkey|-> key in parent object | m<k>,<r> call number mod k = r |
 *                   c<n> call number = n.  tags = '-' | cond;... : source nodes (other than
 *                   doubles) that carry application userdata before the copy.
 *                   Prints rc, number of callback calls, whether *dst is NULL, and on success
 *                   equal both ways, dumps, node counts, shared addresses, identical
 *                   serializations (of 6), tags found on the copy; live blocks at the end.
 *   B <a> <conds> [<ud>] <mut>  the source is built with the members selected by conds (cond;...,
 *                   same atoms as above, evaluated on the member's value node) added with
 *                   JSON_C_OBJECT_ADD_CONSTANT_KEY from exact-size heap buffers owned by the
 *                   driver.  Deep copy; key pointers (lh_entry_k) of the copy compared with
 *                   those of the source and with the driver's buffers; the buffers modified in
 *                   place; the source destroyed and the buffers poisoned and freed; after each
 *                   step the copy is dumped, serialized, looked up key by key and compared
 *                   with an independently built tree; finally mut is applied to the copy.
 *                   ud = '-' | <cond>=<D|N>;...: source nodes (any type) given the stock serializer
 *                   json_object_userdata_to_json_string with the text "<u<number>>": D = in a
 *                   strdup released by json_object_free_userdata, N = in an exact-size driver
 *                   buffer with a NULL delete function.  Their userdata pointers are checked
 *                   like the names, the N buffers are rewritten, poisoned and freed with the
 *                   name buffers, and the texts / delete functions of source and copy are
 *                   printed (<number>:<hextext>:<D|N>,...).  live= is relative to the start of
 *                   the case; blocks the library never releases are then released by the driver.
 * mut = <path>:<op>, path = (/i<idx> | /k<hexkey|->)*,
 * op = A<jv> | P<hexkey|->=<jv> | K<hexkey|-> | I<dec> | U<dec> | B<0|1> | S<hex|-> | D<16hex>
 *    | Z<idx>=<jv> (array_put_idx) | X<idx>,<count> (array_del_idx).
 * A step may also be a process-wide setting (no path): @H<0|1> json_global_set_string_hash
 * (default | perl-like), @F<hexformat|-> json_c_set_serialization_double_format(fmt | NULL,
 * JSON_C_OPTION_GLOBAL).  Both are put back to their defaults at the end of every case. */
#include "common.h"
#include "jvtext.h"
const char *DOMAIN = "eq";

/* typed dump; unlike jv_dump it shows the text retained by json_object_new_double_s
 * (whose serializer is a static wrapper inside json_object.c) */
static void eq_dump(struct json_object *o)
{
	if (!o) { putchar('n'); return; }
	switch (json_object_get_type(o)) {
	case json_type_double: {
		double d = json_object_get_double(o); uint64_t bits; memcpy(&bits, &d, 8);
		if (d != d) bits = 0x7ff8000000000000ull;
		printf("d%016llx", (unsigned long long)bits);
		if (o->_userdata) { putchar(':'); puthex((unsigned char *)o->_userdata, strlen((char *)o->_userdata)); }
		break; }
	case json_type_array: {
		size_t i, n = json_object_array_length(o);
		putchar('[');
		for (i = 0; i < n; i++) { if (i) putchar(','); eq_dump(json_object_array_get_idx(o, i)); }
		putchar(']'); break; }
	case json_type_object: {
		struct lh_entry *e; int first = 1;
		putchar('{');
		for (e = json_object_get_object(o)->head; e; e = e->next) {
			if (!first) putchar(',');
			first = 0;
			puthex((const unsigned char *)lh_entry_k(e), strlen((const char *)lh_entry_k(e)));
			putchar('='); eq_dump((struct json_object *)lh_entry_v(e));
		}
		putchar('}'); break; }
	default: jv_dump(o);
	}
}

/* all json_object addresses reachable from a root */
struct aset { struct json_object **v; size_t n, cap; };
static void collect(struct json_object *o, struct aset *s)
{
	if (!o) return;
	if (s->n == s->cap) { s->cap = s->cap ? s->cap * 2 : 64; s->v = (struct json_object **)(realloc)(s->v, s->cap * sizeof(*s->v)); }
	s->v[s->n++] = o;
	if (json_object_get_type(o) == json_type_array) {
		size_t i, n = json_object_array_length(o);
		for (i = 0; i < n; i++) collect(json_object_array_get_idx(o, i), s);
	} else if (json_object_get_type(o) == json_type_object) {
		struct lh_entry *e;
		for (e = json_object_get_object(o)->head; e; e = e->next) collect((struct json_object *)lh_entry_v(e), s);
	}
}
static size_t shared(const struct aset *a, const struct aset *b)
{
	size_t i, j, n = 0;
	for (i = 0; i < a->n; i++)
		for (j = 0; j < b->n; j++)
			if (a->v[i] == b->v[j]) { n++; break; }
	return n;
}

static struct json_object *parse_tree(const char *s)
{
	int err = 0;
	const char *p = s;
	struct json_object *o = jv_parse(&p, &err);
	if (err || *p) printf("BADTREE ");
	return o;
}

/* apply the mutation; 1 = done, 0 = path or type does not fit (nothing changed) */
static long live_base;      /* xa_live when the case started */
static int globals_dirty;
static void reset_globals(void)
{
	if (!globals_dirty) return;
	json_global_set_string_hash(JSON_C_STR_HASH_DFLT);
	json_c_set_serialization_double_format(NULL, JSON_C_OPTION_GLOBAL);
	globals_dirty = 0;
}
static int global_step(const char *m)
{
	globals_dirty = 1;
	if (m[1] == 'H') return json_global_set_string_hash(atoi(m + 2)) == 0;
	if (m[1] == 'F') {
		const char *p = m + 2; size_t n; unsigned char *f; int rc;
		if (*p == '-') return json_c_set_serialization_double_format(NULL, JSON_C_OPTION_GLOBAL) == 0;
		f = jv_hexordash(&p, &n);
		rc = json_c_set_serialization_double_format((char *)f, JSON_C_OPTION_GLOBAL);
		(free)(f);
		return rc == 0;
	}
	return 0;
}

static int mutate(struct json_object *o, const char *m)
{
	const char *p = m;
	if (*m == '@') return global_step(m);
	while (*p == '/') {
		p++;
		if (*p == 'i') {
			char *e; unsigned long idx = strtoul(p + 1, &e, 10); p = e;
			if (!o || !json_object_is_type(o, json_type_array) || idx >= json_object_array_length(o)) return 0;
			o = json_object_array_get_idx(o, idx);
		} else if (*p == 'k') {
			size_t n; unsigned char *k; struct json_object *sub = NULL; int found;
			p++; k = jv_hexordash(&p, &n);
			if (!o || !json_object_is_type(o, json_type_object)) { (free)(k); return 0; }
			found = json_object_object_get_ex(o, (char *)k, &sub);
			(free)(k);
			if (!found) return 0;
			o = sub;
		} else return 0;
	}
	if (*p++ != ':' || !o) return 0;
	switch (*p++) {
	case 'A': {
		int err = 0; struct json_object *v;
		if (!json_object_is_type(o, json_type_array)) return 0;
		v = jv_parse(&p, &err);
		if (json_object_array_add(o, v) != 0) { json_object_put(v); return 0; }
		return 1; }
	case 'P': {
		size_t n; unsigned char *k; int err = 0, rc; struct json_object *v;
		if (!json_object_is_type(o, json_type_object)) return 0;
		k = jv_hexordash(&p, &n);
		if (*p++ != '=') { (free)(k); return 0; }
		v = jv_parse(&p, &err);
		rc = json_object_object_add(o, (char *)k, v);
		(free)(k);
		if (rc != 0) { json_object_put(v); return 0; }
		return 1; }
	case 'K': {
		size_t n; unsigned char *k;
		if (!json_object_is_type(o, json_type_object)) return 0;
		k = jv_hexordash(&p, &n);
		json_object_object_del(o, (char *)k);
		(free)(k);
		return 1; }
	case 'I': return json_object_set_int64(o, (int64_t)strtoll(p, NULL, 10)) == 1;
	case 'U': return json_object_set_uint64(o, (uint64_t)strtoull(p, NULL, 10)) == 1;
	case 'B': return json_object_set_boolean(o, *p == '1') == 1;
	case 'Z': {
		char *e; unsigned long idx = strtoul(p, &e, 10); int err = 0; struct json_object *v;
		if (!json_object_is_type(o, json_type_array) || *e != '=') return 0;
		p = e + 1;
		v = jv_parse(&p, &err);
		if (json_object_array_put_idx(o, idx, v) != 0) { json_object_put(v); return 0; }
		return 1; }
	case 'X': {
		char *e; unsigned long idx = strtoul(p, &e, 10), cnt;
		if (!json_object_is_type(o, json_type_array) || *e != ',') return 0;
		cnt = strtoul(e + 1, NULL, 10);
		return json_object_array_del_idx(o, idx, cnt) == 0; }
	case 'S': {
		size_t n; unsigned char *s = jv_hexordash(&p, &n);
		int rc = json_object_set_string_len(o, (char *)s, (int)n);
		(free)(s);
		return rc == 1; }
	case 'D': {
		char h[17]; uint64_t bits; double d;
		memcpy(h, p, 16); h[16] = 0;
		bits = strtoull(h, NULL, 16); memcpy(&d, &bits, 8);
		return json_object_set_double(o, d) == 1; }
	default: return 0;
	}
}

/* apply a history; prints one 0/1 per step ('-' for the empty history) */
static void run_hist(struct json_object *o, char *h)
{
	char *save = NULL, *m;
	if (!strcmp(h, "-")) { putchar('-'); return; }
	for (m = strtok_r(h, ";", &save); m; m = strtok_r(NULL, ";", &save)) putchar(mutate(o, m) ? '1' : '0');
}

static const int FLAGS[6] = {
	JSON_C_TO_STRING_PLAIN, JSON_C_TO_STRING_SPACED, JSON_C_TO_STRING_PRETTY,
	JSON_C_TO_STRING_PRETTY | JSON_C_TO_STRING_PRETTY_TAB, JSON_C_TO_STRING_NOZERO,
	JSON_C_TO_STRING_NOSLASHESCAPE };

static void run_copy(char *sa, char *mut)
{
	struct json_object *a = parse_tree(sa), *c1 = NULL, *c2 = NULL;
	struct aset sa_set = {0}, sc_set = {0};
	int rc, i, ok;
	errno = 0;
	rc = json_object_deep_copy(a, &c1, NULL);
	if (rc < 0) {
		printf("C %d %s | ", rc, errno_name(errno));
		json_object_put(c1);
		json_object_put(a);
		reset_globals(); printf("live=%ld", xa_live - live_base);
		return;
	}
	printf("C %d %d %d ", rc, json_object_equal(a, c1), json_object_equal(c1, a));
	eq_dump(a); putchar(' '); eq_dump(c1);
	collect(a, &sa_set); collect(c1, &sc_set);
	printf(" %zu %zu %zu S", sa_set.n, sc_set.n, shared(&sa_set, &sc_set));
	(free)(sa_set.v); (free)(sc_set.v);
	for (i = 0; i < 6; i++) {
		size_t la = 0, lc = 0;
		const char *ta = json_object_to_json_string_length(a, FLAGS[i], &la);
		const char *tc = json_object_to_json_string_length(c1, FLAGS[i], &lc);
		putchar(' ');
		if (!ta) printf("NULL"); else puthex((const unsigned char *)ta, la);
		putchar(' ');
		if (ta && tc && la == lc && memcmp(ta, tc, la) == 0) putchar('=');
		else if (!tc) printf("NULL");
		else puthex((const unsigned char *)tc, lc);
	}
	/* mutate the copy: the source must stay */
	ok = mutate(c1, mut);
	printf(" | M1 %s ", ok ? "ok" : "bad"); eq_dump(a); putchar(' '); eq_dump(c1);
	printf(" %d %d", json_object_equal(a, c1), json_object_equal(c1, a));
	/* mutate the source: a second copy must stay */
	if (json_object_deep_copy(a, &c2, NULL) < 0) printf(" | COPY2FAILED");
	ok = mutate(a, mut);
	printf(" | M2 %s ", ok ? "ok" : "bad"); eq_dump(a); putchar(' '); eq_dump(c2);
	printf(" %d %d %d", json_object_equal(a, c1), json_object_equal(c1, a), json_object_equal(a, c2));
	/* the mutated source as a copy source */
	{
		struct json_object *c3 = NULL;
		errno = 0;
		rc = json_object_deep_copy(a, &c3, NULL);
		printf(" | K %d %d %d ", rc, json_object_equal(a, c3), json_object_equal(c3, a)); eq_dump(c3);
		json_object_put(c3);
	}
	/* destroy one copy, then the source: the survivors must stay */
	printf(" | D1 %d ", json_object_put(c1)); eq_dump(a);
	printf(" | D2 %d ", json_object_put(a)); eq_dump(c2);
	json_object_put(c2);
	reset_globals(); printf(" | live=%ld", xa_live - live_base);
}

/* ---- scripted shallow-copy callback ---- */
static char APP_TAG[] = "application tag";
static struct {
	const char *rules;
	long calls;
	struct { struct json_object *node; int depth; } tab[4096];
	size_t ntab;
} cbs;

static char type_char(struct json_object *o)
{
	switch (json_object_get_type(o)) {
	case json_type_object: return 'o';
	case json_type_array: return 'a';
	case json_type_string: return 's';
	case json_type_int: return 'i';
	case json_type_double: return 'd';
	case json_type_boolean: return 'b';
	default: return 'n';
	}
}

struct node_ctx { char type, ptype; int depth; long idx; const char *key; long callno; };

static int atom_match(const char *a, size_t len, const struct node_ctx *c)
{
	char buf[600];
	if (len == 0 || len >= sizeof(buf)) return 0;
	memcpy(buf, a, len); buf[len] = 0;
	switch (buf[0]) {
	case '*': return 1;
	case 't': return buf[1] == c->type;
	case 'p': return buf[1] == c->ptype;
	case 'd': return c->depth == atoi(buf + 1);
	case 'D': return c->depth >= atoi(buf + 1);
	case 'i': return c->idx >= 0 && c->idx == atol(buf + 1);
	case 'k': {
		const char *p = buf + 1; size_t n; unsigned char *k; int r;
		if (!c->key) return 0;
		k = jv_hexordash(&p, &n);
		r = strcmp((char *)k, c->key) == 0;
		(free)(k);
		return r; }
	case 'm': { long k = atol(buf + 1); char *comma = strchr(buf, ','); return k > 0 && comma && c->callno % k == atol(comma + 1); }
	case 'c': return c->callno == atol(buf + 1);
	default: return 0;
	}
}
static int cond_match(const char *cond, size_t len, const struct node_ctx *c)
{
	size_t i = 0;
	while (i <= len) {
		size_t j = i;
		while (j < len && cond[j] != '&') j++;
		if (!atom_match(cond + i, j - i, c)) return 0;
		i = j + 1;
	}
	return 1;
}
/* rules: first matching cond decides; no match: '1'.  With want_ans = 0 the list is a plain
 * list of conds and the result is 'y' / 'n'. */
static char eval_rules(const char *rules, int want_ans, const struct node_ctx *c)
{
	const char *p = rules;
	if (!strcmp(rules, "-")) return want_ans ? '1' : 'n';
	while (*p) {
		const char *e = strchr(p, ';');
		size_t len = e ? (size_t)(e - p) : strlen(p);
		if (want_ans) {
			if (len >= 2 && p[len - 2] == '=' && cond_match(p, len - 2, c)) return p[len - 1];
		} else if (cond_match(p, len, c)) return 'y';
		p += len + (e ? 1 : 0);
	}
	return want_ans ? '1' : 'n';
}

static int depth_of(struct json_object *o)
{
	size_t i;
	for (i = 0; i < cbs.ntab; i++) if (cbs.tab[i].node == o) return cbs.tab[i].depth;
	return -1000;
}

static int scripted_copy(struct json_object *src, struct json_object *parent, const char *key, size_t index,
                         struct json_object **dst)
{
	struct node_ctx c;
	char ans;
	int rc;
	c.callno = cbs.calls++;
	c.type = type_char(src);
	c.ptype = parent ? type_char(parent) : 'r';
	c.depth = parent ? depth_of(parent) + 1 : 0;
	c.idx = (parent && c.ptype == 'a') ? (long)index : -1;
	c.key = (parent && c.ptype == 'o') ? key : NULL;
	if (cbs.ntab < 4096) { cbs.tab[cbs.ntab].node = src; cbs.tab[cbs.ntab].depth = c.depth; cbs.ntab++; }
	ans = eval_rules(cbs.rules, 1, &c);
	if (ans == 'F') return -1;
	rc = json_c_shallow_copy_default(src, parent, key, index, dst);
	if (rc < 0) return rc;
	if (ans == 'G') return -1;                 /* the node stays in *dst: the library releases it */
	if (ans != '2' && ans != 'T') return 1;
	/* "2": this callback takes care of serializer / userdata itself */
	if (c.type == 'd') {
		if (src->_userdata)
			json_object_set_serializer(*dst, (*dst)->_to_json_string, strdup((char *)src->_userdata), json_object_free_userdata);
		return 2;
	}
	if (ans == 'T') json_object_set_userdata(*dst, APP_TAG, NULL);
	return 2;
}

/* pre-order walk of the source: tag the nodes selected by the conds (same numbering as the calls) */
static void tag_walk(struct json_object *o, const char *tags, char ptype, int depth, long idx, const char *key, long *counter)
{
	struct node_ctx c;
	if (!o) return;
	c.callno = (*counter)++; c.type = type_char(o); c.ptype = ptype; c.depth = depth; c.idx = idx; c.key = key;
	if (c.type != 'd' && eval_rules(tags, 0, &c) == 'y') json_object_set_userdata(o, APP_TAG, NULL);
	if (c.type == 'a') {
		size_t i, n = json_object_array_length(o);
		for (i = 0; i < n; i++) tag_walk(json_object_array_get_idx(o, i), tags, 'a', depth + 1, (long)i, NULL, counter);
	} else if (c.type == 'o') {
		struct lh_entry *e;
		for (e = json_object_get_object(o)->head; e; e = e->next)
			tag_walk((struct json_object *)lh_entry_v(e), tags, 'o', depth + 1, -1, (const char *)lh_entry_k(e), counter);
	}
}
static size_t count_tags(struct json_object *o)
{
	size_t n = 0;
	if (!o) return 0;
	if (json_object_get_type(o) != json_type_double && o->_userdata == (void *)APP_TAG) n++;
	if (json_object_get_type(o) == json_type_array) {
		size_t i, len = json_object_array_length(o);
		for (i = 0; i < len; i++) n += count_tags(json_object_array_get_idx(o, i));
	} else if (json_object_get_type(o) == json_type_object) {
		struct lh_entry *e;
		for (e = json_object_get_object(o)->head; e; e = e->next) n += count_tags((struct json_object *)lh_entry_v(e));
	}
	return n;
}

static void run_cb_copy(char *sa, const char *rules, const char *tags)
{
	struct json_object *a = parse_tree(sa), *c = NULL;
	long counter = 0;
	int rc;
	tag_walk(a, tags, 'r', 0, -1, NULL, &counter);
	cbs.rules = rules; cbs.calls = 0; cbs.ntab = 0;
	errno = 0;
	rc = json_object_deep_copy(a, &c, scripted_copy);
	printf("Y %d %ld %d ", rc, cbs.calls, c == NULL);
	if (rc < 0) {
		eq_dump(a);
		json_object_put(c);
	} else {
		struct aset sa_set = {0}, sc_set = {0};
		int i, same = 0;
		printf("%d %d ", json_object_equal(a, c), json_object_equal(c, a));
		eq_dump(a); putchar(' '); eq_dump(c);
		collect(a, &sa_set); collect(c, &sc_set);
		printf(" %zu %zu %zu", sa_set.n, sc_set.n, shared(&sa_set, &sc_set));
		(free)(sa_set.v); (free)(sc_set.v);
		for (i = 0; i < 6; i++) {
			size_t la = 0, lc = 0;
			const char *ta = json_object_to_json_string_length(a, FLAGS[i], &la);
			const char *tc = json_object_to_json_string_length(c, FLAGS[i], &lc);
			if (ta && tc && la == lc && memcmp(ta, tc, la) == 0) same++;
		}
		printf(" %d %zu", same, count_tags(c));
		json_object_put(c);
	}
	json_object_put(a);
	reset_globals(); printf(" | live=%ld", xa_live - live_base);
}

/* ---- members whose names live in driver-owned memory ---- */
static struct { char *p; size_t len; } kb[8192];
static size_t nkb;

static struct json_object *build_ck(const char **p, int depth, long *counter, const char *conds, int *err)
{
	char c = **p;
	if (c == 'n') { (*p)++; return NULL; }
	(*counter)++;
	if (c == '[') {
		struct json_object *a = json_object_new_array();
		(*p)++;
		if (**p == ']') { (*p)++; return a; }
		for (;;) {
			struct json_object *v = build_ck(p, depth + 1, counter, conds, err);
			if (json_object_array_add(a, v) != 0) { *err = 1; json_object_put(v); }
			if (**p == ',') { (*p)++; continue; }
			if (**p == ']') { (*p)++; return a; }
			*err = 2; return a;
		}
	}
	if (c == '{') {
		struct json_object *o = json_object_new_object();
		(*p)++;
		if (**p == '}') { (*p)++; return o; }
		for (;;) {
			size_t n; unsigned char *k = jv_hexordash(p, &n);
			struct json_object *v;
			struct node_ctx ctx;
			if (**p != '=') { *err = 2; (free)(k); return o; }
			(*p)++;
			ctx.callno = (**p == 'n') ? -1 : *counter;
			v = build_ck(p, depth + 1, counter, conds, err);
			ctx.type = type_char(v); ctx.ptype = 'o'; ctx.depth = depth + 1; ctx.idx = -1; ctx.key = (const char *)k;
			if (nkb < 8192 && eval_rules(conds, 0, &ctx) == 'y') {
				char *buf = (char *)(malloc)(n + 1);          /* exact size: ASan sees any later use */
				memcpy(buf, k, n + 1);
				kb[nkb].p = buf; kb[nkb].len = n; nkb++;
				if (json_object_object_add_ex(o, buf, v, JSON_C_OBJECT_ADD_CONSTANT_KEY) != 0) { *err = 1; json_object_put(v); }
			} else if (json_object_object_add(o, (char *)k, v) != 0) { *err = 1; json_object_put(v); }
			(free)(k);
			if (**p == ',') { (*p)++; continue; }
			if (**p == '}') { (*p)++; return o; }
			*err = 2; return o;
		}
	}
	return jv_parse(p, err);
}

struct kset { const void **v; unsigned char *is_const; size_t n, cap; };
static void collect_keys(struct json_object *o, struct kset *s)
{
	if (!o) return;
	if (json_object_get_type(o) == json_type_array) {
		size_t i, n = json_object_array_length(o);
		for (i = 0; i < n; i++) collect_keys(json_object_array_get_idx(o, i), s);
	} else if (json_object_get_type(o) == json_type_object) {
		struct lh_entry *e;
		for (e = json_object_get_object(o)->head; e; e = e->next) {
			if (s->n == s->cap) {
				s->cap = s->cap ? s->cap * 2 : 64;
				s->v = (const void **)(realloc)(s->v, s->cap * sizeof(*s->v));
				s->is_const = (unsigned char *)(realloc)(s->is_const, s->cap);
			}
			s->v[s->n] = lh_entry_k(e); s->is_const[s->n] = lh_entry_k_is_constant(e) ? 1 : 0; s->n++;
			collect_keys((struct json_object *)lh_entry_v(e), s);
		}
	}
}

/* every member of ref looked up by name in the corresponding object of o */
static void lookup_walk(struct json_object *ref, struct json_object *o, long *found, long *total)
{
	if (!ref || !o) return;
	if (json_object_get_type(ref) == json_type_array && json_object_get_type(o) == json_type_array) {
		size_t i, n = json_object_array_length(ref);
		for (i = 0; i < n && i < json_object_array_length(o); i++)
			lookup_walk(json_object_array_get_idx(ref, i), json_object_array_get_idx(o, i), found, total);
	} else if (json_object_get_type(ref) == json_type_object && json_object_get_type(o) == json_type_object) {
		struct lh_entry *e;
		for (e = json_object_get_object(ref)->head; e; e = e->next) {
			struct json_object *sub = NULL;
			(*total)++;
			if (json_object_object_get_ex(o, (const char *)lh_entry_k(e), &sub)) {
				(*found)++;
				lookup_walk((struct json_object *)lh_entry_v(e), sub, found, total);
			}
		}
	}
}

static void ud_dump(struct json_object *o);
/* dump, lookups, comparison with the reference tree, serialization against the saved texts, userdata */
static void observe_copy(struct json_object *c, struct json_object *ref, char *const saved[2], const size_t savedlen[2])
{
	long found = 0, total = 0;
	int i, same = 0;
	eq_dump(c);
	lookup_walk(ref, c, &found, &total);
	printf(" %ld/%ld %d %d", found, total, json_object_equal(c, ref), json_object_equal(ref, c));
	for (i = 0; i < 2; i++) {
		size_t l = 0;
		const char *t = json_object_to_json_string_length(c, FLAGS[i + 1], &l);
		if (t && l == savedlen[i] && memcmp(t, saved[i], l) == 0) same++;
	}
	printf(" %d ", same);
	ud_dump(c);
}

/* ---- nodes with the stock userdata serializer ---- */
static struct { char *p; size_t len; } ub[8192];
static size_t nub;

static void ud_walk(struct json_object *o, const char *rules, char ptype, int depth, long idx, const char *key, long *counter)
{
	struct node_ctx c;
	char ans, text[40];
	if (!o) return;
	c.callno = (*counter)++; c.type = type_char(o); c.ptype = ptype; c.depth = depth; c.idx = idx; c.key = key;
	ans = eval_rules(rules, 1, &c);
	snprintf(text, sizeof text, "<u%ld>", c.callno);
	if (ans == 'D')
		json_object_set_serializer(o, json_object_userdata_to_json_string, strdup(text), json_object_free_userdata);
	else if (ans == 'N' && nub < 8192) {
		size_t n = strlen(text);
		char *buf = (char *)(malloc)(n + 1);              /* exact size */
		memcpy(buf, text, n + 1);
		ub[nub].p = buf; ub[nub].len = n; nub++;
		json_object_set_serializer(o, json_object_userdata_to_json_string, buf, NULL);
	}
	if (c.type == 'a') {
		size_t i, n = json_object_array_length(o);
		for (i = 0; i < n; i++) ud_walk(json_object_array_get_idx(o, i), rules, 'a', depth + 1, (long)i, NULL, counter);
	} else if (c.type == 'o') {
		struct lh_entry *e;
		for (e = json_object_get_object(o)->head; e; e = e->next)
			ud_walk((struct json_object *)lh_entry_v(e), rules, 'o', depth + 1, -1, (const char *)lh_entry_k(e), counter);
	}
}

/* nodes using the stock serializer, in pre-order: <number>:<hextext>:<D|N> */
struct uset { const void **v; unsigned char *nodel; size_t n, cap; };
static void ud_scan(struct json_object *o, long *counter, int *first, int print, struct uset *s)
{
	long my;
	if (!o) return;
	my = (*counter)++;
	if (o->_to_json_string == json_object_userdata_to_json_string && o->_userdata) {
		if (print) {
			if (!*first) putchar(',');
			*first = 0;
			printf("%ld:", my); puthex((unsigned char *)o->_userdata, strlen((char *)o->_userdata));
			printf(":%c", o->_user_delete ? 'D' : 'N');
		}
		if (s) {
			if (s->n == s->cap) {
				s->cap = s->cap ? s->cap * 2 : 64;
				s->v = (const void **)(realloc)(s->v, s->cap * sizeof(*s->v));
				s->nodel = (unsigned char *)(realloc)(s->nodel, s->cap);
			}
			s->v[s->n] = o->_userdata; s->nodel[s->n] = o->_user_delete ? 0 : 1; s->n++;
		}
	}
	if (json_object_get_type(o) == json_type_array) {
		size_t i, n = json_object_array_length(o);
		for (i = 0; i < n; i++) ud_scan(json_object_array_get_idx(o, i), counter, first, print, s);
	} else if (json_object_get_type(o) == json_type_object) {
		struct lh_entry *e;
		for (e = json_object_get_object(o)->head; e; e = e->next) ud_scan((struct json_object *)lh_entry_v(e), counter, first, print, s);
	}
}
static void ud_dump(struct json_object *o)
{
	long counter = 0; int first = 1;
	ud_scan(o, &counter, &first, 1, NULL);
	if (first) putchar('-');
}

static void run_keys(char *sa, const char *conds, const char *udrules, const char *mut)
{
	const char *p = sa;
	long counter = 0;
	int err = 0, rc, i;
	struct json_object *src, *ref, *c = NULL;
	struct kset ks = {0}, kc = {0};
	struct uset us = {0}, uc = {0};
	size_t j, q, nconst_src = 0, kshared = 0, kinbuf = 0, kconst = 0, ushared = 0, uinbuf = 0;
	char *saved[2] = {0}; size_t savedlen[2] = {0};
	nkb = 0; nub = 0;
	src = build_ck(&p, 0, &counter, conds, &err);
	if (err || *p) printf("BADTREE ");
	counter = 0;
	ud_walk(src, udrules, 'r', 0, -1, NULL, &counter);
	ref = parse_tree(sa);                       /* the same value, built with ordinary members */
	errno = 0;
	rc = json_object_deep_copy(src, &c, NULL);
	if (rc < 0) {
		printf("B %d %s", rc, errno_name(errno));
		json_object_put(c); json_object_put(src); json_object_put(ref);
		for (j = 0; j < nkb; j++) (free)(kb[j].p);
		for (j = 0; j < nub; j++) (free)(ub[j].p);
		reset_globals(); printf(" | live=%ld", xa_live - live_base);
		return;
	}
	printf("B %d %d %d ", rc, json_object_equal(src, c), json_object_equal(c, src));
	eq_dump(src); putchar(' '); eq_dump(c);
	collect_keys(src, &ks); collect_keys(c, &kc);
	for (j = 0; j < ks.n; j++) nconst_src += ks.is_const[j];
	for (j = 0; j < kc.n; j++) {
		kconst += kc.is_const[j];
		for (q = 0; q < ks.n; q++) if (kc.v[j] == ks.v[q]) { kshared++; break; }
		for (q = 0; q < nkb; q++)
			if ((const char *)kc.v[j] >= kb[q].p && (const char *)kc.v[j] <= kb[q].p + kb[q].len) { kinbuf++; break; }
	}
	printf(" %zu %zu %zu %zu %zu ", nkb, nconst_src, kshared, kinbuf, kconst);
	(free)(ks.v); (free)(ks.is_const); (free)(kc.v); (free)(kc.is_const);
	/* userdata of the stock serializer: texts, and where the copy keeps them */
	ud_dump(src); putchar(' '); ud_dump(c);
	{ long k = 0; int f = 1; ud_scan(src, &k, &f, 0, &us); k = 0; f = 1; ud_scan(c, &k, &f, 0, &uc); }
	for (j = 0; j < uc.n; j++) {
		for (q = 0; q < us.n; q++) if (uc.v[j] == us.v[q]) { ushared++; break; }
		for (q = 0; q < nub; q++)
			if ((const char *)uc.v[j] >= ub[q].p && (const char *)uc.v[j] <= ub[q].p + ub[q].len) { uinbuf++; break; }
	}
	printf(" %zu %zu %zu", nub, ushared, uinbuf);
	(free)(us.v); (free)(us.nodel);
	if ((kshared || kinbuf || kconst || ushared || uinbuf) && !getenv("EQ_KEYS_GO_ON")) {
		/* the copy does not own what it stores: going on would only read freed memory
		 * (EQ_KEYS_GO_ON=1 goes on nevertheless: used to validate the later steps) */
		printf(" | SHARED");
		json_object_put(c); json_object_put(src); json_object_put(ref);
		for (j = 0; j < nkb; j++) (free)(kb[j].p);
		for (j = 0; j < nub; j++) (free)(ub[j].p);
		for (j = 0; j < uc.n; j++) if (uc.nodel[j]) { int mine = 1; for (q = 0; q < nub; q++) if (uc.v[j] == (void *)ub[q].p) mine = 0; if (mine) json_object_free_userdata(NULL, (void *)uc.v[j]); }
		(free)(uc.v); (free)(uc.nodel);
		reset_globals(); printf(" | live=%ld", xa_live - live_base);
		return;
	}
	for (i = 0; i < 2; i++) {
		size_t l = 0;
		const char *t = json_object_to_json_string_length(c, FLAGS[i + 1], &l);
		saved[i] = (char *)(malloc)(l + 1); memcpy(saved[i], t, l); savedlen[i] = l;
	}
	/* the caller modifies its buffers in place (the source's names and texts change with them) */
	for (j = 0; j < nkb; j++) if (kb[j].len) kb[j].p[0] = kb[j].p[0] == 'Z' ? 'Y' : 'Z';
	for (j = 0; j < nub; j++) if (ub[j].len) ub[j].p[0] = ub[j].p[0] == 'Z' ? 'Y' : 'Z';
	printf(" | I "); eq_dump(src); putchar(' '); ud_dump(src); putchar(' ');
	observe_copy(c, ref, saved, savedlen);
	/* the source goes away, and with it the caller's obligation to keep the buffers */
	printf(" | F %d ", json_object_put(src));
	for (j = 0; j < nkb; j++) { memset(kb[j].p, 0xAA, kb[j].len + 1); (free)(kb[j].p); }
	for (j = 0; j < nub; j++) { memset(ub[j].p, 0xAA, ub[j].len + 1); (free)(ub[j].p); }
	observe_copy(c, ref, saved, savedlen);
	i = mutate(c, mut);
	printf(" | P %s ", i ? "ok" : "bad"); eq_dump(c);
	json_object_put(c); json_object_put(ref);
	(free)(saved[0]); (free)(saved[1]);
	reset_globals(); printf(" | live=%ld", xa_live - live_base);
	/* texts the library duplicated for nodes without a delete function are released by nobody:
	 * the driver does it, after having reported them */
	for (j = 0; j < uc.n; j++) if (uc.nodel[j]) json_object_free_userdata(NULL, (void *)uc.v[j]);
	(free)(uc.v); (free)(uc.nodel);
}

void run_case(char *rest)
{
	char *tok[7] = {0}, *save = NULL, *t;
	int n = 0;
	for (t = strtok_r(rest, " ", &save); t && n < 7; t = strtok_r(NULL, " ", &save)) tok[n++] = t;
	xa_reset();
	live_base = xa_live;
	if (n == 3 && !strcmp(tok[0], "E")) {
		struct json_object *a = parse_tree(tok[1]), *b = parse_tree(tok[2]);
		printf("E %d %d %d %d", json_object_equal(a, b), json_object_equal(b, a), json_object_equal(a, a), json_object_equal(b, b));
		json_object_put(a); json_object_put(b);
		reset_globals(); printf(" live=%ld", xa_live - live_base);
	} else if (n == 4 && !strcmp(tok[0], "T")) {
		struct json_object *a = parse_tree(tok[1]), *b = parse_tree(tok[2]), *c = parse_tree(tok[3]);
		printf("T %d %d %d %d %d %d", json_object_equal(a, b), json_object_equal(b, c), json_object_equal(a, c),
		       json_object_equal(b, a), json_object_equal(c, b), json_object_equal(c, a));
		json_object_put(a); json_object_put(b); json_object_put(c);
		reset_globals(); printf(" live=%ld", xa_live - live_base);
	} else if (n == 2 && !strcmp(tok[0], "X")) {
		struct json_object *a = parse_tree(tok[1]);
		struct json_object *w1 = json_object_new_array(), *w2 = json_object_new_array();
		struct json_object *o1 = json_object_new_object(), *o2 = json_object_new_object();
		json_object_array_add(w1, a);                       /* takes the reference */
		json_object_array_add(w2, json_object_get(a));
		json_object_object_add(o1, "k", json_object_get(a));
		json_object_object_add(o2, "k", json_object_get(a));
		printf("X %d %d", json_object_equal(w1, w2), json_object_equal(o1, o2));
		json_object_put(w1); json_object_put(w2); json_object_put(o1); json_object_put(o2);
		reset_globals(); printf(" live=%ld", xa_live - live_base);
	} else if ((n == 5 || n == 6) && !strcmp(tok[0], "H")) {
		char none[] = "-";
		char *hg = n == 6 ? tok[5] : none;
		struct json_object *a = parse_tree(tok[1]), *b = parse_tree(tok[3]), *c = NULL;
		int rc;
		printf("H ");
		run_hist(a, tok[2]); putchar(' '); run_hist(b, tok[4]); putchar(' ');
		eq_dump(a); putchar(' '); eq_dump(b);
		printf(" %d %d %d %d", json_object_equal(a, b), json_object_equal(b, a), json_object_equal(a, a), json_object_equal(b, b));
		errno = 0;
		rc = json_object_deep_copy(a, &c, NULL);
		if (rc < 0) { printf(" | K %d %s ", rc, errno_name(errno)); run_hist(NULL, hg); printf(" %d", json_object_equal(a, b)); }
		else {
			struct aset sa_set = {0}, sc_set = {0};
			int i, same = 0;
			printf(" | K %d %d %d ", rc, json_object_equal(a, c), json_object_equal(c, a)); eq_dump(c);
			collect(a, &sa_set); collect(c, &sc_set);
			printf(" %zu", shared(&sa_set, &sc_set));
			(free)(sa_set.v); (free)(sc_set.v);
			putchar(' '); run_hist(NULL, hg);    /* settings changed between copying and comparing */
			printf(" %d %d %d", json_object_equal(a, c), json_object_equal(c, a), json_object_equal(a, b));
			for (i = 0; i < 6; i++) {
				size_t la = 0, lc = 0;
				const char *ta = json_object_to_json_string_length(a, FLAGS[i], &la);
				const char *tc = json_object_to_json_string_length(c, FLAGS[i], &lc);
				if (ta && tc && la == lc && memcmp(ta, tc, la) == 0) same++;
			}
			printf(" %d %d %d", same, json_object_equal(c, b), json_object_equal(b, c));
		}
		json_object_put(a); json_object_put(b); json_object_put(c);
		reset_globals(); printf(" | live=%ld", xa_live - live_base);
	} else if (n == 4 && !strcmp(tok[0], "B")) {
		run_keys(tok[1], tok[2], "-", tok[3]);
	} else if (n == 5 && !strcmp(tok[0], "B")) {
		run_keys(tok[1], tok[2], tok[3], tok[4]);
	} else if (n == 4 && !strcmp(tok[0], "Y")) {
		run_cb_copy(tok[1], tok[2], tok[3]);
	} else if (n == 3 && !strcmp(tok[0], "C")) {
		run_copy(tok[1], tok[2]);
	} else
		printf("BADLINE");
}
