/* drv_lh_ansi.c — the part of the C06 driver that is an application compiled as strict
 * ISO C.  json_object.h defines json_object_object_foreach twice: a GNU
 * statement-expression form (seen by drv_lh.c, the library and its tests under gcc's
 * default gnu dialect) and a portable ANSI-C/MSVC form, chosen by
 *     defined(__GNUC__) && !defined(__STRICT_ANSI__) && __STDC_VERSION__ >= 199901L.
 * The framework compiles all harness sources with one set of flags, so this file
 * declares itself strict (what -std=c99/-std=c11 would do) before any header is read and
 * therefore sees the portable definition.  Only ISO C constructs below.
 * Both loops go through callbacks so that drv_lh.c keeps the canonical printing. */
#ifndef __STRICT_ANSI__
#define __STRICT_ANSI__ 1
#endif
#include <stddef.h>
#include "json.h"

/* plain iteration: item(arg, key, val) for every member, at most `max` of them */
int lh_ansi_foreach(struct json_object *obj, void (*item)(void *, const char *, struct json_object *),
                    void *arg, int max)
{
	int n = 0;
	json_object_object_foreach(obj, key, val)
	{
		if (++n > max)
			return -1;
		item(arg, key, val);
	}
	return n;
}

/* iteration that deletes the current key whenever visit(arg, key, val) returns non-zero */
int lh_ansi_foreach_del(struct json_object *obj, int (*visit)(void *, const char *, struct json_object *),
                        void *arg, int max)
{
	int n = 0;
	json_object_object_foreach(obj, key, val)
	{
		if (++n > max)
			return -1;
		if (visit(arg, key, val))
			json_object_object_del(obj, key);
	}
	return n;
}

/* the same two loops through the ANSI-safe iterator macro, for completeness of the set of
 * public iteration macros as a strict-C application sees them */
int lh_ansi_foreachC(struct json_object *obj, void (*item)(void *, const char *, struct json_object *),
                     void *arg, int max)
{
	struct json_object_iter it;
	int n = 0;
	json_object_object_foreachC(obj, it)
	{
		if (++n > max)
			return -1;
		item(arg, it.key, it.val);
	}
	return n;
}
