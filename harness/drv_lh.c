/* drv_lh.c — linkhash / object domain (C06).  Same script and observation format as
 * ocaml/drv_lh.ml.
 *   mode A: lh_table_* driven directly, integer keys, hash values from the script line
 *   mode B: json_object_object_* through the public API, string keys, lh_char_hash /
 *           perl-like hash (json_global_set_string_hash) or scripted hash values; the
 *           selection may change while objects are alive (op h), two objects coexist (op o)
 * After every step: lookup of every key of the universe, length, table size, and the
 * iteration by every mechanism (mode B prints one list when all mechanisms agree and
 * ITERDIFF/... otherwise), including both definitions of json_object_object_foreach
 * (GNU form here, portable form in drv_lh_ansi.c); delete-current-while-iterating exists
 * for both as well (ops x and y).  In mode B every key handed to the library is a copy of
 * the key text at a scripted byte offset 0..7 (suffix @off; lookups rotate through all offsets);
 * line H checks that the string hash itself does not depend on the key's address. */
#include "common.h"
#include <unistd.h>
#include "json.h"
#include "json_object_iterator.h"
#include "json_visit.h"
#include "linkhash.h"
#include "json_object_private.h"   /* observation only: _ref_count */
#include <sys/wait.h>

/* ---- the seed source of lh_char_hash as an oracle (case kind S) ----
 * lh_char_hash latches its seed once per process, drawing from json_c_get_random_seed()
 * until the answer is not the "unset" sentinel -1.  The library's function is compiled into
 * this unit under another name; the public name first hands out a scripted sequence of draws
 * and then falls back to the real source.  Because of the latch an S case must be the first
 * use of the hash in its process: the driver re-executes itself for each S case. */
// EXCLUDE: random_seed.c
#define json_c_get_random_seed real_json_c_get_random_seed
#include "random_seed.c"
#undef json_c_get_random_seed
static int draws[32];
static int n_draws, next_draw;
int json_c_get_random_seed(void)
{
	if (next_draw < n_draws) return draws[next_draw++];
	return real_json_c_get_random_seed();
}
const char *DOMAIN = "lh";
// WITH: drv_lh_ansi.c
/* loops compiled as a strict ISO C application: the portable definition of
 * json_object_object_foreach (this file sees the GNU statement-expression one) */
int lh_ansi_foreach(struct json_object *obj, void (*item)(void *, const char *, struct json_object *), void *arg, int max);
int lh_ansi_foreach_del(struct json_object *obj, int (*visit)(void *, const char *, struct json_object *), void *arg, int max);
int lh_ansi_foreachC(struct json_object *obj, void (*item)(void *, const char *, struct json_object *), void *arg, int max);

#define MAXK 4096
static unsigned long hashtab[MAXK];
static int keyids[MAXK];
static char *keystr[MAXK];
static int nkeys;
static int inset[MAXK];

/* ---- small string builder (plain allocator) ---- */
struct sb { char *p; size_t n, cap; };
static void sb_put(struct sb *b, const char *s)
{
	size_t l = strlen(s);
	if (b->n + l + 1 > b->cap) {
		b->cap = (b->cap + l + 1) * 2;
		b->p = (char *)(realloc)(b->p, b->cap);
	}
	memcpy(b->p + b->n, s, l + 1);
	b->n += l;
}
static void sb_item(struct sb *b, const char *s)
{
	if (b->n) sb_put(b, ",");
	sb_put(b, s);
}
static const char *sb_str(struct sb *b) { return b->n ? b->p : "-"; }
static void sb_free(struct sb *b) { (free)(b->p); b->p = NULL; b->n = b->cap = 0; }

static void parse_set(const char *s)
{
	memset(inset, 0, sizeof(int) * (size_t)(nkeys > 0 ? nkeys : 1));
	if (s[0] == '-' || !s[0]) return;
	while (*s) {
		long k = strtol(s, (char **)&s, 10);
		if (k >= 0 && k < nkeys) inset[k] = 1;
		if (*s == ',') s++;
	}
}

/* ================= mode A ================= */
static unsigned long a_hash(const void *k) { return hashtab[*(const int *)k]; }
static int a_equal(const void *a, const void *b) { return *(const int *)a == *(const int *)b; }

static void obs_a(struct lh_table *t, const char *ret)
{
	struct sb g = {0}, f = {0}, b = {0};
	struct lh_entry *e;
	char tmp[96];
	int i, guard;
	for (i = 0; i < nkeys; i++) {
		void *v = NULL;
		if (lh_table_lookup_ex(t, &keyids[i], &v)) snprintf(tmp, sizeof tmp, "%ld", (long)(intptr_t)v);
		else strcpy(tmp, "-");
		sb_item(&g, tmp);
	}
	guard = 0;
	lh_foreach(t, e)
	{
		if (++guard > 4 * t->size + 8) { sb_item(&f, "LOOP"); break; }
		if (e->k == LH_EMPTY || e->k == LH_FREED) { sb_item(&f, "dead"); continue; }
		snprintf(tmp, sizeof tmp, "%d:%ld:%d", *(const int *)lh_entry_k(e), (long)(intptr_t)lh_entry_v(e),
		         lh_entry_k_is_constant(e) ? 1 : 0);
		sb_item(&f, tmp);
	}
	guard = 0;
	for (e = t->tail; e; e = lh_entry_prev(e)) {
		if (++guard > 4 * t->size + 8) { sb_item(&b, "LOOP"); break; }
		if (e->k == LH_EMPTY || e->k == LH_FREED) { sb_item(&b, "dead"); continue; }
		snprintf(tmp, sizeof tmp, "%d", *(const int *)lh_entry_k(e));
		sb_item(&b, tmp);
	}
	printf("%s %d %d %s %s %s", ret, lh_table_length(t), t->size, sb_str(&g), sb_str(&f), sb_str(&b));
	sb_free(&g); sb_free(&f); sb_free(&b);
}

static void mode_a(char *rest)
{
	char *f[4], *tok, *save = NULL, *p;
	struct lh_table *t;
	int i, size;
	size_t limit;
	for (i = 0; i < 3; i++) {
		f[i] = rest;
		rest = strchr(rest, ' ');
		if (!rest) { printf("BADLINE"); return; }
		*rest++ = 0;
	}
	f[3] = rest;
	size = atoi(f[0]);
	limit = (size_t)strtoull(f[1], NULL, 10);
	nkeys = 0;
	for (p = f[2]; *p && nkeys < MAXK;) {
		hashtab[nkeys] = strtoul(p, &p, 10);
		keyids[nkeys] = nkeys;
		nkeys++;
		if (*p == ',') p++;
	}
	xa_reset();
	t = lh_table_new(size, NULL, a_hash, a_equal);
	if (!t) { printf("NOMEM"); return; }
	xa_limit = limit * sizeof(struct lh_entry);
	obs_a(t, "new");
	for (tok = strtok_r(f[3], ";", &save); tok; tok = strtok_r(NULL, ";", &save)) {
		char retbuf[32];
		long k = 0, v = 0, c = 0;
		int ret = 0;
		printf(" | ");
		switch (tok[0]) {
		case 'a': {
			struct lh_entry *e;
			sscanf(tok + 1, "%ld,%ld", &k, &v);
			e = lh_table_lookup_entry(t, &keyids[k]);
			if (e) { lh_entry_set_val(e, (void *)(intptr_t)v); ret = 0; }
			else ret = lh_table_insert(t, &keyids[k], (void *)(intptr_t)v);
			break; }
		case 'i':
			sscanf(tok + 1, "%ld,%ld,%ld", &k, &v, &c);
			ret = lh_table_insert_w_hash(t, &keyids[k], (void *)(intptr_t)v, a_hash(&keyids[k]),
			                             c ? JSON_C_OBJECT_ADD_CONSTANT_KEY : 0);
			break;
		case 'd':
			k = atol(tok + 1);
			ret = lh_table_delete(t, &keyids[k]);
			break;
		case 'z':
			ret = lh_table_resize(t, atoi(tok + 1));
			break;
		case 'b': {
			struct sb ch = {0};
			char b[64];
			long n = atol(tok + 1), kk;
			for (kk = 0; kk < n && kk < nkeys; kk++) {
				int before = t->size;
				struct lh_entry *e = lh_table_lookup_entry(t, &keyids[kk]);
				if (e) lh_entry_set_val(e, (void *)(intptr_t)kk);
				else lh_table_insert(t, &keyids[kk], (void *)(intptr_t)kk);
				if (t->size != before) {
					snprintf(b, sizeof b, "%ld>%d", kk, t->size);
					sb_item(&ch, b);
				}
			}
			obs_a(t, sb_str(&ch));
			sb_free(&ch);
			continue; }
		case 'x': {
			struct lh_entry *e, *tmp;
			struct sb vis = {0};
			char b[64];
			int guard = 0;
			parse_set(tok + 1);
			lh_foreach_safe(t, e, tmp)
			{
				int kk;
				if (++guard > 4 * t->size + 8) { sb_item(&vis, "LOOP"); break; }
				if (e->k == LH_EMPTY || e->k == LH_FREED) { sb_item(&vis, "dead"); break; }
				kk = *(const int *)lh_entry_k(e);
				snprintf(b, sizeof b, "%d:%ld", kk, (long)(intptr_t)lh_entry_v(e));
				sb_item(&vis, b);
				if (inset[kk]) lh_table_delete_entry(t, e);
			}
			obs_a(t, sb_str(&vis));
			sb_free(&vis);
			continue; }
		default: printf("BADOP"); lh_table_free(t); return;
		}
		snprintf(retbuf, sizeof retbuf, "%d", ret);
		obs_a(t, retbuf);
	}
	xa_limit = 0;
	lh_table_free(t);
}

/* ================= mode B ================= */
static int key_index(const char *k)
{
	int i;
	if (!k) return -1;
	for (i = 0; i < nkeys; i++)
		if (strcmp(keystr[i], k) == 0) return i;
	return -1;
}
/* A key is its bytes, never its address: every key handed to the library is a fresh copy of the
 * key text at a scripted byte offset 0..7 from an 8-aligned base, in an exact-size block (ASan
 * sees any read before or after), preceded by junk bytes; after the call the copy is overwritten
 * and freed (a key the library was to keep must have been copied).  Keys passed with
 * JSON_C_OBJECT_ADD_CONSTANT_KEY stay alive until the end of the case. */
static void *pers[4 * MAXK];
static int npers;
static int stepno;
static char *key_copy(int k, int off, void **base)
{
	size_t len = strlen(keystr[k]);
	unsigned char *b = NULL;
	int i;
	off &= 7;
	if (posix_memalign((void **)&b, 8, (size_t)off + len + 1) != 0 || !b) { *base = NULL; return keystr[k]; }
	for (i = 0; i < off; i++) b[i] = (unsigned char)(0x5b + 37 * i + (int)len);
	memcpy(b + off, keystr[k], len + 1);
	*base = b;
	return (char *)b + off;
}
static void key_done(int k, int off, void *base)
{
	if (!base) return;
	memset((char *)base + (off & 7), 0xee, strlen(keystr[k]));     /* keeps the terminator */
	(free)(base);
}
static void pers_free(void)
{
	while (npers > 0) (free)(pers[--npers]);
}
/* "@<off>" suffix of an operation token: cut it off, return the offset (default 0) */
static int cut_off(char *tok)
{
	char *at = strchr(tok, '@');
	if (!at) return 0;
	*at = 0;
	return atoi(at + 1) & 7;
}

static unsigned long b_hash(const void *k)
{
	int i = key_index((const char *)k);
	return i >= 0 ? hashtab[i] : 0;
}
/* typed value token: n = NULL, an int as its value, anything else by its type name */
static void valstr(struct json_object *val, char *out, size_t n)
{
	if (!val) snprintf(out, n, "n");
	else if (json_object_get_type(val) == json_type_int) snprintf(out, n, "%d", json_object_get_int(val));
	else snprintf(out, n, "T%s", json_type_to_name(json_object_get_type(val)));
}
static void item_kv(struct sb *b, const char *key, struct json_object *val)
{
	char tmp[64], vs[32];
	int i = key_index(key);
	if (i < 0) { sb_item(b, "?"); return; }
	valstr(val, vs, sizeof vs);
	snprintf(tmp, sizeof tmp, "%d:%s", i, vs);
	sb_item(b, tmp);
}
/* does the object hold itself?  (then no traversal may be started on it) */
static int holds_self(struct json_object *obj)
{
	struct lh_entry *e;
	int guard = 0;
	lh_foreach(json_object_get_object(obj), e)
	{
		if (++guard > 100000) break;
		if (e->k != LH_EMPTY && e->k != LH_FREED && lh_entry_v(e) == (void *)obj) return 1;
	}
	return 0;
}
static void ansi_item(void *arg, const char *key, struct json_object *val) { item_kv((struct sb *)arg, key, val); }
static int ansi_visit(void *arg, const char *key, struct json_object *val)
{
	int kk = key_index(key);
	item_kv((struct sb *)arg, key, val);
	return kk >= 0 && inset[kk];
}
struct vis_arg { struct sb *b; int n; };
static int visit_cb(json_object *jso, int flags, json_object *parent, const char *key, size_t *idx, void *arg)
{
	struct vis_arg *a = (struct vis_arg *)arg;
	(void)idx;
	if (parent && key && !(flags & JSON_C_VISIT_SECOND)) {
		if (++a->n > 100000) return JSON_C_VISIT_RETURN_STOP;
		item_kv(a->b, key, jso);
	}
	return JSON_C_VISIT_RETURN_CONTINUE;
}
/* the member names and values as they appear in the serialized text; the universe avoids
 * bytes that are escaped (", \, /, control), values are ints or null */
static void ser_items(struct json_object *obj, struct sb *b)
{
	const char *s = json_object_to_json_string_ext(obj, JSON_C_TO_STRING_PLAIN);
	char *key = NULL;
	size_t cap = 0;
	if (!s) { sb_item(b, "NOSER"); return; }
	if (*s != '{') { sb_item(b, "BADSER"); return; }
	s++;
	while (*s == '"') {
		const char *e = strchr(s + 1, '"');
		size_t l;
		char tmp[64], vb[32];
		int i, vl = 0;
		if (!e || e[1] != ':') { sb_item(b, "BADSER"); break; }
		l = (size_t)(e - s - 1);
		if (l + 1 > cap) { cap = l + 1; key = (char *)(realloc)(key, cap); }
		memcpy(key, s + 1, l); key[l] = 0;
		s = e + 2;
		while (*s && *s != ',' && *s != '}' && vl < 30) vb[vl++] = *s++;
		vb[vl] = 0;
		i = key_index(key);
		if (i < 0) sb_item(b, "?");
		else {
			snprintf(tmp, sizeof tmp, "%d:%s", i, strcmp(vb, "null") == 0 ? "n" : vb);
			sb_item(b, tmp);
		}
		if (*s == ',') s++;
	}
	if (*s != '}') sb_item(b, "BADSER");
	(free)(key);
}

static void obs_b(struct json_object *obj, const char *ret)
{
	struct sb g = {0}, m[8] = {{0}};
	struct lh_table *t = json_object_get_object(obj);
	struct lh_entry *e;
	struct json_object_iterator it, end;
	struct json_object_iter itc;
	struct vis_arg va;
	char tmp[64];
	int i, guard, same = 1;
	stepno++;
	for (i = 0; i < nkeys; i++) {
		struct json_object *v = NULL;
		void *base;
		int off = (stepno + i) & 7;            /* every key meets every offset as the steps go by */
		char *kp = key_copy(i, off, &base);
		if (json_object_object_get_ex(obj, kp, &v)) valstr(v, tmp, sizeof tmp);
		else strcpy(tmp, "-");
		key_done(i, off, base);
		sb_item(&g, tmp);
	}
	guard = 0;
	{
		json_object_object_foreach(obj, key, val)
		{
			if (++guard > 100000) { sb_item(&m[0], "LOOP"); break; }
			item_kv(&m[0], key, val);
		}
	}
	guard = 0;
	it = json_object_iter_begin(obj);
	end = json_object_iter_end(obj);
	while (!json_object_iter_equal(&it, &end)) {
		if (++guard > 100000) { sb_item(&m[1], "LOOP"); break; }
		item_kv(&m[1], json_object_iter_peek_name(&it), json_object_iter_peek_value(&it));
		json_object_iter_next(&it);
	}
	guard = 0;
	lh_foreach(t, e)
	{
		if (++guard > 100000) { sb_item(&m[2], "LOOP"); break; }
		if (e->k == LH_EMPTY || e->k == LH_FREED) { sb_item(&m[2], "dead"); continue; }
		item_kv(&m[2], (const char *)lh_entry_k(e), (struct json_object *)lh_entry_v(e));
	}
	ser_items(obj, &m[3]);
	va.b = &m[4]; va.n = 0;
	json_c_visit(obj, 0, visit_cb, &va);
	guard = 0;
	json_object_object_foreachC(obj, itc)
	{
		if (++guard > 100000) { sb_item(&m[5], "LOOP"); break; }
		item_kv(&m[5], itc.key, itc.val);
	}
	if (lh_ansi_foreach(obj, ansi_item, &m[6], 100000) < 0) sb_item(&m[6], "LOOP");
	if (lh_ansi_foreachC(obj, ansi_item, &m[7], 100000) < 0) sb_item(&m[7], "LOOP");
	for (i = 1; i < 8; i++)
		if (strcmp(sb_str(&m[0]), sb_str(&m[i])) != 0) same = 0;
	printf("%s %d %d %s ", ret, json_object_object_length(obj), t->size, sb_str(&g));
	if (same) printf("%s", sb_str(&m[0]));
	else {
		printf("ITERDIFF");
		for (i = 0; i < 8; i++) printf("/%s", sb_str(&m[i]));
	}
	sb_free(&g);
	for (i = 0; i < 8; i++) sb_free(&m[i]);
}

/* json_object_new_object under the CURRENT global selection, then the case's initial size */
static struct json_object *new_obj(int hsel, int size)
{
	struct json_object *o = json_object_new_object();
	if (!o) return NULL;
	if (hsel == 2) json_object_get_object(o)->hash_fn = b_hash;
	if (size != 16 && lh_table_resize(json_object_get_object(o), size) != 0) {
		json_object_put(o);
		return NULL;
	}
	return o;
}

static void mode_b(char *rest)
{
	char *f[5], *tok, *save = NULL, *p;
	struct json_object *obj, *pair[2] = {NULL, NULL};
	int i, hsel, size, cur = 0;
	size_t limit;
	for (i = 0; i < 4; i++) {
		f[i] = rest;
		rest = strchr(rest, ' ');
		if (!rest) { printf("BADLINE"); return; }
		*rest++ = 0;
	}
	f[4] = rest;
	hsel = atoi(f[0]);
	size = atoi(f[1]);
	limit = (size_t)strtoull(f[2], NULL, 10);
	nkeys = 0;
	for (p = f[3]; p && *p && nkeys < MAXK;) {
		char *comma = strchr(p, ',');
		char *at;
		size_t n;
		unsigned char *b;
		if (comma) *comma = 0;
		at = strchr(p, '@');
		if (at) { *at = 0; hashtab[nkeys] = strtoul(at + 1, NULL, 10); }
		b = unhex(p, &n);
		keystr[nkeys] = (char *)(malloc)(n + 1);
		memcpy(keystr[nkeys], b, n);
		keystr[nkeys][n] = 0;
		(free)(b);
		nkeys++;
		p = comma ? comma + 1 : NULL;
	}
	xa_reset();
	stepno = 0;
	json_global_set_string_hash(hsel == 1 ? JSON_C_STR_HASH_PERLLIKE : JSON_C_STR_HASH_DFLT);
	obj = pair[0] = new_obj(hsel, size);
	if (!obj) { printf("NOMEM"); goto done; }
	obs_b(obj, "new");
	for (tok = strtok_r(f[4], ";", &save); tok; tok = strtok_r(NULL, ";", &save)) {
		char retbuf[32];
		int ret = 0;
		printf(" | ");
		switch (tok[0]) {
		case 'a': {
			char *c1 = strchr(tok, ','), *c2 = c1 ? strchr(c1 + 1, ',') : NULL;
			int k, flags, fail1;
			unsigned opts = 0;
			struct json_object *val;
			int off = cut_off(tok);
			void *base;
			char *kp;
			if (!c2) { printf("BADOP"); goto out; }
			k = atoi(tok + 1);
			flags = atoi(c2 + 1);
			fail1 = tok[strlen(tok) - 1] == '!';
			kp = key_copy(k, off, &base);
			val = (c1[1] == 'n') ? NULL : json_object_new_int(atoi(c1 + 1));
			if (flags & 1) opts |= JSON_C_OBJECT_ADD_KEY_IS_NEW;
			if (flags & 2) opts |= JSON_C_OBJECT_ADD_CONSTANT_KEY;
			xa_limit = limit * sizeof(struct lh_entry);
			if (fail1) xa_fail_at = xa_count;
			if (flags == 0) ret = json_object_object_add(obj, kp, val);
			else ret = json_object_object_add_ex(obj, kp, val, opts);
			xa_fail_at = -1;
			xa_limit = 0;
			if (ret != 0 && val) json_object_put(val);
			/* the table may now point at a constant key: it must outlive the object */
			if ((flags & 2) && base && npers < 4 * MAXK) pers[npers++] = base;
			else key_done(k, off, base);
			break; }
		case 'd': {
			int off = cut_off(tok), k = atoi(tok + 1);
			void *base;
			char *kp = key_copy(k, off, &base);
			json_object_object_del(obj, kp);
			key_done(k, off, base);
			ret = 0;
			break; }
		case 's': {
			/* self-insertion: json_object_object_add / _add_ex (obj, key, obj) */
			int off = cut_off(tok), k = atoi(tok + 1), flags;
			char *c1 = strchr(tok, ',');
			unsigned opts = 0;
			struct json_object *old = NULL;
			uint32_t rc_obj0, rc_old0 = 0;
			void *base;
			char *kp;
			char r[64];
			if (!c1) { printf("BADOP"); goto out; }
			flags = atoi(c1 + 1);
			if (flags & 1) opts |= JSON_C_OBJECT_ADD_KEY_IS_NEW;
			if (flags & 2) opts |= JSON_C_OBJECT_ADD_CONSTANT_KEY;
			kp = key_copy(k, off, &base);
			/* an extra reference on the value stored now: its survival is observable */
			if (json_object_object_get_ex(obj, kp, &old) && old) { json_object_get(old); rc_old0 = old->_ref_count; }
			else old = NULL;
			rc_obj0 = obj->_ref_count;
			if (flags == 0) ret = json_object_object_add(obj, kp, obj);
			else ret = json_object_object_add_ex(obj, kp, obj, opts);
			snprintf(r, sizeof r, "%d:%ld:%ld", ret, (long)obj->_ref_count - (long)rc_obj0,
			         old ? (long)old->_ref_count - (long)rc_old0 : 0L);
			if (old) json_object_put(old);
			if ((flags & 2) && base && npers < 4 * MAXK) pers[npers++] = base;
			else key_done(k, off, base);
			if (holds_self(obj)) {
				/* the object was stored inside itself: no traversal, no release is possible any more */
				printf("%s SELFREF", r);
				pair[0] = pair[1] = NULL;
				goto out;
			}
			obs_b(obj, r);
			continue; }
		case 'q': {
			/* documented answers that involve no table: NULL object, non-objects, NULL result pointer */
			int off = cut_off(tok), k = atoi(tok + 1);
			struct json_object *v, *io = json_object_new_int(5), *ar = json_object_new_array();
			void *base;
			char *kp = key_copy(k, off, &base);
			char r[64];
			int r1, r2, r3, r4, bad = 0;
			v = obj; r1 = json_object_object_get_ex(NULL, kp, &v); if (v) bad = 1;
			v = obj; r2 = json_object_object_get_ex(io, kp, &v); if (v) bad = 1;
			v = obj; r3 = json_object_object_get_ex(ar, kp, &v); if (v) bad = 1;
			r4 = json_object_object_get_ex(obj, kp, NULL);
			snprintf(r, sizeof r, "%d:%d:%d:%d:%s:%s:%s%s", r1, r2, r3, r4,
			         json_object_object_get(NULL, kp) ? "X" : "-", json_object_object_get(io, kp) ? "X" : "-",
			         json_object_get_object(io) ? "X" : "-", bad ? ":V" : "");
			key_done(k, off, base);
			json_object_put(io);
			json_object_put(ar);
			obs_b(obj, r);
			continue; }
		case 'g': {
			/* one key, one offset, every lookup entry point */
			int off = cut_off(tok), k = atoi(tok + 1), j, same = 1;
			struct lh_table *t = json_object_get_object(obj);
			struct lh_entry *e;
			struct json_object *v;
			void *base, *vv;
			char r[5][24];
			char *kp = key_copy(k, off, &base);
			v = NULL;
			if (json_object_object_get_ex(obj, kp, &v)) { if (v) snprintf(r[0], 24, "%d", json_object_get_int(v)); else strcpy(r[0], "n"); }
			else strcpy(r[0], "-");
			/* json_object_object_get cannot tell an absent key from a NULL value: compare where it can */
			v = json_object_object_get(obj, kp);
			if (v) snprintf(r[1], 24, "%d", json_object_get_int(v)); else strcpy(r[1], r[0][0] == 'n' ? "n" : "-");
			vv = NULL;
			if (lh_table_lookup_ex(t, kp, &vv)) { if (vv) snprintf(r[2], 24, "%d", json_object_get_int((struct json_object *)vv)); else strcpy(r[2], "n"); }
			else strcpy(r[2], "-");
			e = lh_table_lookup_entry(t, kp);
			if (e) { if (lh_entry_v(e)) snprintf(r[3], 24, "%d", json_object_get_int((struct json_object *)lh_entry_v(e))); else strcpy(r[3], "n"); }
			else strcpy(r[3], "-");
			e = lh_table_lookup_entry_w_hash(t, kp, lh_get_hash(t, kp));
			if (e) { if (lh_entry_v(e)) snprintf(r[4], 24, "%d", json_object_get_int((struct json_object *)lh_entry_v(e))); else strcpy(r[4], "n"); }
			else strcpy(r[4], "-");
			key_done(k, off, base);
			for (j = 1; j < 5; j++) if (strcmp(r[0], r[j]) != 0) same = 0;
			if (same) obs_b(obj, r[0]);
			else {
				char big[160];
				snprintf(big, sizeof big, "GETDIFF/%s/%s/%s/%s/%s", r[0], r[1], r[2], r[3], r[4]);
				obs_b(obj, big);
			}
			continue; }
		case 'h':
			/* the global selection changes while the objects are alive */
			ret = json_global_set_string_hash(atoi(tok + 1));
			break;
		case 'o':
			cur = 1 - cur;
			if (!pair[cur]) pair[cur] = new_obj(hsel, size);
			if (!pair[cur]) { printf("OUT-nomem"); goto out; }
			obj = pair[cur];
			ret = 0;
			break;
		case 'x': {
			struct sb vis = {0};
			int guard = 0;
			parse_set(tok + 1);
			{
				json_object_object_foreach(obj, key, val)
				{
					int kk = key_index(key);
					if (++guard > 100000) { sb_item(&vis, "LOOP"); break; }
					item_kv(&vis, key, val);
					if (kk >= 0 && inset[kk]) json_object_object_del(obj, key);
				}
			}
			obs_b(obj, sb_str(&vis));
			sb_free(&vis);
			continue; }
		case 'y': {
			/* the same, the loop being the portable (strict ISO C) definition of the macro */
			struct sb vis = {0};
			parse_set(tok + 1);
			if (lh_ansi_foreach_del(obj, ansi_visit, &vis, 100000) < 0) sb_item(&vis, "LOOP");
			obs_b(obj, sb_str(&vis));
			sb_free(&vis);
			continue; }
		default: printf("BADOP"); goto out;
		}
		snprintf(retbuf, sizeof retbuf, "%d", ret);
		obs_b(obj, retbuf);
	}
out:
	if (pair[0]) json_object_put(pair[0]);
	if (pair[1]) json_object_put(pair[1]);
	pers_free();
done:
	for (i = 0; i < nkeys; i++) { (free)(keystr[i]); keystr[i] = NULL; }
	json_global_set_string_hash(JSON_C_STR_HASH_DFLT);
}

/* the load-factor test as the C expression of lh_table_insert_w_hash evaluates it */
static void mode_l(char *rest)
{
	long long lo, hi, step, sz;
	int first = 1;
	if (sscanf(rest, "%lld %lld %lld", &lo, &hi, &step) != 3 || step <= 0) { printf("BADLINE"); return; }
	for (sz = lo; sz <= hi; sz += step) {
		int size = (int)sz;
		long long c0 = 66 * sz / 100 - 2;
		int count = c0 < 0 ? 0 : (int)c0;
		while (!(count >= size * LH_LOAD_FACTOR)) count++;
		printf(first ? "%d" : ",%d", count);
		first = 0;
	}
}

/* the string hash of a table is a function of the key bytes: the same text at the 8 byte offsets
 * of an 8-aligned base (and in a malloc'ed duplicate, as strdup makes for the stored key) hashes to
 * one value, through t->hash_fn and through lh_get_hash.  Hash values are not printed. */
static void mode_hh(char *rest)
{
	char *sp = strchr(rest, ' '), *p;
	struct lh_table *t;
	int hsel, first = 1;
	if (!sp) { printf("BADLINE"); return; }
	*sp = 0;
	hsel = atoi(rest);
	json_global_set_string_hash(hsel == 1 ? JSON_C_STR_HASH_PERLLIKE : JSON_C_STR_HASH_DFLT);
	t = lh_kchar_table_new(16, NULL);
	json_global_set_string_hash(JSON_C_STR_HASH_DFLT);
	if (!t) { printf("NOMEM"); return; }
	for (p = sp + 1; p && *p;) {
		char *comma = strchr(p, ',');
		unsigned char *b, *dup;
		unsigned long h0 = 0, h;
		size_t n;
		int off, bad = 0;
		char diff[64] = "";
		if (comma) *comma = 0;
		b = unhex(p, &n);
		for (off = 0; off < 8; off++) {
			unsigned char *base = NULL;
			int i;
			if (posix_memalign((void **)&base, 8, (size_t)off + n + 1) != 0) { bad = 1; break; }
			for (i = 0; i < off; i++) base[i] = (unsigned char)(0xc3 + 29 * i + (int)n);
			memcpy(base + off, b, n);
			base[off + n] = 0;
			h = t->hash_fn(base + off);
			if (lh_get_hash(t, base + off) != h) bad = 1;
			if (off == 0) h0 = h;
			else if (h != h0) { size_t l = strlen(diff); snprintf(diff + l, sizeof diff - l, "%s%d", l ? "+" : "", off); }
			(free)(base);
		}
		dup = (unsigned char *)(malloc)(n + 1);
		memcpy(dup, b, n); dup[n] = 0;
		if (t->hash_fn(dup) != h0) { size_t l = strlen(diff); snprintf(diff + l, sizeof diff - l, "%sdup", l ? "+" : ""); }
		(free)(dup);
		(free)(b);
		if (!first) putchar(',');
		first = 0;
		if (bad) printf("bad");
		else if (diff[0]) printf("diff:%s", diff);
		else printf("ok");
		p = comma ? comma + 1 : NULL;
	}
	lh_table_free(t);
}

static void mode_b(char *rest);
/* S <draws> <a mode B line>: the history runs in a fresh process whose seed source answers the
 * scripted draws first */
static void mode_s(char *rest)
{
	char *sp = strchr(rest, ' ');
	char path[] = "/tmp/lh_seed_XXXXXX";
	int fd, pfd[2], status = 0;
	pid_t pid;
	struct sb out = {0};
	char buf[4096];
	ssize_t got;
	if (!sp) { printf("BADLINE"); return; }
	if (getenv("LH_SEED_CHILD")) {
		char *p = rest;
		*sp = 0;
		n_draws = next_draw = 0;
		while (*p && n_draws < 32) {
			draws[n_draws++] = (int)strtol(p, &p, 10);
			if (*p == ',') p++;
		}
		mode_b(sp + 1);
		return;
	}
	fd = mkstemp(path);
	if (fd < 0 || pipe(pfd) != 0) { printf("FORKFAIL"); return; }
	dprintf(fd, "lh S %s\n", rest);
	close(fd);
	fflush(stdout);
	pid = fork();
	if (pid == 0) {
		dup2(pfd[1], 1);
		close(pfd[0]); close(pfd[1]);
		setenv("LH_SEED_CHILD", "1", 1);
		execl("/proc/self/exe", "drv_lh", path, (char *)NULL);
		_exit(127);
	}
	close(pfd[1]);
	while ((got = read(pfd[0], buf, sizeof buf - 1)) > 0) { buf[got] = 0; sb_put(&out, buf); }
	close(pfd[0]);
	if (pid < 0 || waitpid(pid, &status, 0) < 0) status = -1;
	unlink(path);
	if (out.n && out.p[out.n - 1] == '\n') out.p[--out.n] = 0;
	if (out.n > 2 && out.p[0] == '1' && out.p[1] == ' ') printf("%s", out.p + 2);
	if (status != 0) printf("%sCRASH child", out.n > 2 ? " | " : "");
	else if (out.n <= 2) printf("MISSING");
	sb_free(&out);
}

void run_case(char *rest)
{
	alarm(4);           /* a probe or chain loop that does not terminate ends as a crash */
	if (rest[0] == 'A' && rest[1] == ' ') mode_a(rest + 2);
	else if (rest[0] == 'B' && rest[1] == ' ') mode_b(rest + 2);
	else if (rest[0] == 'L' && rest[1] == ' ') mode_l(rest + 2);
	else if (rest[0] == 'H' && rest[1] == ' ') mode_hh(rest + 2);
	else if (rest[0] == 'S' && rest[1] == ' ') { alarm(12); mode_s(rest + 2); }
	else printf("BADLINE");
	alarm(0);
}
