/* drv_num.c — numeric accessors and mutators (C10).  Same script and observation format as
 * ocaml/drv_num.ml:  "<node> <strtod> <op>;<op>;…"  (the strtod field is the model's oracle
 * argument and is ignored here: the library calls libc itself).
 * errno is cleared before every call — or preset by an "@<c>" op prefix (0, R = ERANGE, I = EINVAL,
 * M = ENOMEM, X = a large value) — and read directly after it.  Undefined behaviour
 * (float-cast-overflow, signed-integer-overflow) aborts under UBSan and is reported by the
 * framework as CRASH ubsan:… for the whole line. */
#include "common.h"
#include "jvtext.h"
#include <inttypes.h>
const char *DOMAIN = "num";

static void put_dbl(double d)
{
	uint64_t bits;
	memcpy(&bits, &d, 8);
	if (d != d) bits = 0x7ff8000000000000ull;   /* collapse NaN payloads and sign */
	printf("%016llx", (unsigned long long)bits);
}

static void ndump(struct json_object *o)
{
	if (!o) { putchar('n'); return; }
	switch (json_object_get_type(o)) {
	case json_type_double:
		putchar('d'); put_dbl(((struct json_object_double *)o)->c_double);
		if (o->_userdata) { putchar(':'); puthex((unsigned char *)o->_userdata, strlen((char *)o->_userdata)); }
		break;
	case json_type_array: printf("A%zu", json_object_array_length(o)); break;
	case json_type_object: printf("O%d", json_object_object_length(o)); break;
	default: jv_dump(o);
	}
}

void run_case(char *rest)
{
	char *sp1 = strchr(rest, ' '), *sp2, *tok, *save = NULL;
	const char *p;
	struct json_object *o;
	int err = 0, first = 1;
	if (!sp1 || !(sp2 = strchr(sp1 + 1, ' '))) { printf("BADLINE"); return; }
	*sp1 = 0;
	xa_reset();
	p = rest;
	o = jv_parse(&p, &err);
	if (err || *p) { printf("BADNODE"); json_object_put(o); return; }
	for (tok = strtok_r(sp2 + 1, ";", &save); tok; tok = strtok_r(NULL, ";", &save)) {
		const char *a;
		int e, r, pre = 0;
		if (!first) printf(" | ");
		first = 0;
		if (tok[0] == '@') {
			switch (tok[1]) {
			case '0': pre = 0; break;
			case 'R': pre = ERANGE; break;
			case 'I': pre = EINVAL; break;
			case 'M': pre = ENOMEM; break;
			case 'X': pre = 9999; break;
			default: printf("BADOP"); goto out;
			}
			tok += 2;
		}
		if (!tok[0] || !tok[1]) { printf("BADOP"); break; }
		a = tok + 2;
		errno = pre;
		if (!strcmp(tok, "gb")) { int v = json_object_get_boolean(o); e = errno; printf("%d %s", v, errno_name(e)); }
		else if (!strcmp(tok, "gi")) { int32_t v = json_object_get_int(o); e = errno; printf("%" PRId32 " %s", v, errno_name(e)); }
		else if (!strcmp(tok, "gl")) { int64_t v = json_object_get_int64(o); e = errno; printf("%" PRId64 " %s", v, errno_name(e)); }
		else if (!strcmp(tok, "gu")) { uint64_t v = json_object_get_uint64(o); e = errno; printf("%" PRIu64 " %s", v, errno_name(e)); }
		else if (!strcmp(tok, "gd")) { double v = json_object_get_double(o); e = errno; put_dbl(v); printf(" %s", errno_name(e)); }
		else {
			if (tok[0] == 's' && tok[1] == 'i') { long v = strtol(a, NULL, 10); errno = pre; r = json_object_set_int(o, (int)v); }
			else if (tok[0] == 's' && tok[1] == 'l') { long long v = strtoll(a, NULL, 10); errno = pre; r = json_object_set_int64(o, (int64_t)v); }
			else if (tok[0] == 's' && tok[1] == 'u') { unsigned long long v = strtoull(a, NULL, 10); errno = pre; r = json_object_set_uint64(o, (uint64_t)v); }
			else if (tok[0] == 's' && tok[1] == 'd') { uint64_t b = strtoull(a, NULL, 16); double d; memcpy(&d, &b, 8); errno = pre; r = json_object_set_double(o, d); }
			else if (tok[0] == 's' && tok[1] == 'b') { errno = pre; r = json_object_set_boolean(o, a[0] != '0'); }
			else if (tok[0] == 'i' && tok[1] == 'n') { long long v = strtoll(a, NULL, 10); errno = pre; r = json_object_int_inc(o, (int64_t)v); }
			else { printf("BADOP"); break; }
			e = errno;
			printf("%d %s ", r, errno_name(e));
			ndump(o);
		}
	}
out:
	json_object_put(o);
	if (xa_live != 0) printf(" | LEAK %ld", xa_live);
}
