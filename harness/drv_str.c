/* drv_str.c — string-node domain (C11).  Same script and observation format as
 * ocaml/drv_str.ml.
 *
 * line:  <ns> <create> [<step>;<step>;...]
 *   ns      0 | 1 (serialise with JSON_C_TO_STRING_NOSLASHESCAPE)
 *   <hex>   lowercase hex, "-" = empty, or @<k>x<n> = the n bytes (7 i + 13 k + 5 (i / 256)) mod 251;
 *           byte strings longer than 256 are PRINTED as #<len>:<fnv1a-32>:<first 16>:<last 16>
 *   create  L<hex>,<len>[!k]  json_object_new_string_len(bytes, len)
 *           Z<hex>[!k]        json_object_new_string(bytes ++ NUL)
 *   step    l<hex>,<len>[!k]  json_object_set_string_len(o, bytes, len)
 *           z<hex>[!k]        json_object_set_string(o, bytes ++ NUL)
 *           o<off>,<len>[!k]  json_object_set_string_len(o, json_object_get_string(o) + off, len)
 *           s<off>[!k]        json_object_set_string(o, json_object_get_string(o) + off)
 *                             (the source is the node's own current buffer; any range inside the
 *                             contents and their terminator, overlapping the destination or
 *                             not; anything else is refused with BADOP; O / S are synonyms)
 *           g                 observe only
 *   !k      the k-th allocation request counted from the start of this call fails
 * observation per step:
 *   <ret> <len> <hex> <nul> <I|S> <dlive> E<abcd> C<hex> J<hex>
 *   ret n (creation) | g | return value of the setter; len = json_object_get_string_len;
 *   hex = len bytes read through json_object_get_string; nul = 1 when the byte after
 *   them is 0; I/S inline or separate storage (sign of the len field); dlive = change of
 *   the number of live blocks across the call; E: json_object_equal against fresh strings
 *   made of a) the expected bytes b) the same with the last byte flipped c) their prefix
 *   before the first NUL d) the same plus one NUL ('-' where the variant does not exist);
 *   C: bytes of a json_object_deep_copy; J: json_object_to_json_string_length output.
 *   The expected bytes are those of the creation / of the last setter that returned 1.
 * end: END <live blocks remaining after json_object_put, relative to the case start>. */
#include "common.h"
#include "json.h"
#include "json_object_private.h"
const char *DOMAIN = "str";

/* source bytes: hex, or "@<k>x<n>" = the n bytes b(i) = (7 i + 13 k + 5 (i / 256)) mod 251, in an
 * exact-size heap block */
static unsigned char *get_src(const char *h, size_t *len)
{
	unsigned long k, n, i;
	unsigned char *b;
	if (h[0] != '@') return unhex(h, len);
	if (sscanf(h, "@%lux%lu", &k, &n) != 2) { k = 0; n = 0; }
	b = (unsigned char *)(malloc)(n ? n : 1);
	for (i = 0; i < n; i++) b[i] = (unsigned char)((7 * i + 13 * k + 5 * (i / 256)) % 251);
	*len = n;
	return b;
}

/* values longer than 256 bytes are printed as #<len>:<fnv1a-32>:<first 16>:<last 16> */
static void puthexc(const unsigned char *b, size_t n)
{
	uint32_t h = 0x811c9dc5u;
	size_t i;
	if (n <= 256) { puthex(b, n); return; }
	for (i = 0; i < n; i++) h = (h ^ b[i]) * 16777619u;
	printf("#%zu:%08x:", n, (unsigned)h);
	for (i = 0; i < 16; i++) printf("%02x", b[i]);
	putchar(':');
	for (i = n - 16; i < n; i++) printf("%02x", b[i]);
}

static unsigned char *exp_b;   /* expected bytes, exact-size heap copy */
static size_t exp_n;

static void set_expected(const unsigned char *b, size_t n)
{
	(free)(exp_b);
	exp_b = (unsigned char *)(malloc)(n ? n : 1);
	memcpy(exp_b, b, n);
	exp_n = n;
}

static char eq_fresh(struct json_object *o, const unsigned char *b, size_t n)
{
	/* the source is an exact-size heap block so that ASan sees an over-read */
	unsigned char *src = (unsigned char *)(malloc)(n ? n : 1);
	struct json_object *f;
	int r;
	memcpy(src, b, n);
	f = json_object_new_string_len((const char *)src, (int)n);
	(free)(src);
	if (!f) return 'N';
	r = json_object_equal(o, f);
	json_object_put(f);
	return r ? '1' : '0';
}

static void observe(struct json_object *o, const char *ret, long dlive, int flags)
{
	int len = json_object_get_string_len(o);
	const unsigned char *p = (const unsigned char *)json_object_get_string(o);
	ssize_t raw = ((struct json_object_string *)o)->len;
	struct json_object *c = NULL;
	const char *j;
	size_t jn = 0;
	unsigned char *v;
	const unsigned char *z;
	printf("%s %d ", ret, len);
	puthexc(p, len > 0 ? (size_t)len : 0);
	printf(" %d %c %ld E", (len >= 0 && p[len] == 0) ? 1 : 0, raw < 0 ? 'S' : 'I', dlive);
	/* a) exact */
	putchar(eq_fresh(o, exp_b, exp_n));
	/* b) last byte flipped */
	if (exp_n > 0) {
		v = (unsigned char *)(malloc)(exp_n);
		memcpy(v, exp_b, exp_n);
		v[exp_n - 1] ^= 1;
		putchar(eq_fresh(o, v, exp_n));
		(free)(v);
	} else putchar('-');
	/* c) prefix before the first NUL */
	z = exp_n ? (const unsigned char *)memchr(exp_b, 0, exp_n) : NULL;
	if (z) putchar(eq_fresh(o, exp_b, (size_t)(z - exp_b)));
	else putchar('-');
	/* d) one more NUL byte */
	v = (unsigned char *)(malloc)(exp_n + 1);
	memcpy(v, exp_b, exp_n);
	v[exp_n] = 0;
	putchar(eq_fresh(o, v, exp_n + 1));
	(free)(v);
	/* deep copy */
	printf(" C");
	if (json_object_deep_copy(o, &c, NULL) != 0 || !c) printf("NULL");
	else {
		int cl = json_object_get_string_len(c);
		puthexc((const unsigned char *)json_object_get_string(c), cl > 0 ? (size_t)cl : 0);
		json_object_put(c);
	}
	/* serialisation */
	printf(" J");
	j = json_object_to_json_string_length(o, flags, &jn);
	if (!j) printf("NULL");
	else puthexc((const unsigned char *)j, jn);
}

/* split "<hex>[,<len>][!k]" in place */
static void parse_arg(char *a, char **hex, long long *len, int *has_len, long *fault)
{
	char *bang = strchr(a, '!');
	char *comma;
	*fault = -1;
	if (bang) { *bang = 0; *fault = strtol(bang + 1, NULL, 10); }
	comma = strchr(a, ',');
	*has_len = 0;
	if (comma) { *comma = 0; *len = strtoll(comma + 1, NULL, 10); *has_len = 1; }
	*hex = a;
}

/* bytes ++ NUL in an exact-size heap block */
static char *cstring_of(const unsigned char *b, size_t n)
{
	char *z = (char *)(malloc)(n + 1);
	memcpy(z, b, n);
	z[n] = 0;
	return z;
}

void run_case(char *rest)
{
	char *save = NULL, *nsf, *create, *steps, *tok, *hex;
	struct json_object *o = NULL;
	long live0, before, fault;
	long long len;
	int has_len, flags;
	size_t n;
	unsigned char *b;
	char rbuf[16];

	if (sizeof(void *) != 8 ||
	    sizeof(struct json_object_string) - sizeof(((struct json_object_string *)0)->c_string) != 48) {
		printf("BADABI");
		return;
	}
	nsf = strtok_r(rest, " ", &save);
	create = strtok_r(NULL, " ", &save);
	steps = strtok_r(NULL, " ", &save);
	if (!nsf || !create) { printf("BADLINE"); return; }
	flags = (nsf[0] == '1') ? JSON_C_TO_STRING_NOSLASHESCAPE : JSON_C_TO_STRING_PLAIN;
	xa_reset();
	live0 = xa_live;

	parse_arg(create + 1, &hex, &len, &has_len, &fault);
	b = get_src(hex, &n);
	if (fault >= 0) xa_fail_at = xa_count + fault;
	if (create[0] == 'L') {
		o = json_object_new_string_len((const char *)b, (int)len);
		if (len >= 0 && (size_t)len <= n) set_expected(b, (size_t)len);
	} else if (create[0] == 'Z') {
		char *z = cstring_of(b, n);
		o = json_object_new_string(z);
		set_expected(b, strlen(z));
		(free)(z);
	} else { printf("BADOP"); (free)(b); return; }
	xa_fail_at = -1;
	(free)(b);
	if (!o) { printf("NULL | END %ld", xa_live - live0); return; }
	observe(o, "n", xa_live - live0, flags);

	save = NULL;
	for (tok = steps ? strtok_r(steps, ";", &save) : NULL; tok; tok = strtok_r(NULL, ";", &save)) {
		int ret;
		printf(" | ");
		if (tok[0] == 'g') { observe(o, "g", 0, flags); continue; }
		if (tok[0] == 'o' || tok[0] == 's' || tok[0] == 'O' || tok[0] == 'S') {
			int bylen = (tok[0] == 'o' || tok[0] == 'O');
			/* own-buffer source: the expected bytes are a slice of the current ones and their NUL */
			char *bang = strchr(tok, '!');
			long long off = 0, ln = 0;
			size_t cnt;
			const char *own;
			fault = -1;
			if (bang) { *bang = 0; fault = strtol(bang + 1, NULL, 10); }
			if (bylen) {
				if (sscanf(tok + 1, "%lld,%lld", &off, &ln) != 2) { printf("BADOP"); break; }
				cnt = (size_t)ln;
			} else {
				const unsigned char *z;
				off = strtoll(tok + 1, NULL, 10);
				if (off < 0 || (size_t)off > exp_n) { printf("BADOP"); break; }
				z = (const unsigned char *)memchr(exp_b + off, 0, exp_n - (size_t)off);
				cnt = z ? (size_t)(z - (exp_b + off)) : exp_n - (size_t)off;
			}
			/* only sources inside the contents and their terminator */
			if (off < 0 || ln < 0 || (size_t)off > exp_n || (size_t)off + cnt > exp_n + 1) { printf("BADOP"); break; }
			b = (unsigned char *)(malloc)(cnt ? cnt : 1);
			if ((size_t)off + cnt > exp_n) {	/* the slice ends with the terminator */
				memcpy(b, exp_b + off, cnt - 1);
				b[cnt - 1] = 0;
			} else
				memcpy(b, exp_b + off, cnt);
			own = json_object_get_string(o) + off;
			before = xa_live;
			if (fault >= 0) xa_fail_at = xa_count + fault;
			ret = bylen ? json_object_set_string_len(o, own, (int)ln)
			                      : json_object_set_string(o, own);
			xa_fail_at = -1;
			if (ret == 1) set_expected(b, cnt);
			(free)(b);
			snprintf(rbuf, sizeof rbuf, "%d", ret);
			observe(o, rbuf, xa_live - before, flags);
			continue;
		}
		parse_arg(tok + 1, &hex, &len, &has_len, &fault);
		b = get_src(hex, &n);
		before = xa_live;
		if (tok[0] == 'l') {
			if (fault >= 0) xa_fail_at = xa_count + fault;
			ret = json_object_set_string_len(o, (const char *)b, (int)len);
			xa_fail_at = -1;
			if (ret == 1 && len >= 0 && (size_t)len <= n) set_expected(b, (size_t)len);
		} else if (tok[0] == 'z') {
			char *z = cstring_of(b, n);
			if (fault >= 0) xa_fail_at = xa_count + fault;
			ret = json_object_set_string(o, z);
			xa_fail_at = -1;
			if (ret == 1) set_expected(b, strlen(z));
			(free)(z);
		} else { printf("BADOP"); (free)(b); break; }
		(free)(b);
		snprintf(rbuf, sizeof rbuf, "%d", ret);
		observe(o, rbuf, xa_live - before, flags);
	}
	json_object_put(o);
	(free)(exp_b);
	exp_b = NULL;
	exp_n = 0;
	printf(" | END %ld", xa_live - live0);
}
