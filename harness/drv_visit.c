/* drv_visit.c — visitor domain (C17).  Same script and observation format as
 * ocaml/drv_visit.ml.
 *
 *   line  := PROG { ";" PROG }                  traversals one after the other
 *   PROG  := TREE SCHED { "(" K PROG ")" }      a traversal; during its K-th call (1-based), before
 *                                               returning from it, its callback runs the PROG
 *   TREE  := tree in jvtext | "="               "=": the very tree object of the enclosing traversal
 *   SCHED := CODES { "@f" INT | "@a" N }
 *   CODES := "-" | comma-separated ints         returned by the callback for its 1st, 2nd, … call
 *                                               (0 = CONTINUE afterwards)
 *            @f INT                             the future_flags argument of json_c_visit (default 0)
 *            @a N                               which user argument is passed: 0 the driver's record
 *                                               of the traversal (default), 1 NULL, 2 a 1-byte heap
 *                                               block, 3 the root of the tree, 4 the odd address 1
 *
 *            @e EDIT { "&" EDIT }               (single traversal only) what the callback does to the
 *                                               tree: EDIT := PATH ":" OP is carried out during the FIRST
 *                                               call on the container at PATH ("/", "/0/1": positions at
 *                                               that time), on that container itself, before returning:
 *                 array   d<k> delete the last k elements   D delete all   a<jv> append
 *                         r<i>=<jv> replace element i (ignored when i >= length)
 *                 object  A<hexkey|->=<jv> add a member / replace the value of an existing one
 *                         X<hexkey|-> delete a member
 *                 S     (carried out during the SECOND call on the container at PATH, when it is a
 *                       member of an object): remove this very member from its parent with
 *                       json_object_object_del(parent, key).  The visitor has saved the next member
 *                       before the call, so the traversal goes on with the next sibling; positions
 *                       are counted in the parent as it is at the time of each call.
 *               json_visit.c looks at a container (type, length, member table) only after the
 *               first call on it, so the members visited are those it has after that call.
 *
 * The flags value of every call is printed verbatim.  The user argument every call arrives
 * with is compared with the one given to json_c_visit.
 *
 * Every traversal has its own user function (cb_0 … cb_15) and its own user argument.
 * One traversal on the line: one step per call "<path> <flags> <parent> <key|index> <depth>",
 * then "ret <r>".  Several: "T<i> <steps> | ret <r>" (or "T<i> notrun") joined by " || ", in
 * the order of the line; every step has a sixth token, "own" when the call arrived with this
 * traversal's argument, "arg<j>" for the argument of traversal j.  A call is recorded with
 * the traversal whose FUNCTION was called.
 *
 * The node a call is about is identified by POINTER: before the visit the driver walks
 * the trees itself (plain container API, no visitor) and records the path of every
 * non-NULL node; jso and parent_jso are looked up in that table.  A NULL jso (JSON null)
 * has no identity: its path is the parent's path plus the position named by the key or
 * index the callback received.  Every argument is checked for being the real thing: the
 * parent pointer is looked up in the table; jso_key must be the very pointer stored as the key
 * of this member's entry in the parent (else "!kid=0" is appended to the key token) and that
 * entry must hold this node ("!kval=0"); *jso_index must be the position of this node in the
 * parent array ("!idx=0").  Member names longer than 32 bytes are printed as
 * "K<length>.<FNV-1a-64>.<first 8 bytes>.<last 8 bytes>".  Paths are run-length encoded ("/0^1000/1") so that
 * deep trees stay printable. */
#include "common.h"
#include "jvtext.h"
#include "json_visit.h"
const char *DOMAIN = "visit";

/* table of the non-NULL nodes: one entry per node in document order, with the entry of
 * its parent and its position there; `order` = the entries sorted by pointer */
struct ent { struct json_object *o; long parent; size_t pos; size_t depth; };
static struct ent *tab;
static size_t ntab, captab;
static size_t *order;
static size_t *comp;      /* scratch: the components of one path */
static size_t capcomp;

static long tab_add(struct json_object *o, long parent, size_t pos, size_t depth)
{
	if (ntab == captab) {
		captab = captab ? captab * 2 : 64;
		tab = (struct ent *)realloc(tab, captab * sizeof *tab);
	}
	tab[ntab].o = o; tab[ntab].parent = parent; tab[ntab].pos = pos; tab[ntab].depth = depth;
	return (long)ntab++;
}

static int cmp_order(const void *a, const void *b)
{
	uintptr_t x = (uintptr_t)tab[*(const size_t *)a].o, y = (uintptr_t)tab[*(const size_t *)b].o;
	return x < y ? -1 : x > y;
}

/* entry of a node; -1 unknown, -2 the pointer occurs twice */
static long tab_find(struct json_object *o)
{
	size_t lo = 0, hi = ntab;
	while (lo < hi) {
		size_t mid = lo + (hi - lo) / 2;
		if ((uintptr_t)tab[order[mid]].o < (uintptr_t)o) lo = mid + 1; else hi = mid;
	}
	if (lo >= ntab || tab[order[lo]].o != o) return -1;
	if (lo + 1 < ntab && tab[order[lo + 1]].o == o) return -2;
	return (long)order[lo];
}

static void index_tree(struct json_object *o, long parent, size_t pos, size_t depth)
{
	long me;
	if (!o) return;
	me = tab_add(o, parent, pos, depth);
	if (json_object_get_type(o) == json_type_array) {
		size_t i, n = json_object_array_length(o);
		for (i = 0; i < n; i++) index_tree(json_object_array_get_idx(o, i), me, i, depth + 1);
	} else if (json_object_get_type(o) == json_type_object) {
		struct lh_entry *e;
		size_t i = 0;
		for (e = json_object_get_object(o)->head; e; e = e->next, i++)
			index_tree((struct json_object *)lh_entry_v(e), me, i, depth + 1);
	}
}

/* print the path of entry `e` (-1/-2: not a known node), optionally extended by one more
 * component; runs of equal components are written once: "/0^1000/1".  Returns the depth. */
static long put_path(FILE *f, long e, int extend, size_t last)
{
	size_t n, i, k;
	if (e == -1) { fputs("UNKNOWN", f); return -1; }
	if (e == -2) { fputs("AMBIGUOUS", f); return -1; }
	n = (e >= 0 ? tab[e].depth : 0) + (extend ? 1 : 0);
	if (n == 0) { fputc('/', f); return 0; }
	if (n > capcomp) { capcomp = n * 2; comp = (size_t *)realloc(comp, capcomp * sizeof *comp); }
	k = n;
	if (extend) comp[--k] = last;
	for (; e >= 0 && tab[e].parent >= 0; e = tab[e].parent) comp[--k] = tab[e].pos;
	for (i = 0; i < n;) {
		size_t j = i;
		while (j < n && comp[j] == comp[i]) j++;
		if (j - i > 1) fprintf(f, "/%zu^%zu", comp[i], j - i); else fprintf(f, "/%zu", comp[i]);
		i = j;
	}
	return (long)n;
}

/* a member name: "k<hex>" up to 32 bytes, else "K<length>.<FNV-1a 64 of all bytes>.<first 8 bytes>.<last 8 bytes>" */
static void put_key(FILE *f, const char *key)
{
	size_t i, n = strlen(key);
	if (n <= 32) {
		fputc('k', f);
		if (n == 0) fputc('-', f);
		for (i = 0; i < n; i++) fprintf(f, "%02x", (unsigned char)key[i]);
	} else {
		uint64_t h = 0xcbf29ce484222325ull;
		for (i = 0; i < n; i++) { h ^= (unsigned char)key[i]; h *= 0x100000001b3ull; }
		fprintf(f, "K%zu.%016llx.", n, (unsigned long long)h);
		for (i = 0; i < 8; i++) fprintf(f, "%02x", (unsigned char)key[i]);
		fputc('.', f);
		for (i = n - 8; i < n; i++) fprintf(f, "%02x", (unsigned char)key[i]);
	}
}

/* ---- the traversals of one line */
#define MAXT 16
struct trav {
	struct json_object *tree;
	int owns_tree;
	long long *codes;
	size_t ncodes, ncalls;
	int future_flags;
	void *userarg;         /* what is handed to json_c_visit */
	void *heaparg;
	int parent;            /* started by the callback of this traversal … (-1: top level) */
	size_t at;             /* … during its call number `at` */
	int started, ret;
	char *edits;           /* text after "@e", or NULL */
	char *buf; size_t buflen; FILE *out;
};
static struct trav tr[MAXT];
static int ntr;
static json_c_visit_userfunc *cbs[MAXT];

static void start(int i)
{
	tr[i].started = 1;
	tr[i].ret = json_c_visit(tr[i].tree, tr[i].future_flags, cbs[i], tr[i].userarg);
}

static void reindex(void)
{
	size_t i;
	int t;
	ntab = 0;
	for (t = 0; t < ntr; t++) if (tr[t].owns_tree) index_tree(tr[t].tree, -1, 0, 0);
	free(order);
	order = (size_t *)malloc((ntab ? ntab : 1) * sizeof *order);
	for (i = 0; i < ntab; i++) order[i] = i;
	qsort(order, ntab, sizeof *order, cmp_order);
}

/* carry out the edits addressed to the container `jso` (entry e); returns 1 when the tree changed */
static int do_edits(struct trav *me, struct json_object *jso, long e, int second, struct json_object *parent,
                    const char *key)
{
	char path[4096], *all, *item, *save = NULL;
	size_t n = tab[e].depth, k = n, len = 0;
	int changed = 0;
	long x;
	if (n > 500) return 0;
	if (n > capcomp) { capcomp = n * 2; comp = (size_t *)realloc(comp, capcomp * sizeof *comp); }
	for (x = e; x >= 0 && tab[x].parent >= 0; x = tab[x].parent) comp[--k] = tab[x].pos;
	if (n == 0) strcpy(path, "/");
	else for (k = 0; k < n; k++) len += (size_t)snprintf(path + len, sizeof path - len, "/%zu", comp[k]);
	all = strdup(me->edits);
	for (item = strtok_r(all, "&", &save); item; item = strtok_r(NULL, "&", &save)) {
		char *colon = strchr(item, ':'), *op;
		int isarr = json_object_get_type(jso) == json_type_array;
		int isobj = json_object_get_type(jso) == json_type_object;
		if (!colon) continue;
		*colon = 0;
		op = colon + 1;
		if (strcmp(item, path) != 0) continue;
		if (second) {
			if (op[0] == 'S' && parent && key && json_object_get_type(parent) == json_type_object) {
				json_object_object_del(parent, key);      /* frees jso and key: neither is used again */
				changed = 1;
				break;
			}
			continue;
		}
		if (isarr && op[0] == 'd') {
			size_t cnt = (size_t)strtoull(op + 1, NULL, 10), l = json_object_array_length(jso);
			if (cnt > l) cnt = l;
			if (cnt) { json_object_array_del_idx(jso, l - cnt, cnt); changed = 1; }
		} else if (isarr && op[0] == 'D') {
			size_t l = json_object_array_length(jso);
			if (l) { json_object_array_del_idx(jso, 0, l); changed = 1; }
		} else if (isarr && op[0] == 'a') {
			const char *p = op + 1; int err = 0;
			struct json_object *v = jv_parse(&p, &err);
			if (json_object_array_add(jso, v) != 0) json_object_put(v);
			changed = 1;
		} else if (isarr && op[0] == 'r') {
			char *eq = strchr(op, '=');
			size_t i = (size_t)strtoull(op + 1, NULL, 10);
			if (eq && i < json_object_array_length(jso)) {
				const char *p = eq + 1; int err = 0;
				struct json_object *v = jv_parse(&p, &err);
				if (json_object_array_put_idx(jso, i, v) != 0) json_object_put(v);
				changed = 1;
			}
		} else if (isobj && (op[0] == 'A' || op[0] == 'X')) {
			const char *p = op + 1;
			size_t kn;
			unsigned char *key = jv_hexordash(&p, &kn);
			if (op[0] == 'X') { json_object_object_del(jso, (char *)key); changed = 1; }
			else if (*p == '=') {
				int err = 0;
				struct json_object *v;
				p++;
				v = jv_parse(&p, &err);
				if (json_object_object_add(jso, (char *)key, v) != 0) json_object_put(v);
				changed = 1;
			}
			free(key);
		}
	}
	free(all);
	return changed;
}

static int cb_common(int id, struct json_object *jso, int flags, struct json_object *parent,
                     const char *key, size_t *idx, void *arg)
{
	struct trav *me = &tr[id];
	FILE *f = me->out;
	long pe = parent ? tab_find(parent) : -3, depth;
	size_t k;
	int j;
	if (ntr == 1 && arg != me->userarg) fputs("BADARG ", f);
	if (jso) depth = put_path(f, tab_find(jso), 0, 0);
	else if (!parent) {
		if (me->tree) { fputs("UNKNOWN", f); depth = -1; } else { fputc('/', f); depth = 0; }
	} else {
		/* JSON null member or element: locate it through what the callback was told */
		size_t pos = (size_t)-1;
		if (json_object_get_type(parent) == json_type_array && idx) pos = *idx;
		else if (json_object_get_type(parent) == json_type_object && key) {
			struct lh_entry *e;
			size_t i = 0;
			for (e = json_object_get_object(parent)->head; e; e = e->next, i++)
				if (strcmp((const char *)lh_entry_k(e), key) == 0) { pos = i; break; }
		}
		if (pos == (size_t)-1 || pe < 0) { fputs("UNKNOWN", f); depth = -1; }
		else depth = put_path(f, pe, 1, pos);
	}
	fprintf(f, " %d ", flags);
	if (!parent) fputc('-', f);
	else {
		fprintf(f, "%c@", json_object_get_type(parent) == json_type_array ? 'a'
		                  : json_object_get_type(parent) == json_type_object ? 'o' : 'X');
		put_path(f, pe, 0, 0);
	}
	fputc(' ', f);
	if (key && idx) fputs("BOTH", f);
	else if (key) {
		put_key(f, key);
		/* identity: jso_key must be the key pointer of this member's entry in the parent,
		 * and that entry must hold this very node */
		if (parent && json_object_get_type(parent) == json_type_object) {
			struct lh_entry *e = lh_table_lookup_entry(json_object_get_object(parent), key);
			if (!e) fputs("!kid=0:nomember", f);
			else if ((const char *)lh_entry_k(e) != key) fputs("!kid=0", f);
			else if ((struct json_object *)lh_entry_v(e) != jso) fputs("!kval=0", f);
		} else fputs("!kparent=0", f);
	}
	else if (idx) {
		fprintf(f, "i%zu", *idx);
		/* jso_index must be the real index of this node in the real parent */
		if (!parent || json_object_get_type(parent) != json_type_array) fputs("!iparent=0", f);
		else if (*idx >= json_object_array_length(parent) || json_object_array_get_idx(parent, *idx) != jso)
			fputs("!idx=0", f);
	}
	else fputc('-', f);
	fprintf(f, " %ld", depth);
	if (ntr > 1) {
		if (arg == me->userarg) fputs(" own", f);
		else {
			for (j = 0; j < ntr; j++) if (arg == tr[j].userarg) break;
			if (j < ntr) fprintf(f, " arg%d", j); else fputs(" argX", f);
		}
	}
	fputs(" | ", f);
	if (flags == 0 && jso && me->edits && ntr == 1) {
		long e = tab_find(jso);
		if (e >= 0 && do_edits(me, jso, e, 0, parent, key)) reindex();
	} else if (flags == JSON_C_VISIT_SECOND && jso && me->edits && ntr == 1 && strstr(me->edits, ":S")) {
		long e = tab_find(jso);
		if (e >= 0 && do_edits(me, jso, e, 1, parent, key)) reindex();
	}
	k = ++me->ncalls;
	/* the traversals this callback runs before it returns from its k-th call */
	for (j = 0; j < ntr; j++)
		if (tr[j].parent == id && tr[j].at == k && !tr[j].started) start(j);
	return k - 1 < me->ncodes ? (int)me->codes[k - 1] : 0;
}

#define CB(n) static int cb_##n(struct json_object *a, int b, struct json_object *c, const char *d, \
                                size_t *e, void *f) { return cb_common(n, a, b, c, d, e, f); }
CB(0) CB(1) CB(2) CB(3) CB(4) CB(5) CB(6) CB(7) CB(8) CB(9) CB(10) CB(11) CB(12) CB(13) CB(14) CB(15)
static json_c_visit_userfunc *cbs[MAXT] = { cb_0, cb_1, cb_2, cb_3, cb_4, cb_5, cb_6, cb_7,
                                            cb_8, cb_9, cb_10, cb_11, cb_12, cb_13, cb_14, cb_15 };

/* ---- parsing the line */
static char **toks;
static size_t ntoks, curtok;
static int bad;

static void parse_prog(int parent, size_t at)
{
	int id;
	char *t, *q;
	if (bad || ntr >= MAXT || curtok + 1 >= ntoks) { bad = 1; return; }
	id = ntr++;
	memset(&tr[id], 0, sizeof tr[id]);
	tr[id].parent = parent; tr[id].at = at;
	t = toks[curtok++];
	if (strcmp(t, "=") == 0) {
		if (parent < 0) { bad = 1; return; }
		tr[id].tree = tr[parent].tree;
	} else {
		const char *p = t;
		int err = 0;
		tr[id].tree = jv_parse(&p, &err);
		tr[id].owns_tree = 1;
		if (err || *p) { bad = 1; return; }
	}
	q = toks[curtok++];
	tr[id].codes = (long long *)malloc((strlen(q) + 1) * sizeof(long long));
	tr[id].userarg = (void *)&tr[id];
	{
		char *opt = strchr(q, '@');
		while (opt) {
			char *next = strchr(opt + 1, '@');
			*opt = 0;
			if (next) *next = 0;
			if (opt[1] == 'f') tr[id].future_flags = (int)strtoll(opt + 2, NULL, 10);
			else if (opt[1] == 'e') tr[id].edits = strdup(opt + 2);
			else if (opt[1] == 'a') {
				switch (atoi(opt + 2)) {
				case 0: break;
				case 1: tr[id].userarg = NULL; break;
				case 2: tr[id].heaparg = (malloc)(1); tr[id].userarg = tr[id].heaparg; break;
				case 3: tr[id].userarg = (void *)tr[id].tree; break;
				case 4: tr[id].userarg = (void *)(uintptr_t)1; break;
				default: bad = 1;
				}
			} else bad = 1;
			if (next) *next = '@';
			opt = next;
		}
	}
	if (strcmp(q, "-") != 0) {
		for (;;) {
			char *e;
			tr[id].codes[tr[id].ncodes++] = strtoll(q, &e, 10);
			if (*e != ',') break;
			q = e + 1;
		}
	}
	while (!bad && curtok < ntoks && strcmp(toks[curtok], "(") == 0) {
		size_t k;
		curtok++;
		if (curtok >= ntoks) { bad = 1; return; }
		k = (size_t)strtoull(toks[curtok++], NULL, 10);
		parse_prog(id, k);
		if (bad || curtok >= ntoks || strcmp(toks[curtok], ")") != 0) { bad = 1; return; }
		curtok++;
	}
}

void run_case(char *rest)
{
	size_t i, cap = 8;
	int t;
	char *save = NULL, *w;
	toks = (char **)malloc(cap * sizeof *toks);
	ntoks = curtok = 0; ntr = 0; bad = 0; ntab = 0;
	for (w = strtok_r(rest, " ", &save); w; w = strtok_r(NULL, " ", &save)) {
		if (ntoks == cap) { cap *= 2; toks = (char **)realloc(toks, cap * sizeof *toks); }
		toks[ntoks++] = w;
	}
	xa_reset();
	parse_prog(-1, 0);
	while (!bad && curtok < ntoks && strcmp(toks[curtok], ";") == 0) { curtok++; parse_prog(-1, 0); }
	if (bad || curtok != ntoks) printf("BADLINE");
	else {
		for (t = 0; t < ntr; t++) {
			tr[t].out = open_memstream(&tr[t].buf, &tr[t].buflen);
		}
		order = NULL;
		reindex();
		fflush(stderr);
		{	/* the library reports invalid codes on stderr: keep the log quiet */
			FILE *old = stderr;
			static FILE *devnull;
			if (!devnull) devnull = fopen("/dev/null", "w");
			if (devnull) stderr = devnull;
			for (t = 0; t < ntr; t++) if (tr[t].parent < 0) start(t);
			stderr = old;
		}
		for (t = 0; t < ntr; t++) {
			fclose(tr[t].out);
			if (ntr > 1) printf("%sT%d ", t ? " || " : "", t);
			if (!tr[t].started) printf("notrun");
			else { fputs(tr[t].buf, stdout); printf("ret %d", tr[t].ret); }
			free(tr[t].buf);
		}
		free(order);
	}
	for (t = 0; t < ntr; t++) {
		if (tr[t].owns_tree) json_object_put(tr[t].tree);
		free(tr[t].codes);
		(free)(tr[t].heaparg);
		free(tr[t].edits);
	}
	ntab = 0;
	free(toks);
	if (xa_live != 0) printf(" | LEAK %ld", xa_live);
}
