/* drv_visit.c — visitor domain (C17).  Same script and observation format as
 * ocaml/drv_visit.ml:  "<tree in jvtext> <schedule>", schedule = "-" or comma-separated
 * ints returned by the callback for the 1st, 2nd, … call (0 = CONTINUE afterwards).
 * One step per call: "<path> <flags> <parent> <key|index> <depth>", then "ret <r>".
 *
 * The node a call is about is identified by POINTER: before the visit the driver walks
 * the tree itself (plain container API, no visitor) and records the path of every
 * non-NULL node; jso and parent_jso are looked up in that table.  A NULL jso (JSON null)
 * has no identity: its path is the parent's path plus the position named by the key or
 * index the callback received.  Paths are run-length encoded ("/0^1000/1") so that
 * deep trees stay printable. */
#include "common.h"
#include "jvtext.h"
#include "json_visit.h"
const char *DOMAIN = "visit";

/* table of the non-NULL nodes: one entry per node in document order, with the entry of
 * its parent and its position there; `order` = the entries sorted by pointer */
struct ent { struct json_object *o; long parent; size_t pos; size_t depth; };
static struct ent *tab;
static size_t ntab, captab;
static size_t *order;
static size_t *comp;      /* scratch: the components of one path */
static size_t capcomp;

static long tab_add(struct json_object *o, long parent, size_t pos, size_t depth)
{
	if (ntab == captab) {
		captab = captab ? captab * 2 : 64;
		tab = (struct ent *)realloc(tab, captab * sizeof *tab);
	}
	tab[ntab].o = o; tab[ntab].parent = parent; tab[ntab].pos = pos; tab[ntab].depth = depth;
	return (long)ntab++;
}

static int cmp_order(const void *a, const void *b)
{
	uintptr_t x = (uintptr_t)tab[*(const size_t *)a].o, y = (uintptr_t)tab[*(const size_t *)b].o;
	return x < y ? -1 : x > y;
}

/* entry of a node; -1 unknown, -2 the pointer occurs twice */
static long tab_find(struct json_object *o)
{
	size_t lo = 0, hi = ntab;
	while (lo < hi) {
		size_t mid = lo + (hi - lo) / 2;
		if ((uintptr_t)tab[order[mid]].o < (uintptr_t)o) lo = mid + 1; else hi = mid;
	}
	if (lo >= ntab || tab[order[lo]].o != o) return -1;
	if (lo + 1 < ntab && tab[order[lo + 1]].o == o) return -2;
	return (long)order[lo];
}

static void index_tree(struct json_object *o, long parent, size_t pos, size_t depth)
{
	long me;
	if (!o) return;
	me = tab_add(o, parent, pos, depth);
	if (json_object_get_type(o) == json_type_array) {
		size_t i, n = json_object_array_length(o);
		for (i = 0; i < n; i++) index_tree(json_object_array_get_idx(o, i), me, i, depth + 1);
	} else if (json_object_get_type(o) == json_type_object) {
		struct lh_entry *e;
		size_t i = 0;
		for (e = json_object_get_object(o)->head; e; e = e->next, i++)
			index_tree((struct json_object *)lh_entry_v(e), me, i, depth + 1);
	}
}

/* print the path of entry `e` (-1/-2: not a known node), optionally extended by one more
 * component; runs of equal components are written once: "/0^1000/1".  Returns the depth. */
static long put_path(long e, int extend, size_t last)
{
	size_t n, i, k;
	if (e == -1) { printf("UNKNOWN"); return -1; }
	if (e == -2) { printf("AMBIGUOUS"); return -1; }
	n = (e >= 0 ? tab[e].depth : 0) + (extend ? 1 : 0);
	if (n == 0) { putchar('/'); return 0; }
	if (n > capcomp) { capcomp = n * 2; comp = (size_t *)realloc(comp, capcomp * sizeof *comp); }
	k = n;
	if (extend) comp[--k] = last;
	for (; e >= 0 && tab[e].parent >= 0; e = tab[e].parent) comp[--k] = tab[e].pos;
	for (i = 0; i < n;) {
		size_t j = i;
		while (j < n && comp[j] == comp[i]) j++;
		if (j - i > 1) printf("/%zu^%zu", comp[i], j - i); else printf("/%zu", comp[i]);
		i = j;
	}
	return (long)n;
}

static struct json_object *root;
static long long *codes;
static size_t ncodes, ncalls;

static int cb(struct json_object *jso, int flags, struct json_object *parent, const char *key,
              size_t *idx, void *arg)
{
	long pe = parent ? tab_find(parent) : -3, depth;
	if (arg != (void *)&ncalls) printf("BADARG ");
	if (jso) depth = put_path(tab_find(jso), 0, 0);
	else if (!parent) {
		if (root) { printf("UNKNOWN"); depth = -1; } else { putchar('/'); depth = 0; }
	} else {
		/* JSON null member or element: locate it through what the callback was told */
		size_t pos = (size_t)-1;
		if (json_object_get_type(parent) == json_type_array && idx) pos = *idx;
		else if (json_object_get_type(parent) == json_type_object && key) {
			struct lh_entry *e;
			size_t i = 0;
			for (e = json_object_get_object(parent)->head; e; e = e->next, i++)
				if (strcmp((const char *)lh_entry_k(e), key) == 0) { pos = i; break; }
		}
		if (pos == (size_t)-1 || pe < 0) { printf("UNKNOWN"); depth = -1; }
		else depth = put_path(pe, 1, pos);
	}
	printf(" %d ", flags);
	if (!parent) printf("-");
	else {
		printf("%c@", json_object_get_type(parent) == json_type_array ? 'a'
		              : json_object_get_type(parent) == json_type_object ? 'o' : 'X');
		put_path(pe, 0, 0);
	}
	putchar(' ');
	if (key && idx) printf("BOTH");
	else if (key) { putchar('k'); puthex((const unsigned char *)key, strlen(key)); }
	else if (idx) printf("i%zu", *idx);
	else putchar('-');
	printf(" %ld | ", depth);
	ncalls++;
	return ncalls - 1 < ncodes ? (int)codes[ncalls - 1] : 0;
}

void run_case(char *rest)
{
	char *sp = strchr(rest, ' ');
	const char *p;
	int err = 0, ret;
	size_t i;
	if (!sp) { printf("BADLINE"); return; }
	*sp = 0;
	/* schedule */
	ncodes = 0; ncalls = 0;
	codes = (long long *)malloc((strlen(sp + 1) + 1) * sizeof *codes);
	if (strcmp(sp + 1, "-") != 0) {
		char *q = sp + 1;
		for (;;) {
			char *e;
			codes[ncodes++] = strtoll(q, &e, 10);
			if (*e != ',') break;
			q = e + 1;
		}
	}
	xa_reset();
	p = rest;
	root = jv_parse(&p, &err);
	if (err || *p) { printf("BADTREE"); json_object_put(root); free(codes); return; }
	ntab = 0;
	index_tree(root, -1, 0, 0);
	order = (size_t *)malloc((ntab ? ntab : 1) * sizeof *order);
	for (i = 0; i < ntab; i++) order[i] = i;
	qsort(order, ntab, sizeof *order, cmp_order);
	fflush(stderr);
	{	/* the library reports invalid codes on stderr: keep the log quiet */
		FILE *old = stderr;
		static FILE *devnull;
		if (!devnull) devnull = fopen("/dev/null", "w");
		if (devnull) stderr = devnull;
		ret = json_c_visit(root, 0, cb, (void *)&ncalls);
		stderr = old;
	}
	printf("ret %d", ret);
	json_object_put(root);
	free(order);
	ntab = 0;
	free(codes);
	if (xa_live != 0) printf(" | LEAK %ld", xa_live);
}
