/* drv_visit.c — visitor domain (C17).  Same script and observation format as
 * ocaml/drv_visit.ml:  "<tree in jvtext> <schedule>", schedule = "-" or comma-separated
 * ints returned by the callback for the 1st, 2nd, … call (0 = CONTINUE afterwards).
 * One step per call: "<path> <flags> <parent> <key|index> <depth>", then "ret <r>".
 *
 * The node a call is about is identified by POINTER: before the visit the driver walks
 * the tree itself (plain container API, no visitor) and records the path of every
 * non-NULL node; jso and parent_jso are looked up in that table.  A NULL jso (JSON null)
 * has no identity: its path is the parent's path plus the position named by the key or
 * index the callback received. */
#include "common.h"
#include "jvtext.h"
#include "json_visit.h"
const char *DOMAIN = "visit";

struct ent { struct json_object *o; char *path; };
static struct ent *tab;
static size_t ntab, captab;

static void tab_add(struct json_object *o, const char *path)
{
	if (ntab == captab) {
		captab = captab ? captab * 2 : 64;
		tab = (struct ent *)realloc(tab, captab * sizeof *tab);
	}
	tab[ntab].o = o;
	tab[ntab].path = strdup(path);
	ntab++;
}

static const char *tab_find(struct json_object *o)
{
	size_t i;
	const char *found = NULL;
	for (i = 0; i < ntab; i++)
		if (tab[i].o == o) {
			if (found) return "AMBIGUOUS";
			found = tab[i].path;
		}
	return found ? found : "UNKNOWN";
}

static void child_path(char *out, size_t cap, const char *parent, size_t pos)
{
	if (strcmp(parent, "/") == 0) snprintf(out, cap, "/%zu", pos);
	else snprintf(out, cap, "%s/%zu", parent, pos);
}

static void index_tree(struct json_object *o, const char *path)
{
	char *sub;
	size_t cap = strlen(path) + 32;
	if (!o) return;
	tab_add(o, path);
	sub = (char *)malloc(cap);
	if (json_object_get_type(o) == json_type_array) {
		size_t i, n = json_object_array_length(o);
		for (i = 0; i < n; i++) {
			child_path(sub, cap, path, i);
			index_tree(json_object_array_get_idx(o, i), sub);
		}
	} else if (json_object_get_type(o) == json_type_object) {
		struct lh_entry *e;
		size_t i = 0;
		for (e = json_object_get_object(o)->head; e; e = e->next, i++) {
			child_path(sub, cap, path, i);
			index_tree((struct json_object *)lh_entry_v(e), sub);
		}
	}
	free(sub);
}

static int depth_of(const char *path)
{
	int d = 0;
	const char *p;
	if (strcmp(path, "/") == 0) return 0;
	if (path[0] != '/') return -1;
	for (p = path; *p; p++) if (*p == '/') d++;
	return d;
}

static struct json_object *root;
static long long *codes;
static size_t ncodes, ncalls;

static int cb(struct json_object *jso, int flags, struct json_object *parent, const char *key,
              size_t *idx, void *arg)
{
	char buf[64];
	char *nullpath = NULL;
	const char *path, *ppath = NULL;
	if (arg != (void *)&ncalls) printf("BADARG ");
	if (parent) ppath = tab_find(parent);
	if (jso) path = tab_find(jso);
	else if (!parent) path = root ? "UNKNOWN" : "/";
	else {
		/* JSON null member or element: locate it through what the callback was told */
		size_t cap = strlen(ppath) + 32, pos = (size_t)-1;
		if (json_object_get_type(parent) == json_type_array && idx) pos = *idx;
		else if (json_object_get_type(parent) == json_type_object && key) {
			struct lh_entry *e;
			size_t i = 0;
			for (e = json_object_get_object(parent)->head; e; e = e->next, i++)
				if (strcmp((const char *)lh_entry_k(e), key) == 0) { pos = i; break; }
		}
		nullpath = (char *)malloc(cap);
		if (pos == (size_t)-1) strcpy(nullpath, "UNKNOWN");
		else child_path(nullpath, cap, ppath, pos);
		path = nullpath;
	}
	printf("%s %d ", path, flags);
	if (!parent) printf("-");
	else printf("%c@%s", json_object_get_type(parent) == json_type_array ? 'a'
	                     : json_object_get_type(parent) == json_type_object ? 'o' : 'X', ppath);
	putchar(' ');
	if (key && idx) printf("BOTH");
	else if (key) { putchar('k'); puthex((const unsigned char *)key, strlen(key)); }
	else if (idx) { snprintf(buf, sizeof buf, "i%zu", *idx); fputs(buf, stdout); }
	else putchar('-');
	printf(" %d | ", depth_of(path));
	free(nullpath);
	ncalls++;
	return ncalls - 1 < ncodes ? (int)codes[ncalls - 1] : 0;
}

void run_case(char *rest)
{
	char *sp = strchr(rest, ' ');
	const char *p;
	int err = 0, ret;
	size_t i;
	if (!sp) { printf("BADLINE"); return; }
	*sp = 0;
	/* schedule */
	ncodes = 0; ncalls = 0;
	codes = (long long *)malloc((strlen(sp + 1) + 1) * sizeof *codes);
	if (strcmp(sp + 1, "-") != 0) {
		char *q = sp + 1;
		for (;;) {
			char *e;
			codes[ncodes++] = strtoll(q, &e, 10);
			if (*e != ',') break;
			q = e + 1;
		}
	}
	xa_reset();
	p = rest;
	root = jv_parse(&p, &err);
	if (err || *p) { printf("BADTREE"); json_object_put(root); free(codes); return; }
	ntab = 0;
	index_tree(root, "/");
	fflush(stderr);
	{	/* the library reports invalid codes on stderr: keep the log quiet */
		FILE *old = stderr;
		static FILE *devnull;
		if (!devnull) devnull = fopen("/dev/null", "w");
		if (devnull) stderr = devnull;
		ret = json_c_visit(root, 0, cb, (void *)&ncalls);
		stderr = old;
	}
	printf("ret %d", ret);
	json_object_put(root);
	for (i = 0; i < ntab; i++) free(tab[i].path);
	ntab = 0;
	free(codes);
	if (xa_live != 0) printf(" | LEAK %ld", xa_live);
}
