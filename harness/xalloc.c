/* xalloc.c — the allocator the library objects are compiled against
 * (-Dmalloc=xmalloc …): counts, limits, and single-fault injection.  Compiled WITHOUT
 * the renames, so it calls the real (ASan) allocator. */
#include <errno.h>
#include <stdlib.h>
#include <string.h>
long xa_fail_at = -1;
long xa_count = 0;
long xa_live = 0;
size_t xa_limit = 0;
int xa_failed = 0;
void xa_reset(void) { xa_fail_at = -1; xa_count = 0; xa_limit = 0; xa_failed = 0; }
/* pointer set: only blocks handed out here count as live (vasprintf & co. allocate
 * behind our back and are released through the renamed free) */
static void **tab;
static size_t tabsz, tabn;
static size_t slot(void *p) { return (((size_t)p) >> 4) * 11400714819323198485ull % tabsz; }
static void tab_put(void *p);
static void tab_grow(void)
{
	void **old = tab; size_t osz = tabsz, i; long keep = xa_live;
	tabsz = tabsz ? tabsz * 2 : 4096; tabn = 0;
	tab = (void **)calloc(tabsz, sizeof(void *));
	for (i = 0; i < osz; i++) if (old[i] && old[i] != (void *)1) tab_put(old[i]);
	free(old);
	xa_live = keep;
}
static void tab_put(void *p)
{
	size_t i;
	if (!p) return;
	if ((tabn + 1) * 2 > tabsz) tab_grow();
	for (i = slot(p); tab[i] && tab[i] != (void *)1; i = (i + 1) % tabsz) ;
	tab[i] = p; tabn++; xa_live++;
}
static int tab_del(void *p)
{
	size_t i;
	if (!p || !tabsz) return 0;
	for (i = slot(p); tab[i]; i = (i + 1) % tabsz)
		if (tab[i] == p) { tab[i] = (void *)1; xa_live--; return 1; }
	return 0;
}
static int deny(size_t n)
{
	long k = xa_count++;
	if ((xa_fail_at >= 0 && k == xa_fail_at) || (xa_limit && n > xa_limit)) {
		xa_failed = 1;
		errno = ENOMEM;
		return 1;
	}
	return 0;
}
void *xmalloc(size_t n)
{
	void *p;
	if (deny(n)) return NULL;
	p = malloc(n);
	tab_put(p);
	return p;
}
void *xcalloc(size_t a, size_t b)
{
	void *p;
	if (deny(a * b)) return NULL;
	p = calloc(a, b);
	tab_put(p);
	return p;
}
void *xrealloc(void *q, size_t n)
{
	void *p;
	if (deny(n)) return NULL;
	if (q && n) { int mine = tab_del(q); p = realloc(q, n); if (p) { if (mine) tab_put(p); } else if (mine) tab_put(q); return p; }
	p = realloc(q, n);
	tab_put(p);
	return p;
}
char *xstrdup(const char *s)
{
	char *p;
	if (deny(strlen(s) + 1)) return NULL;
	p = strdup(s);
	tab_put(p);
	return p;
}
void xfree(void *p)
{
	tab_del(p);
	free(p);
}
