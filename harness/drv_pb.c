/* drv_pb.c — print-buffer domain (C19).  Same script and observation format as
 * ocaml/drv_pb.ml. */
#include "common.h"
#include "printbuf.h"
const char *DOMAIN = "pb";

static void obs(struct printbuf *p, long ret, int err)
{
	printf("%ld %s %d %d ", ret, ret < 0 ? errno_name(err) : "0", p->bpos, p->size);
	puthex((unsigned char *)p->buf, p->bpos > 0 ? (size_t)p->bpos : 0);
	printf(" %d", (p->bpos < p->size && p->buf[p->bpos] == 0) ? 1 : 0);
}

/* T<n>: two threads, each formatting n short texts into its OWN print buffer at the same time; every
 * buffer must hold exactly what its thread wrote (sprintbuf keeps no state between or across calls) */
#include <pthread.h>
struct tw { int id; long n; long bad; struct printbuf *p; };   /* buffers are made and freed by the main thread: the accounting allocator is single-threaded */
static void *tw_run(void *arg)
{
	struct tw *w = (struct tw *)arg;
	struct printbuf *p = w->p;
	char pat[16], want[64];
	long i;
	memset(pat, 'a' + w->id, 8); pat[8] = 0;
	for (i = 0; i < w->n && p; i++) {
		int len, ret;
		printbuf_reset(p);
		ret = sprintbuf(p, "%c:%s=%ld", 'a' + w->id, pat, i);
		len = snprintf(want, sizeof want, "%c:%s=%ld", 'a' + w->id, pat, i);
		if (ret != len || p->bpos != len || memcmp(p->buf, want, (size_t)len + 1) != 0) w->bad++;
	}
	return NULL;
}

void run_case(char *rest)
{
	char *sp = strchr(rest, ' ');
	char *ops, *tok, *save = NULL;
	struct printbuf *p;
	int first = 1;
	if (!sp) { printf("BADLINE"); return; }
	*sp = 0;
	ops = sp + 1;
	xa_reset();
	p = printbuf_new();
	xa_limit = (size_t)strtoull(rest, NULL, 10);
	for (tok = strtok_r(ops, ";", &save); tok; tok = strtok_r(NULL, ";", &save)) {
		long ret = 0;
		int err;
		if (!first) printf(" | ");
		first = 0;
		errno = 0;
		switch (tok[0]) {
		case 'A': {
			size_t n; unsigned char *b = unhex(tok + 1, &n);
			ret = printbuf_memappend(p, (char *)b, (int)n);
			err = errno; (free)(b); break; }
		case 'N': {
			char *comma = strchr(tok, ',');
			size_t n; unsigned char *b; long long sz;
			*comma = 0; b = unhex(tok + 1, &n); sz = strtoll(comma + 1, NULL, 10);
			ret = printbuf_memappend(p, (char *)b, (int)sz);
			err = errno; (free)(b); break; }
		case 'S': {
			long long o, c, l; sscanf(tok + 1, "%lld,%lld,%lld", &o, &c, &l);
			ret = printbuf_memset(p, (int)o, (int)c, (int)l);
			err = errno; break; }
		case 'F': {
			size_t n; unsigned char *b = unhex(tok + 1, &n);
			char *z = (char *)(malloc)(n + 1);
			memcpy(z, b, n); z[n] = 0;
			ret = sprintbuf(p, "%s", z);
			err = errno; (free)(b); (free)(z); break; }
		case 'G': {
			/* formatted output that may contain NUL bytes: the bytes are cut at (up to
			 * three) NULs and printed with "%s%c%s%c%s%c%s"; unused pieces are empty and
			 * printed with "%.0s"-free formats chosen by the number of NULs */
			size_t n, i, k = 0; unsigned char *b = unhex(tok + 1, &n);
			char *z = (char *)(malloc)(n + 1);
			char *piece[4];
			memcpy(z, b, n); z[n] = 0;
			piece[0] = z;
			for (i = 0; i < n && k < 3; i++)
				if (z[i] == 0) piece[++k] = z + i + 1;
			switch (k) {
			case 0: ret = sprintbuf(p, "%s", piece[0]); break;
			case 1: ret = sprintbuf(p, "%s%c%s", piece[0], 0, piece[1]); break;
			case 2: ret = sprintbuf(p, "%s%c%s%c%s", piece[0], 0, piece[1], 0, piece[2]); break;
			default: ret = sprintbuf(p, "%s%c%s%c%s%c%s", piece[0], 0, piece[1], 0, piece[2], 0, piece[3]); break;
			}
			err = errno; (free)(b); (free)(z); break; }
		case 'T': {
			pthread_t th[2]; struct tw w[2]; int k;
			for (k = 0; k < 2; k++) { w[k].id = k; w[k].n = atol(tok + 1); w[k].bad = 0; w[k].p = printbuf_new(); }
			for (k = 0; k < 2; k++) pthread_create(&th[k], NULL, tw_run, &w[k]);
			for (k = 0; k < 2; k++) pthread_join(th[k], NULL);
			for (k = 0; k < 2; k++) if (w[k].p) printbuf_free(w[k].p);
			printf("threads %ld", w[0].bad + w[1].bad);
			continue; }
		case 'X':
			/* the arguments point into the print buffer itself (only generated right after an append, when
			 * the contents are NUL-terminated) */
			ret = sprintbuf(p, "<%s|%d|%s>", p->buf, atoi(tok + 1), p->buf);
			err = errno; break;
		case 'R':
			printbuf_reset(p); ret = 0; err = 0; break;
		default: printf("BADOP"); printbuf_free(p); return;
		}
		obs(p, ret, err);
	}
	printbuf_free(p);
	if (xa_live != 0) printf(" | LEAK %ld", xa_live);
}
