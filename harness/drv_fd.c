/* drv_fd.c — descriptor I/O domain (C20).  Same script and observation format as
 * ocaml/drv_fd.ml.  json_util.c is compiled INTO this unit with its read()/write()/
 * open()/close() calls redirected to scripted stubs and its one json_tokener_parse_ex
 * call routed through a recording wrapper (no source hook).
 *
 * schedule = '-' | item(,item)* ; item = E (the call fails with EIO) | E:<errno name> (fails with
 *   that errno: EINTR, EAGAIN, EBADF, ENOSPC, EPIPE, ..., "0" = errno left untouched) | <n> | <n>*<k>
 *   the k-th call transfers min(n, requested, left) bytes; after the listed entries every
 *   further call transfers everything requested.
 * lines (each may start with "@<n>": the descriptor number used by the line, default 77 — any
 * number >= 0 is a descriptor, -1 is the only failure value of open()):
 *   W <tree> <flags> <sched> <serhex>      json_object_to_fd
 *      -> W <rc> <msg> <writes> <delivered> <ser> <leak>
 *   R <hexdoc> <depth|fd> <sched>          json_object_from_fd_ex (depth "fd": json_object_from_fd)
 *      -> R <result|NULL> <msg> <reads> <pcalls> <pdepth> <pbuf> <ref|NULL|NONEW> <referr> <leak>
 *   F R <open> <hexdoc> <sched>            json_object_from_file; <open> = 1: open() succeeds, 0: fails
 *                                          with ENOENT, an errno name: fails with that errno
 *      -> FR <the R fields up to referr> <opens> <closes> <leak>
 *   F W|w <open> <tree> <flags> <sched> <serhex>   json_object_to_file_ext | json_object_to_file
 *      -> FW <rc> <msg> <writes> <delivered> <ser> <opens> <closes> <leak>
 *   P <init> <step>;<step>...              a history on an in-memory FILE SYSTEM: open() honours
 *        init = '-' | <c>=<hex|->,...      O_CREAT / O_EXCL / O_TRUNC / O_APPEND and the access mode as the
 *        step = w/<c>/<tree>/<flags>/<sched>/<serhex>   kernel does; <c> is a one-letter path
 *             | v/<c>/<tree>/0/<sched>/<serhex>         w: json_object_to_file_ext, v: json_object_to_file
 *             | r/<c>/<sched>                           r: json_object_from_file
 *      -> per step, joined by " | ":
 *         w <rc> <msg> <writes> <opens> <closes> <oflags> <file>
 *         r <result|NULL> <msg> <reads> <pcalls> <pdepth> <pbuf> <ref|NULL|ABSENT> <referr> <opens> <closes> <oflags> <file>
 *         end <leak> <c>=<hex|->,...|-       (the whole file system, in creation order)
 *      <oflags>: what the library passed to open(): R|W|B (access) then C T A X for O_CREAT O_TRUNC
 *      O_APPEND O_EXCL, '-' if open() was not called; <file>: the path's contents after the step
 *      (hex, '-' empty, ABSENT); ref: the in-memory parse of the contents before the step
 *   N <r|w|v> <o|x> <errno name> <hexname>  the failure REPORT for an arbitrary file name: json_object_from_file |
 *                                          json_object_to_file_ext | json_object_to_file on the path <hexname>;
 *                                          o: open() fails with the errno; x: open() succeeds and the first
 *                                          read()/write() fails with it (the tree written is `true`)
 *      -> N <NULL|TREE|rc> <msg> <term> <name> <serr> <calls> <opens> <closes> <leak>
 *      term: the message is NUL-terminated inside its 256-byte buffer; name: it contains the file name verbatim,
 *      or, when the message fills the buffer, ends in a prefix of it ('-' where the report has no file name: read
 *      errors name the descriptor); serr: it contains the strerror text of the scripted errno (or fills the buffer).
 *      The message text itself is never printed.
 *   DR <r|b|a|w> <hexfile> <offset> <depth|fd> <sched>   json_object_from_fd_ex / json_object_from_fd on a descriptor
 *                                          the CALLER opened (read-only | read-write | read-write O_APPEND |
 *                                          write-only) and left standing at <offset> of a regular file
 *      -> DR <the R fields up to referr> <endoff> <=|CHANGED> <leak>     ref: the two-step parse of file[offset:];
 *                                          endoff: where the descriptor stands afterwards; =: the file is untouched
 *   DW <w|b|a|r> <hexold> <offset> <tree> <flags> <sched> <serhex>   json_object_to_fd likewise
 *      -> DW <rc> <msg> <writes> <delivered> <ser> <endoff> <file> <leak>
 *   Every line: lseek / pread / pwrite / fstat / ftruncate / fsync / fdatasync / dup / dup2 / fcntl / readv /
 *   writev / mmap / fdopen / posix_fadvise of json_util.c are redirected to recording stubs (lseek, pread, fstat,
 *   ftruncate, fsync behave as on a regular file); any such call appends " OTHER:<name>+<name>...".
 *   Every open() request is compared with the documented one (reading: O_RDONLY and nothing else; writing:
 *   O_WRONLY | O_TRUNC | O_CREAT, mode 0644); the first that differs appends " FLAGS:<hex flags>/<octal mode>".
 *   S <tree> <flags>                       serialization only (used by the generator)
 *      -> S <ser>
 * msg: json_util_get_last_err() != NULL after the call (the message is cleared before it);
 * pcalls/pdepth/pbuf: number of json_tokener_parse_ex calls made by json_util.c (1, or 2 when the
 * first ended in json_tokener_continue without a value and the terminating NUL was handed over;
 * a '!' is appended when a second call was not "same tokener, the one byte 0 right behind the
 * first call's bytes"), max_depth of the tokener and the bytes handed to the first;
 * ref/referr: the same two-step parse of the same bytes from memory with a tokener of the
 * configured depth — referr is e<final error>c<number of calls>; <ser>: a plain
 * json_object_to_json_string_ext(tree, flags) taken before the call; leak: live allocations
 * after everything was released minus those at the start.  A stub called with a descriptor
 * other than the one in play appends " BADFD". */
// EXCLUDE: json_util.c
// RENAME-ALLOC
#include "common.h"
#include "jvtext.h"

#include "config.h"
#include "strerror_override.h"
#include <limits.h>
#include <stdarg.h>
#include <stddef.h>
#include <stdio.h>
#include <stdlib.h>
#include <string.h>
#include <sys/types.h>
#include <sys/stat.h>
#include <fcntl.h>
#include <unistd.h>
#include <sys/uio.h>
#include <sys/mman.h>
#include "snprintf_compat.h"
#include "debug.h"
#include "json_inttypes.h"
#include "json_object.h"
#include "json_tokener.h"
#include "json_util.h"
#include "printbuf.h"

const char *DOMAIN = "fd";

/* documents of thousands of nodes are built and released twice per case: with ASan's default
 * 256 MB quarantine the process only ever touches fresh pages and spends its time in page
 * faults; 16 MB still holds every block a case frees.  ASAN_OPTIONS overrides this.
 * symbolize=0: a wild read/write provoked by a hostile file name is reported by its kind
 * (that is all the framework reads); resolving the stack costs seconds per crash and a
 * broken tree can crash on dozens of lines.  Replay by hand with ASAN_OPTIONS=symbolize=1. */
const char *__asan_default_options(void) { return "quarantine_size_mb=16:symbolize=0"; }

/* the descriptor number in play: what the scripted open() hands out and what the caller-provided
 * descriptors of from_fd/from_fd_ex/to_fd are; a line may choose it with a leading "@<n>" token
 * (0, 1, 2 need not be the real stdio descriptors: read/write/close are keyed by number here) */
static int the_fd = 77;
#define THE_FD (the_fd)

static struct {
	const unsigned char *data; size_t len, pos;     /* what is behind the descriptor (reads) */
	unsigned char *dev; size_t devlen, devcap;      /* what the descriptor received (writes) */
	int devoverflow;
	const char *sched; long rep_n, rep_left;
	long reads, writes, opens, closes, badfd;
	int open_ok, open_errno, fail_errno;
	int fsmode, file, rd, wr, app; size_t off; int oflags, oflags_seen;
	long pcalls; int pdepth; unsigned char *pbuf; size_t plen;
	struct json_tokener *ptok; const char *pstr; int p2bad;
	int modes;                                      /* rd/wr/app of the descriptor are in force */
	unsigned char *fbuf; size_t flen, fcap, wpos; int dw;   /* DW: the file behind the descriptor */
	unsigned other;                                 /* calls other than read/write/open/close */
} vf;

static int errno_of(const char *name, size_t n)
{
	static const struct { const char *n; int e; } tab[] = {
		{"EIO", EIO}, {"EINTR", EINTR}, {"EAGAIN", EAGAIN}, {"EBADF", EBADF}, {"ENOSPC", ENOSPC},
		{"EPIPE", EPIPE}, {"EACCES", EACCES}, {"EMFILE", EMFILE}, {"ENOENT", ENOENT}, {"EISDIR", EISDIR},
		{"EFBIG", EFBIG}, {"EDQUOT", EDQUOT}, {"EINVAL", EINVAL}, {"ENOMEM", ENOMEM}, {"EWOULDBLOCK", EWOULDBLOCK},
		{"ENOTDIR", ENOTDIR}, {"ENAMETOOLONG", ENAMETOOLONG}, {"EROFS", EROFS}, {"ELOOP", ELOOP}, {"0", 0}};
	size_t i;
	for (i = 0; i < sizeof(tab) / sizeof(tab[0]); i++)
		if (strlen(tab[i].n) == n && memcmp(tab[i].n, name, n) == 0) return tab[i].e;
	return EIO;
}

/* next schedule entry: -1 error (vf.fail_errno set), -2 exhausted (transfer all), else the size */
static long sched_next(void)
{
	char *e;
	long n, k = 1;
	if (vf.rep_left > 0) { vf.rep_left--; return vf.rep_n; }
	if (!vf.sched || !*vf.sched || *vf.sched == '-') return -2;
	if (*vf.sched == 'E') {
		vf.sched++;
		vf.fail_errno = EIO;
		if (*vf.sched == ':') {
			size_t n = strcspn(++vf.sched, ",");
			vf.fail_errno = errno_of(vf.sched, n);
			vf.sched += n;
		}
		if (*vf.sched == ',') vf.sched++;
		return -1;
	}
	n = strtol(vf.sched, &e, 10);
	if (*e == '*') k = strtol(e + 1, &e, 10);
	if (*e == ',') e++;
	vf.sched = e;
	vf.rep_n = n;
	vf.rep_left = k - 1;
	return n;
}

/* the in-memory file system of the P lines (survives vf_reset between the steps of a line) */
#define NFILES 8
static struct { char name; int used; unsigned char *data; size_t len, cap; } vfs[NFILES];
static int vfs_n;

static int vfs_find(char name)
{
	int i;
	for (i = 0; i < vfs_n; i++) if (vfs[i].used && vfs[i].name == name) return i;
	return -1;
}
static int vfs_create(char name)
{
	if (vfs_n >= NFILES) return -1;
	vfs[vfs_n].name = name; vfs[vfs_n].used = 1; vfs[vfs_n].len = 0; vfs[vfs_n].cap = 64;
	vfs[vfs_n].data = (unsigned char *)malloc(64);
	return vfs_n++;
}
static void vfs_put(int f, size_t off, const unsigned char *b, size_t n)
{
	if (off + n > vfs[f].cap) {          /* no realloc here: json_util.c #undefs the rename */
		size_t cap = 2 * (off + n) + 64;
		unsigned char *d = (unsigned char *)malloc(cap);
		memcpy(d, vfs[f].data, vfs[f].len);
		free(vfs[f].data);
		vfs[f].data = d; vfs[f].cap = cap;
	}
	if (n) memcpy(vfs[f].data + off, b, n);
	if (off + n > vfs[f].len) vfs[f].len = off + n;
}
static void vfs_clear(void)
{
	int i;
	for (i = 0; i < vfs_n; i++) free(vfs[i].data);
	vfs_n = 0;
}
static char path_name(const char *path)
{
	const char *sl = strrchr(path, '/');
	return sl ? sl[1] : path[0];
}

static ssize_t vf_read(int fd, void *buf, size_t count)
{
	long x;
	size_t n, avail = vf.len - vf.pos;
	vf.reads++;
	if (fd != THE_FD) vf.badfd++;
	if ((vf.fsmode || vf.modes) && !vf.rd) { errno = EBADF; return -1; }
	x = sched_next();
	if (x == -1) { if (vf.fail_errno) errno = vf.fail_errno; return -1; }
	n = (x == -2) ? count : ((size_t)(x < 0 ? 0 : x) < count ? (size_t)(x < 0 ? 0 : x) : count);
	if (n > avail) n = avail;
	if (n) memcpy(buf, vf.data + vf.pos, n);
	/* what lies beyond the transferred bytes is not the file's content */
	if (count > n) memset((char *)buf + n, 0xA5, count - n);
	vf.pos += n;
	return (ssize_t)n;
}

static ssize_t vf_write(int fd, const void *buf, size_t count)
{
	long x;
	size_t n;
	vf.writes++;
	if (fd != THE_FD) vf.badfd++;
	if ((vf.fsmode || vf.modes) && !vf.wr) { errno = EBADF; return -1; }
	x = sched_next();
	if (x == -1) { if (vf.fail_errno) errno = vf.fail_errno; return -1; }
	n = (x == -2) ? count : ((size_t)(x < 0 ? 0 : x) < count ? (size_t)(x < 0 ? 0 : x) : count);
	if (vf.devlen + n > vf.devcap) { vf.devoverflow = 1; n = vf.devcap - vf.devlen; }
	if (n) memcpy(vf.dev + vf.devlen, buf, n);
	vf.devlen += n;
	if (vf.fsmode) {                     /* the file receives the bytes where the kernel puts them */
		size_t at = vf.app ? vfs[vf.file].len : vf.off;
		vfs_put(vf.file, at, (const unsigned char *)buf, n);
		vf.off = at + n;
	}
	if (vf.dw && n) {
		size_t at = vf.app ? vf.flen : vf.wpos;
		if (at + n > vf.fcap) { vf.devoverflow = 1; n = vf.fcap - at; }
		memcpy(vf.fbuf + at, buf, n);
		if (at + n > vf.flen) vf.flen = at + n;
		vf.wpos = at + n;
	}
	return (ssize_t)n;
}

/* the open() requests json_util.c is documented to make: reading O_RDONLY and nothing else;
 * writing O_WRONLY | O_TRUNC | O_CREAT with mode 0644.  The first request that differs (any extra
 * bit: O_NONBLOCK, O_APPEND, O_CLOEXEC ...; a missing one; another mode) is kept for the line. */
static int bad_open_seen, bad_open_flags; static unsigned bad_open_mode;
static int vf_open(const char *path, int flags, ...)
{
	unsigned mode = 0;
	int want = (flags & O_ACCMODE) == O_RDONLY ? O_RDONLY : (O_WRONLY | O_TRUNC | O_CREAT);
	if (flags & O_CREAT) { va_list ap; va_start(ap, flags); mode = va_arg(ap, unsigned); va_end(ap); }
	if (!bad_open_seen && (flags != want || ((flags & O_CREAT) && mode != 0644))) {
		bad_open_seen = 1; bad_open_flags = flags; bad_open_mode = mode;
	}
	vf.opens++;
	vf.oflags = flags; vf.oflags_seen = 1;
	if (vf.fsmode) {
		int acc = flags & O_ACCMODE, f = vfs_find(path_name(path));
		if (f < 0) {
			if (!(flags & O_CREAT)) { errno = ENOENT; return -1; }
			if ((f = vfs_create(path_name(path))) < 0) { errno = ENOSPC; return -1; }
		} else {
			if ((flags & O_CREAT) && (flags & O_EXCL)) { errno = EEXIST; return -1; }
			if ((flags & O_TRUNC) && acc != O_RDONLY) vfs[f].len = 0;
		}
		vf.file = f; vf.off = 0;
		vf.rd = acc != O_WRONLY; vf.wr = acc != O_RDONLY; vf.app = (flags & O_APPEND) != 0;
		vf.data = vfs[f].data; vf.len = vfs[f].len; vf.pos = 0;
		return THE_FD;
	}
	if (!vf.open_ok) { errno = vf.open_errno; return -1; }
	return THE_FD;
}

static int vf_close(int fd)
{
	vf.closes++;
	if (fd != THE_FD) vf.badfd++;
	errno = EINVAL;          /* a close() that disturbs errno: callers must not rely on it */
	return 0;
}

/* ---- everything else json_util.c could do to a descriptor: recorded ---- */
static const char *other_names[] = {"lseek", "pread", "pwrite", "fstat", "ftruncate", "fsync", "fdatasync", "dup", "dup2",
                                    "fcntl", "readv", "writev", "mmap", "fdopen", "posix_fadvise"};
enum { X_LSEEK, X_PREAD, X_PWRITE, X_FSTAT, X_FTRUNCATE, X_FSYNC, X_FDATASYNC, X_DUP, X_DUP2, X_FCNTL, X_READV, X_WRITEV,
       X_MMAP, X_FDOPEN, X_FADVISE, X_N };
static void put_other(unsigned mask)
{
	int i, first = 1;
	if (bad_open_seen) { printf(" FLAGS:%x/%o", (unsigned)bad_open_flags, bad_open_mode); bad_open_seen = 0; }
	if (!mask) return;
	printf(" OTHER:");
	for (i = 0; i < X_N; i++) if (mask & (1u << i)) { printf("%s%s", first ? "" : "+", other_names[i]); first = 0; }
}
/* position and size of the file behind the descriptor, NULL when there is none (a bare sink) */
static size_t *vf_posp(size_t *size)
{
	if (vf.dw) { *size = vf.flen; return &vf.wpos; }
	if (vf.fsmode && vf.opens && vf.wr && !vf.rd) { *size = vfs[vf.file].len; return &vf.off; }
	if (vf.data) { *size = vf.len; return &vf.pos; }
	return NULL;
}
static off_t vf_lseek(int fd, off_t off, int whence)
{
	size_t size, *p = vf_posp(&size);
	long long base;
	(void)fd;
	vf.other |= 1u << X_LSEEK;
	if (!p) { errno = ESPIPE; return (off_t)-1; }
	base = whence == SEEK_SET ? 0 : whence == SEEK_CUR ? (long long)*p : whence == SEEK_END ? (long long)size : -1;
	if (base < 0 || base + off < 0) { errno = EINVAL; return (off_t)-1; }
	*p = (size_t)(base + off);
	if (*p > size && !vf.dw) *p = size;      /* reading beyond the end reads nothing: keep the arithmetic simple */
	return (off_t)*p;
}
static ssize_t vf_pread(int fd, void *buf, size_t n, off_t off)
{
	size_t size, *p = vf_posp(&size);
	const unsigned char *src = vf.dw ? vf.fbuf : vf.data;
	(void)fd;
	vf.other |= 1u << X_PREAD;
	if (!p || !src) { errno = ESPIPE; return -1; }
	if ((size_t)off >= size) return 0;
	if (n > size - (size_t)off) n = size - (size_t)off;
	memcpy(buf, src + off, n);
	return (ssize_t)n;
}
static ssize_t vf_pwrite(int fd, const void *buf, size_t n, off_t off)
{ (void)fd; (void)buf; (void)n; (void)off; vf.other |= 1u << X_PWRITE; errno = ENOSYS; return -1; }
static int vf_fstat(int fd, struct stat *st)
{
	size_t size = 0, *p = vf_posp(&size);
	(void)fd;
	vf.other |= 1u << X_FSTAT;
	memset(st, 0, sizeof(*st));
	st->st_mode = p ? (S_IFREG | 0644) : S_IFIFO;
	st->st_size = (off_t)size;
	st->st_blksize = 4096;
	return 0;
}
static int vf_ftruncate(int fd, off_t len)
{
	(void)fd;
	vf.other |= 1u << X_FTRUNCATE;
	if (vf.dw && (size_t)len <= vf.fcap) { if ((size_t)len > vf.flen) memset(vf.fbuf + vf.flen, 0, (size_t)len - vf.flen); vf.flen = (size_t)len; return 0; }
	if (vf.fsmode && vf.opens && vf.wr && (size_t)len <= vfs[vf.file].len) { vfs[vf.file].len = (size_t)len; return 0; }
	errno = EINVAL; return -1;
}
static int vf_fsync(int fd) { (void)fd; vf.other |= 1u << X_FSYNC; return 0; }
static int vf_fdatasync(int fd) { (void)fd; vf.other |= 1u << X_FDATASYNC; return 0; }
static int vf_dup(int fd) { (void)fd; vf.other |= 1u << X_DUP; errno = EMFILE; return -1; }
static int vf_dup2(int a, int b) { (void)a; (void)b; vf.other |= 1u << X_DUP2; errno = EMFILE; return -1; }
static int vf_fcntl(int fd, int cmd, ...) { (void)fd; vf.other |= 1u << X_FCNTL; return cmd == F_GETFL ? (vf.rd && vf.wr ? O_RDWR : vf.wr ? O_WRONLY : O_RDONLY) | (vf.app ? O_APPEND : 0) : 0; }
static ssize_t vf_readv(int fd, const struct iovec *v, int n) { (void)fd; (void)v; (void)n; vf.other |= 1u << X_READV; errno = ENOSYS; return -1; }
static ssize_t vf_writev(int fd, const struct iovec *v, int n) { (void)fd; (void)v; (void)n; vf.other |= 1u << X_WRITEV; errno = ENOSYS; return -1; }
static void *vf_mmap(void *a, size_t l, int pr, int fl, int fd, off_t o) { (void)a; (void)l; (void)pr; (void)fl; (void)fd; (void)o; vf.other |= 1u << X_MMAP; errno = ENODEV; return MAP_FAILED; }
static FILE *vf_fdopen(int fd, const char *m) { (void)fd; (void)m; vf.other |= 1u << X_FDOPEN; errno = EMFILE; return NULL; }
static int vf_fadvise(int fd, off_t o, off_t l, int adv) { (void)fd; (void)o; (void)l; (void)adv; vf.other |= 1u << X_FADVISE; return 0; }

/* the real parser, recorded */
static struct json_object *vf_parse_ex(struct json_tokener *t, const char *s, int len)
{
	if (vf.pcalls++ == 0) {
		size_t n = len < 0 ? strlen(s) : (size_t)len;
		vf.pdepth = t->max_depth;
		vf.pbuf = (unsigned char *)malloc(n ? n : 1);
		memcpy(vf.pbuf, s, n);
		vf.plen = n;
		vf.ptok = t; vf.pstr = s;
	} else if (!(t == vf.ptok && len == 1 && s == vf.pstr + vf.plen && s[0] == 0))
		vf.p2bad = 1;
	return json_tokener_parse_ex(t, s, len);
}

#define read(fd, b, n) vf_read(fd, b, n)
#define write(fd, b, n) vf_write(fd, b, n)
#define open(...) vf_open(__VA_ARGS__)
#define close(fd) vf_close(fd)
#define json_tokener_parse_ex(t, s, l) vf_parse_ex(t, s, l)
#define lseek(fd, o, w) vf_lseek(fd, o, w)
#define lseek64(fd, o, w) vf_lseek(fd, o, w)
#define pread(fd, b, n, o) vf_pread(fd, b, n, o)
#define pread64(fd, b, n, o) vf_pread(fd, b, n, o)
#define pwrite(fd, b, n, o) vf_pwrite(fd, b, n, o)
#define pwrite64(fd, b, n, o) vf_pwrite(fd, b, n, o)
#define fstat(fd, st) vf_fstat(fd, st)
#define ftruncate(fd, l) vf_ftruncate(fd, l)
#define fsync(fd) vf_fsync(fd)
#define fdatasync(fd) vf_fdatasync(fd)
#define dup(fd) vf_dup(fd)
#define dup2(a, b) vf_dup2(a, b)
#define fcntl(...) vf_fcntl(__VA_ARGS__)
#define readv(fd, v, n) vf_readv(fd, v, n)
#define writev(fd, v, n) vf_writev(fd, v, n)
#define mmap(a, l, p, f, fd, o) vf_mmap(a, l, p, f, fd, o)
#define fdopen(fd, m) vf_fdopen(fd, m)
#define posix_fadvise(fd, o, l, a) vf_fadvise(fd, o, l, a)
#include "json_util.c"
#undef read
#undef write
#undef open
#undef close
#undef json_tokener_parse_ex
#undef lseek
#undef lseek64
#undef pread
#undef pread64
#undef pwrite
#undef pwrite64
#undef fstat
#undef ftruncate
#undef fsync
#undef fdatasync
#undef dup
#undef dup2
#undef fcntl
#undef readv
#undef writev
#undef mmap
#undef fdopen
#undef posix_fadvise

/* the reference: the same bytes from memory, tokener of the given depth, the two steps the
 * property now reads as "parsing from memory": one call on the bytes and, when that yields no
 * value with json_tokener_continue, one more on a NUL byte.  Prints "<dump|NULL|NONEW> <e..c..|->" */
static void put_pcalls(void)
{
	printf("%ld%s", vf.pcalls, vf.p2bad ? "!" : "");
}
static void ref_parse(const unsigned char *doc, size_t n, int depth)
{
	struct json_tokener *t2 = json_tokener_new_ex(depth);
	unsigned char *copy;
	struct json_object *o2;
	int calls = 1;
	if (!t2) { printf("NONEW -"); return; }
	copy = (unsigned char *)malloc(n ? n : 1);       /* exact size: ASan sees overreads */
	memcpy(copy, doc, n);
	o2 = json_tokener_parse_ex(t2, (const char *)copy, (int)n);
	if (!o2 && json_tokener_get_error(t2) == json_tokener_continue) {
		char *nul = (char *)malloc(1);
		nul[0] = 0;
		o2 = json_tokener_parse_ex(t2, nul, 1);
		calls = 2;
		free(nul);
	}
	if (o2) jv_dump(o2); else printf("NULL");
	printf(" e%dc%d", (int)json_tokener_get_error(t2), calls);
	if (o2) json_object_put(o2);
	json_tokener_free(t2);
	free(copy);
}

static void vf_reset(const char *sched)
{
	memset(&vf, 0, sizeof(vf));
	vf.sched = sched;
	_last_err[0] = 0;
	errno = 0;      /* an "E:0" failure leaves this value in place: deterministic per line */
}

static struct json_object *tree_of(const char *s, int *bad)
{
	int err = 0;
	const char *p = s;
	struct json_object *o = jv_parse(&p, &err);
	if (err || *p) *bad = 1;
	return o;
}

/* ---- W / F W ---- */
static void set_open(const char *tok)
{
	vf.open_ok = strcmp(tok, "1") == 0;
	vf.open_errno = strcmp(tok, "0") == 0 ? ENOENT : errno_of(tok, strlen(tok));
	if (!vf.open_errno) vf.open_errno = ENOENT;
}

static void do_write(int file, char which, const char *open_tok, const char *tree, int flags, const char *sched, long live0)
{
	int bad = 0, rc, msg;
	struct json_object *o = tree_of(tree, &bad);
	const char *s0;
	unsigned char *ser;
	size_t serlen;
	if (bad) { printf("BADTREE"); json_object_put(o); return; }
	s0 = json_object_to_json_string_ext(o, flags);
	serlen = s0 ? strlen(s0) : 0;
	ser = (unsigned char *)malloc(serlen + 1);
	memcpy(ser, s0 ? s0 : "", serlen);
	vf_reset(sched);
	set_open(open_tok);
	vf.devcap = 2 * serlen + 64;
	vf.dev = (unsigned char *)malloc(vf.devcap);
	if (!file) rc = json_object_to_fd(THE_FD, o, flags);
	else if (which == 'w') rc = json_object_to_file("/nonexistent/verif-c20/out.json", o);
	else rc = json_object_to_file_ext("/nonexistent/verif-c20/out.json", o, flags);
	msg = json_util_get_last_err() != NULL;
	printf("%s %d %d %ld ", file ? "FW" : "W", rc, msg, vf.writes);
	puthex(vf.dev, vf.devlen);
	putchar(' ');
	puthex(ser, serlen);
	if (file) printf(" %ld %ld", vf.opens, vf.closes);
	json_object_put(o);
	free(ser);
	free(vf.dev);
	printf(" %ld", xa_live - live0);
	if (vf.badfd) printf(" BADFD");
	put_other(vf.other);
	if (vf.devoverflow) printf(" DEVOVERFLOW");
}

/* ---- R / F R ---- */
static void do_read(int file, const char *open_tok, const char *hex, const char *depth_s, const char *sched, long live0)
{
	size_t n;
	unsigned char *doc = unhex(hex, &n);
	int use_fd = !file && strcmp(depth_s, "fd") == 0;
	int depth = (file || use_fd) ? -1 : atoi(depth_s);
	int eff = depth == -1 ? JSON_TOKENER_DEFAULT_DEPTH : depth;
	struct json_object *o;
	int msg;
	vf_reset(sched);
	set_open(open_tok);
	vf.data = doc; vf.len = n;
	if (file) o = json_object_from_file("/nonexistent/verif-c20/in.json");
	else if (use_fd) o = json_object_from_fd(THE_FD);
	else o = json_object_from_fd_ex(THE_FD, depth);
	msg = json_util_get_last_err() != NULL;
	printf("%s ", file ? "FR" : "R");
	if (o) jv_dump(o); else printf("NULL");
	printf(" %d %ld ", msg, vf.reads); put_pcalls(); putchar(' ');
	if (vf.pcalls) { printf("%d ", vf.pdepth); puthex(vf.pbuf, vf.plen); }
	else printf("- -");
	putchar(' ');
	ref_parse(doc, n, eff);
	if (file) printf(" %ld %ld", vf.opens, vf.closes);
	if (o) json_object_put(o);
	free(vf.pbuf);
	free(doc);
	printf(" %ld", xa_live - live0);
	if (vf.badfd) printf(" BADFD");
	put_other(vf.other);
}

/* ---- P: histories on the in-memory file system ---- */
static void put_oflags(void)
{
	int acc = vf.oflags & O_ACCMODE;
	if (!vf.oflags_seen) { putchar('-'); return; }
	putchar(acc == O_RDONLY ? 'R' : acc == O_WRONLY ? 'W' : 'B');
	if (vf.oflags & O_CREAT) putchar('C');
	if (vf.oflags & O_TRUNC) putchar('T');
	if (vf.oflags & O_APPEND) putchar('A');
	if (vf.oflags & O_EXCL) putchar('X');
}
static void put_file(char name)
{
	int f = vfs_find(name);
	if (f < 0) printf("ABSENT"); else puthex(vfs[f].data, vfs[f].len);
}

static void do_history(char *init, char *steps, long live0)
{
	char *save = NULL, *tok, path[] = "/verif-c20/?.json";
	int first = 1, i, badfd = 0, overflow = 0;
	unsigned other = 0;
	vfs_n = 0;
	if (strcmp(init, "-") != 0)
		for (tok = strtok_r(init, ",", &save); tok; tok = strtok_r(NULL, ",", &save)) {
			size_t n; unsigned char *b = unhex(tok + 2, &n);
			int f = vfs_create(tok[0]);
			if (f >= 0) vfs_put(f, 0, b, n);
			free(b);
		}
	save = NULL;
	for (tok = strtok_r(steps, ";", &save); tok; tok = strtok_r(NULL, ";", &save)) {
		char *s2 = NULL, *kind = strtok_r(tok, "/", &s2), *pc = strtok_r(NULL, "/", &s2);
		if (!first) printf(" | ");
		first = 0;
		if (!kind || !pc) { printf("BADSTEP"); break; }
		path[11] = pc[0];
		if (kind[0] == 'w' || kind[0] == 'v') {
			char *tree = strtok_r(NULL, "/", &s2), *fl = strtok_r(NULL, "/", &s2), *sc = strtok_r(NULL, "/", &s2);
			int bad = 0, rc, msg;
			struct json_object *o;
			const char *s0;
			if (!tree || !fl || !sc) { printf("BADSTEP"); break; }
			o = tree_of(tree, &bad);
			if (bad) { printf("BADTREE"); json_object_put(o); break; }
			s0 = json_object_to_json_string_ext(o, atoi(fl));
			vf_reset(sc);
			vf.fsmode = 1;
			vf.devcap = 2 * (s0 ? strlen(s0) : 0) + 64;
			vf.dev = (unsigned char *)malloc(vf.devcap);
			rc = kind[0] == 'v' ? json_object_to_file(path, o) : json_object_to_file_ext(path, o, atoi(fl));
			msg = json_util_get_last_err() != NULL;
			printf("w %d %d %ld %ld %ld ", rc, msg, vf.writes, vf.opens, vf.closes);
			put_oflags(); putchar(' '); put_file(pc[0]);
			json_object_put(o);
			free(vf.dev);
		} else {
			char *sc = strtok_r(NULL, "/", &s2);
			struct json_object *o;
			int msg, f = vfs_find(pc[0]);
			if (!sc) { printf("BADSTEP"); break; }
			vf_reset(sc);
			vf.fsmode = 1;
			o = json_object_from_file(path);
			msg = json_util_get_last_err() != NULL;
			printf("r ");
			if (o) jv_dump(o); else printf("NULL");
			printf(" %d %ld ", msg, vf.reads); put_pcalls(); putchar(' ');
			if (vf.pcalls) { printf("%d ", vf.pdepth); puthex(vf.pbuf, vf.plen); } else printf("- -");
			putchar(' ');
			/* the reference: the contents (a read does not change them), parsed from memory */
			if (f < 0) printf("ABSENT -");
			else ref_parse(vfs[f].data, vfs[f].len, JSON_TOKENER_DEFAULT_DEPTH);
			printf(" %ld %ld ", vf.opens, vf.closes);
			put_oflags(); putchar(' '); put_file(pc[0]);
			if (o) json_object_put(o);
			free(vf.pbuf);
		}
		badfd |= vf.badfd != 0; overflow |= vf.devoverflow; other |= vf.other;
	}
	printf(" | end ");
	{
		long leak;
		int n = vfs_n;
		/* print after computing the leak: the table's own blocks are not the library's */
		unsigned char *datas[NFILES]; size_t lens[NFILES]; char names[NFILES];
		for (i = 0; i < n; i++) { datas[i] = vfs[i].data; lens[i] = vfs[i].len; names[i] = vfs[i].name; }
		leak = xa_live - live0 - n;
		printf("%ld ", leak);
		if (!n) putchar('-');
		for (i = 0; i < n; i++) { if (i) putchar(','); printf("%c=", names[i]); puthex(datas[i], lens[i]); }
		vfs_clear();
	}
	if (badfd) printf(" BADFD");
	put_other(other);
	if (overflow) printf(" DEVOVERFLOW");
}

/* ---- DR / DW: a descriptor the caller opened and positioned ---- */
static void set_mode(char m)
{
	vf.modes = 1;
	vf.rd = m != 'w'; vf.wr = m != 'r'; vf.app = m == 'a';
}
static void do_desc_read(char mode, const char *hex, long offset, const char *depth_s, const char *sched, long live0)
{
	size_t n;
	unsigned char *doc = unhex(hex, &n), *orig;
	int use_fd = strcmp(depth_s, "fd") == 0;
	int depth = use_fd ? -1 : atoi(depth_s);
	int eff = depth == -1 ? JSON_TOKENER_DEFAULT_DEPTH : depth;
	struct json_object *o;
	int msg, same;
	if (offset < 0 || (size_t)offset > n) { printf("BADOFFSET"); free(doc); return; }
	orig = (unsigned char *)malloc(n ? n : 1);
	memcpy(orig, doc, n);
	vf_reset(sched);
	set_mode(mode);
	vf.data = doc; vf.len = n; vf.pos = (size_t)offset;
	o = use_fd ? json_object_from_fd(THE_FD) : json_object_from_fd_ex(THE_FD, depth);
	msg = json_util_get_last_err() != NULL;
	printf("DR ");
	if (o) jv_dump(o); else printf("NULL");
	printf(" %d %ld ", msg, vf.reads); put_pcalls(); putchar(' ');
	if (vf.pcalls) { printf("%d ", vf.pdepth); puthex(vf.pbuf, vf.plen); } else printf("- -");
	putchar(' ');
	ref_parse(orig + offset, n - (size_t)offset, eff);
	same = vf.len == n && memcmp(doc, orig, n) == 0;
	printf(" %zu %s", vf.pos, same ? "=" : "CHANGED");
	if (o) json_object_put(o);
	free(vf.pbuf); free(doc); free(orig);
	printf(" %ld", xa_live - live0);
	if (vf.badfd) printf(" BADFD");
	put_other(vf.other);
}
static void do_desc_write(char mode, const char *hexold, long offset, const char *tree, int flags, const char *sched, long live0)
{
	size_t n, serlen;
	unsigned char *old = unhex(hexold, &n), *ser;
	int bad = 0, rc, msg;
	struct json_object *o = tree_of(tree, &bad);
	const char *s0;
	if (bad || offset < 0 || (size_t)offset > n) { printf(bad ? "BADTREE" : "BADOFFSET"); json_object_put(o); free(old); return; }
	s0 = json_object_to_json_string_ext(o, flags);
	serlen = s0 ? strlen(s0) : 0;
	ser = (unsigned char *)malloc(serlen + 1);
	memcpy(ser, s0 ? s0 : "", serlen);
	vf_reset(sched);
	set_mode(mode);
	vf.dw = 1;
	vf.fcap = n + 2 * serlen + 64;
	vf.fbuf = (unsigned char *)malloc(vf.fcap);
	memcpy(vf.fbuf, old, n);
	vf.flen = n; vf.wpos = (size_t)offset;
	vf.devcap = 2 * serlen + 64;
	vf.dev = (unsigned char *)malloc(vf.devcap);
	rc = json_object_to_fd(THE_FD, o, flags);
	msg = json_util_get_last_err() != NULL;
	printf("DW %d %d %ld ", rc, msg, vf.writes);
	puthex(vf.dev, vf.devlen); putchar(' ');
	puthex(ser, serlen);
	printf(" %zu ", vf.wpos);
	puthex(vf.fbuf, vf.flen);
	json_object_put(o);
	free(ser); free(vf.dev); free(vf.fbuf); free(old);
	printf(" %ld", xa_live - live0);
	if (vf.badfd) printf(" BADFD");
	put_other(vf.other);
	if (vf.devoverflow) printf(" DEVOVERFLOW");
}

/* ---- N: what the failure report says, for arbitrary file names ---- */
static void do_names(char kind, char what, const char *errname, const char *hexname, long live0)
{
	size_t n, mlen;
	unsigned char *nb = unhex(hexname, &n);
	char *name = (char *)malloc(n + 1);
	char sched[40];
	int e = errno_of(errname, strlen(errname));
	int term, has_name = 0, has_serr, truncated;
	struct json_object *o = NULL, *tree = NULL;
	int rc = 0;
	const char *msg;
	memcpy(name, nb, n); name[n] = 0;
	snprintf(sched, sizeof(sched), "E:%s", errname);
	vf_reset(what == 'x' ? sched : "-");
	vf.open_ok = what == 'x';
	vf.open_errno = e ? e : ENOENT;
	vf.data = (const unsigned char *)""; vf.len = 0;
	vf.devcap = 64; vf.dev = (unsigned char *)malloc(vf.devcap);
	if (kind != 'r') tree = json_object_new_boolean(1);
	if (kind == 'r') o = json_object_from_file(name);
	else if (kind == 'v') rc = json_object_to_file(name, tree);
	else rc = json_object_to_file_ext(name, tree, 0);
	msg = json_util_get_last_err();
	/* the buffer itself, not the pointer's idea of a string */
	mlen = strnlen(_last_err, sizeof(_last_err));
	term = mlen < sizeof(_last_err);
	truncated = mlen == sizeof(_last_err) - 1;
	if (term && msg) {
		const char *se = strerror(e ? e : ENOENT);
		size_t i;
		if (n && strstr(_last_err, name)) has_name = 1;
		else if (n == 0) has_name = 1;
		else if (truncated)
			for (i = 0; i < mlen && !has_name; i++) {
				size_t tail = mlen - i;
				if (tail <= n && tail >= (n < 32 ? n : 32) && memcmp(_last_err + i, name, tail) == 0) has_name = 1;
			}
		has_serr = truncated || strstr(_last_err, se) != NULL;
	} else has_serr = 0;
	printf("N ");
	if (kind == 'r') printf("%s", o ? "TREE" : "NULL"); else printf("%d", rc);
	printf(" %d %d ", msg != NULL, term);
	if (kind == 'r' && what == 'x') putchar('-'); else printf("%d", has_name);
	printf(" %d %ld %ld %ld", has_serr, kind == 'r' ? vf.reads : vf.writes, vf.opens, vf.closes);
	if (o) json_object_put(o);
	if (tree) json_object_put(tree);
	free(vf.dev); free(name); free(nb);
	printf(" %ld", xa_live - live0);
	if (vf.badfd) printf(" BADFD");
	put_other(vf.other);
}

void run_case(char *rest)
{
	char *save = NULL;
	char *op = strtok_r(rest, " ", &save);
	long live0;
	xa_reset();
	live0 = xa_live;
	the_fd = 77;
	bad_open_seen = 0;
	if (op && op[0] == '@') { the_fd = atoi(op + 1); op = strtok_r(NULL, " ", &save); }
	if (!op) { printf("BADLINE"); return; }
	if (strcmp(op, "W") == 0) {
		char *tree = strtok_r(NULL, " ", &save), *fl = strtok_r(NULL, " ", &save), *sc = strtok_r(NULL, " ", &save);
		if (!tree || !fl || !sc) { printf("BADLINE"); return; }
		do_write(0, 'W', "1", tree, atoi(fl), sc, live0);
	} else if (strcmp(op, "R") == 0) {
		char *hex = strtok_r(NULL, " ", &save), *d = strtok_r(NULL, " ", &save), *sc = strtok_r(NULL, " ", &save);
		if (!hex || !d || !sc) { printf("BADLINE"); return; }
		do_read(0, "1", hex, d, sc, live0);
	} else if (strcmp(op, "F") == 0) {
		char *which = strtok_r(NULL, " ", &save), *op_ok = strtok_r(NULL, " ", &save);
		if (!which || !op_ok) { printf("BADLINE"); return; }
		if (which[0] == 'R') {
			char *hex = strtok_r(NULL, " ", &save), *sc = strtok_r(NULL, " ", &save);
			if (!hex || !sc) { printf("BADLINE"); return; }
			do_read(1, op_ok, hex, "-1", sc, live0);
		} else {
			char *tree = strtok_r(NULL, " ", &save), *fl = strtok_r(NULL, " ", &save), *sc = strtok_r(NULL, " ", &save);
			if (!tree || !fl || !sc) { printf("BADLINE"); return; }
			do_write(1, which[0], op_ok, tree, atoi(fl), sc, live0);
		}
	} else if (strcmp(op, "DR") == 0) {
		char *m = strtok_r(NULL, " ", &save), *hex = strtok_r(NULL, " ", &save), *off = strtok_r(NULL, " ", &save);
		char *d = strtok_r(NULL, " ", &save), *sc = strtok_r(NULL, " ", &save);
		if (!m || !hex || !off || !d || !sc) { printf("BADLINE"); return; }
		do_desc_read(m[0], hex, atol(off), d, sc, live0);
	} else if (strcmp(op, "DW") == 0) {
		char *m = strtok_r(NULL, " ", &save), *hex = strtok_r(NULL, " ", &save), *off = strtok_r(NULL, " ", &save);
		char *tree = strtok_r(NULL, " ", &save), *fl = strtok_r(NULL, " ", &save), *sc = strtok_r(NULL, " ", &save);
		if (!m || !hex || !off || !tree || !fl || !sc) { printf("BADLINE"); return; }
		do_desc_write(m[0], hex, atol(off), tree, atoi(fl), sc, live0);
	} else if (strcmp(op, "N") == 0) {
		char *kind = strtok_r(NULL, " ", &save), *what = strtok_r(NULL, " ", &save);
		char *en = strtok_r(NULL, " ", &save), *hn = strtok_r(NULL, " ", &save);
		if (!kind || !what || !en || !hn) { printf("BADLINE"); return; }
		do_names(kind[0], what[0], en, hn, live0);
	} else if (strcmp(op, "P") == 0) {
		char *init = strtok_r(NULL, " ", &save), *steps = strtok_r(NULL, " ", &save);
		if (!init || !steps) { printf("BADLINE"); return; }
		do_history(init, steps, live0);
	} else if (strcmp(op, "S") == 0) {
		char *tree = strtok_r(NULL, " ", &save), *fl = strtok_r(NULL, " ", &save);
		int bad = 0;
		struct json_object *o;
		const char *s0;
		if (!tree || !fl) { printf("BADLINE"); return; }
		o = tree_of(tree, &bad);
		if (bad) { printf("BADTREE"); json_object_put(o); return; }
		s0 = json_object_to_json_string_ext(o, atoi(fl));
		printf("S ");
		if (s0) puthex((const unsigned char *)s0, strlen(s0)); else printf("NULL");
		json_object_put(o);
	} else printf("BADOP");
}
