/* drv_heap.c — reference-counted heap domain (C05).  Same script and observation format
 * as ocaml/drv_heap.ml.  Every node carries a userdata delete callback that logs
 * "d<id>.<tag>" (called from json_object_put) or "u<id>.<tag>" (called because
 * set_userdata replaced it); userdata encodes id and tag. */
#include "common.h"
#include "json.h"
#include "json_object_private.h"
#include "printbuf.h"
#include "json_patch.h"
#include "linkhash.h"
const char *DOMAIN = "heap";

/* storage of the keys handed over with JSON_C_OBJECT_ADD_CONSTANT_KEY: owned by the driver,
 * outside the counted allocator, released when the next case starts */
static char *ckey[4096];
static int nckey;

#define MAXID 20000
static struct json_object *node[MAXID];
static char dead[MAXID];      /* the delete callback of this node has run from put */
static char hascb[MAXID];
static long cb_alive;         /* nodes with a callback installed and not yet destroyed */
static int in_setud;          /* the callback is being invoked by set_userdata */
static char evbuf[1 << 16];
static size_t evlen;
static long next_copy_id;

#define UD(id, tag) ((void *)(intptr_t)(((long)(id) << 24) + (tag) + 1))
#define UD_ID(u) ((long)(((intptr_t)(u) - 1) >> 24))
#define UD_TAG(u) ((long)(((intptr_t)(u) - 1) & 0xffffff))

/* side table: the registration a node currently carries (needed when it was made with
 * userdata == NULL: the callback then only gets the node) */
static long curtag[MAXID];
static long maxid;

/* userdata of registrations whose serializer is json_object_userdata_to_json_string: a string */
static char STRUD[] = "\"t\"";
/* ... json_object_double_to_json_string: a printf format */
static char FMTUD[] = "%.2f";

static long lookup(struct json_object *o)
{
	long i;
	/* newest first: a node without a callback dies unnoticed and its address may be reused */
	for (i = maxid < MAXID ? maxid : MAXID - 1; i >= 0; i--)
		if (node[i] == o && !dead[i]) return i;
	return -1;
}

/* every registration logs "<u|d><node>.<registration>" each time its callback is invoked:
 * u = invoked by set_userdata/set_serializer (replacement), d = invoked by json_object_put */
static void log_cb(struct json_object *o, void *ud)
{
	long id, tag;
	int coded = ud && ud != (void *)STRUD && ud != (void *)FMTUD;
	if (coded) { id = UD_ID(ud); tag = UD_TAG(ud); }
	else { id = lookup(o); tag = id >= 0 ? curtag[id] : -1; }
	evlen += (size_t)snprintf(evbuf + evlen, sizeof(evbuf) - evlen, "%s%c%ld.%ld", evlen ? "," : "",
	                          in_setud ? 'u' : 'd', id, tag);
	if (id >= 0 && id < MAXID && node[id] != o) evlen += (size_t)snprintf(evbuf + evlen, sizeof(evbuf) - evlen, "!wrongnode");
	if (id >= 0 && id < MAXID && coded && curtag[id] != tag) evlen += (size_t)snprintf(evbuf + evlen, sizeof(evbuf) - evlen, "!stale");
	if (!in_setud && id >= 0 && id < MAXID) {
		if (dead[id]) evlen += (size_t)snprintf(evbuf + evlen, sizeof(evbuf) - evlen, "!twice");
		dead[id] = 1;
		cb_alive--;
	}
}

static int ser_cb(struct json_object *o, struct printbuf *pb, int level, int flags)
{
	return printbuf_memappend(pb, "\"x\"", 3);
}

/* one registration: userdata NULL or not, delete callback or not, through set_userdata (ser 0),
 * set_serializer with a NULL function (1), a custom function (2), the stock
 * json_object_userdata_to_json_string (3; its userdata is a string) or
 * json_object_double_to_json_string (4) */
static void install(long id, struct json_object *o, long tag, int u, int d, int ser)
{
	void *ud = !u ? NULL : ser == 3 ? (void *)STRUD : ser == 4 ? (void *)FMTUD : UD(id, tag);
	json_object_delete_fn *del = d ? log_cb : NULL;
	if (id < 0 || id >= MAXID) return;
	in_setud = 1;
	if (ser == 0) json_object_set_userdata(o, ud, del);
	else json_object_set_serializer(o, ser == 2 ? ser_cb : ser == 3 ? json_object_userdata_to_json_string :
	                                   ser == 4 ? json_object_double_to_json_string : NULL, ud, del);
	in_setud = 0;
	if (hascb[id] && !d) cb_alive--;
	if (!hascb[id] && d) cb_alive++;
	hascb[id] = (char)d;
	curtag[id] = tag;
}

static void reg(long id, struct json_object *o)
{
	if (id < 0 || id >= MAXID) return;
	node[id] = o; dead[id] = 0; hascb[id] = 0; curtag[id] = 0;
	if (id > maxid) maxid = id;
	install(id, o, 0, 1, 1, 0);
}

/* shallow copy that knows the userdata of this harness: a fresh id, tag 0 */
static int copy_cb(json_object *src, json_object *parent, const char *key, size_t index, json_object **dst)
{
	int rc = json_c_shallow_copy_default(src, parent, key, index, dst);
	if (rc < 0) return rc;
	/* the copy gets this harness's own userdata: keep only a serializer that ignores userdata */
	if (src->_to_json_string != ser_cb) json_object_set_serializer(*dst, NULL, NULL, NULL);
	if (next_copy_id < MAXID) {
		long id = next_copy_id++;
		node[id] = *dst; dead[id] = 0; hascb[id] = 1; cb_alive++; curtag[id] = 0;
		if (id > maxid) maxid = id;
		(*dst)->_userdata = UD(id, 0);
		(*dst)->_user_delete = log_cb;
	}
	return 2;
}

/* after a successful default deep copy: the copies carry no callbacks; number them in
 * the order the copy created them (pre-order, container order) */
static void reg_plain(struct json_object *o)
{
	long id;
	if (!o) return;
	id = next_copy_id++;
	if (id < MAXID) { node[id] = o; dead[id] = 0; hascb[id] = 0; curtag[id] = 0; if (id > maxid) maxid = id; }
	if (json_object_get_type(o) == json_type_object) {
		struct json_object_iter it;
		json_object_object_foreachC(o, it) reg_plain(it.val);
	} else if (json_object_get_type(o) == json_type_array) {
		size_t i, n = json_object_array_length(o);
		for (i = 0; i < n; i++) reg_plain(json_object_array_get_idx(o, i));
	}
}

static void dump(struct json_object *o, int depth)
{
	char k;
	if (!o) { putchar('n'); return; }
	if (depth > 200) { printf("DEEP"); return; }
	k = json_object_get_type(o) == json_type_object ? 'o' : json_object_get_type(o) == json_type_array ? 'a' : 's';
	if (o->_user_delete == log_cb) {
		int coded = o->_userdata && o->_userdata != (void *)STRUD && o->_userdata != (void *)FMTUD;
		long id = coded ? UD_ID(o->_userdata) : lookup(o);
		printf("%c%ld.%ld", k, id, coded ? UD_TAG(o->_userdata) : (id >= 0 ? curtag[id] : -1L));
	} else
		printf("%c?", k);
	printf("%c#%u", json_object_get_userdata(o) ? 'u' : '-', (unsigned)o->_ref_count);
	if (k == 'a') {
		size_t i, n = json_object_array_length(o);
		putchar('[');
		for (i = 0; i < n; i++) { if (i) putchar(','); dump(json_object_array_get_idx(o, i), depth + 1); }
		putchar(']');
	} else if (k == 'o') {
		struct lh_entry *e;
		int first = 1;
		putchar('{');
		lh_foreach(json_object_get_object(o), e) {
			const char *key = (const char *)lh_entry_k(e);
			if (!first) putchar(',');
			first = 0;
			if (lh_entry_k_is_constant(e)) putchar('*');
			puthex((const unsigned char *)key, strlen(key));
			putchar('=');
			dump((struct json_object *)lh_entry_v(e), depth + 1);
		}
		putchar('}');
	}
}

/* h<id> or n; *bad set when the handle names a node whose destruction was logged */
static struct json_object *H(const char *s, int *bad)
{
	long id;
	if (s[0] == 'n') return NULL;
	id = strtol(s + 1, NULL, 10);
	if (id < 0 || id >= MAXID || !node[id] || dead[id]) { *bad = 1; return NULL; }
	return node[id];
}

static char *cstr_of_hex(const char *hx)
{
	size_t n; unsigned char *b = unhex(hx, &n);
	char *z = (char *)(malloc)(n + 1);
	memcpy(z, b, n); z[n] = 0;
	(free)(b);
	return z;
}

/* a one-operation JSON patch applied in place; the patch document holds its own reference
 * to the value for the duration of the call */
static int apply_patch(struct json_object **base, const char *op, const char *path, const char *from,
                       int has_value, struct json_object *v)
{
	struct json_object *patch = json_object_new_array(), *el = json_object_new_object();
	struct json_patch_error err;
	int rc;
	json_object_object_add(el, "op", json_object_new_string(op));
	json_object_object_add(el, "path", json_object_new_string(path));
	if (from) json_object_object_add(el, "from", json_object_new_string(from));
	if (has_value) json_object_object_add(el, "value", json_object_get(v));
	json_object_array_add(patch, el);
	rc = json_patch_apply(NULL, patch, base, &err);
	json_object_put(patch);
	return rc;
}

void run_case(char *rest)
{
	char *tok, *save = NULL;
	int first = 1;
	long live0 = xa_live;
	memset(node, 0, sizeof(node)); memset(dead, 0, sizeof(dead)); memset(hascb, 0, sizeof(hascb));
	cb_alive = 0; maxid = 0;
	json_global_set_string_hash(JSON_C_STR_HASH_DFLT);
	while (nckey > 0) (free)(ckey[--nckey]);
	xa_reset();
	for (tok = strtok_r(rest, ";", &save); tok; tok = strtok_r(NULL, ";", &save)) {
		char *a[6] = {0, 0, 0, 0, 0, 0};
		char *sv2 = NULL, *w;
		int na = 0, bad = 0;
		long ret = 0;
		if (!first) printf(" | ");
		first = 0;
		evlen = 0; evbuf[0] = 0;
		for (w = strtok_r(tok, " ", &sv2); w && na < 6; w = strtok_r(NULL, " ", &sv2)) a[na++] = w;
		if (na == 0) { printf("BADOP"); return; }
		if (!strcmp(a[0], "hash") && na == 2) {
			printf("%d -", json_global_set_string_hash(atoi(a[1])));
			continue;
		}
		if (strchr(a[0], '=') && a[0][0] == 'h') {            /* constructors */
			char *eq = strchr(a[0], '=');
			long id = strtol(a[0] + 1, NULL, 10);
			struct json_object *o = NULL;
			const char *c = eq + 1;
			if (!strcmp(c, "newobj")) o = json_object_new_object();
			else if (!strcmp(c, "newarr")) o = json_object_new_array();
			else if (!strcmp(c, "newbool")) o = json_object_new_boolean(1);
			else if (!strcmp(c, "newdbl")) o = json_object_new_double(1.5);
			else if (!strcmp(c, "newdbls")) {
				/* keeps the library's own registration: none of ours is installed */
				o = json_object_new_double_s(1.5, "1.50");
				if (!o) { printf("NEWFAIL"); return; }
				if (id >= 0 && id < MAXID) { node[id] = o; dead[id] = 0; hascb[id] = 0; curtag[id] = -1; if (id > maxid) maxid = id; }
				printf("%ld -", id);
				continue;
			}
			else if (!strcmp(c, "newint") && na == 2) o = json_object_new_int64(strtoll(a[1], NULL, 10));
			else if (!strcmp(c, "newstr") && na == 2) { char *z = cstr_of_hex(a[1]); o = json_object_new_string(z); (free)(z); }
			else { printf("BADOP"); return; }
			if (!o) { printf("NEWFAIL"); return; }
			reg(id, o);
			printf("%ld -", id);
			continue;
		}
		if ((!strcmp(a[0], "copy") || !strcmp(a[0], "copyd")) && na == 2) {
			char *eq = strchr(a[1], '=');
			long id = strtol(a[1] + 1, NULL, 10);
			struct json_object *src = H(eq + 1, &bad), *dst = NULL;
			int rc;
			if (bad || !src) { printf("DEADHANDLE"); return; }
			next_copy_id = id;
			rc = json_object_deep_copy(src, &dst, a[0][4] == 'd' ? NULL : copy_cb);
			if (rc == 0 && a[0][4] == 'd') reg_plain(dst);
			if (rc == 0) printf("%ld %s", id, evlen ? evbuf : "-");
			else printf("%d %s", rc, evlen ? evbuf : "-");
			continue;
		}
		if (!strcmp(a[0], "get") && na == 2) {
			struct json_object *o = H(a[1], &bad);
			if (bad) { printf("DEADHANDLE"); return; }
			ret = json_object_get(o) == o ? strtol(a[1] + 1, NULL, 10) : -99;
		} else if (!strcmp(a[0], "setv") && na == 3) {
			struct json_object *o = H(a[1], &bad);
			const char *w = a[2];
			if (bad || !o) { printf("DEADHANDLE"); return; }
			if (!strcmp(w, "bool")) ret = json_object_set_boolean(o, 0);
			else if (!strcmp(w, "int")) ret = json_object_set_int(o, 11);
			else if (!strcmp(w, "int64")) ret = json_object_set_int64(o, -12);
			else if (!strcmp(w, "uint64")) ret = json_object_set_uint64(o, 13);
			else if (!strcmp(w, "inc")) ret = json_object_int_inc(o, 5);
			else if (!strcmp(w, "dbl")) ret = json_object_set_double(o, 2.25);
			else if (!strcmp(w, "str")) ret = json_object_set_string(o, "replaced by a longer string than before, to force a reallocation");
			else if (!strcmp(w, "strlen")) ret = json_object_set_string_len(o, "ab", 2);
			else { printf("BADOP"); return; }
		} else if (!strcmp(a[0], "put") && na == 2) {
			struct json_object *o = H(a[1], &bad);
			if (bad) { printf("DEADHANDLE"); return; }
			ret = json_object_put(o);
		} else if (!strcmp(a[0], "add") && na == 4) {
			struct json_object *p = H(a[1], &bad), *v = H(a[3], &bad);
			char *k;
			if (bad) { printf("DEADHANDLE"); return; }
			k = cstr_of_hex(a[2]);
			ret = json_object_object_add(p, k, v);
			(free)(k);
		} else if (!strcmp(a[0], "addx") && na == 5) {
			struct json_object *p = H(a[1], &bad), *v = H(a[3], &bad);
			long f = strtol(a[4], NULL, 10);
			unsigned opts = (f & 1 ? JSON_C_OBJECT_ADD_KEY_IS_NEW : 0) | (f & 2 ? JSON_C_OBJECT_ADD_CONSTANT_KEY : 0);
			char *k;
			if (bad) { printf("DEADHANDLE"); return; }
			k = cstr_of_hex(a[2]);
			ret = json_object_object_add_ex(p, k, v, opts);
			if ((f & 2) && nckey < 4096) ckey[nckey++] = k;   /* the table may keep this pointer */
			else (free)(k);
		} else if (!strcmp(a[0], "del") && na == 3) {
			struct json_object *p = H(a[1], &bad);
			char *k;
			if (bad) { printf("DEADHANDLE"); return; }
			k = cstr_of_hex(a[2]);
			json_object_object_del(p, k);
			(free)(k);
		} else if (!strcmp(a[0], "aadd") && na == 3) {
			struct json_object *p = H(a[1], &bad), *v = H(a[2], &bad);
			if (bad) { printf("DEADHANDLE"); return; }
			ret = json_object_array_add(p, v);
		} else if ((!strcmp(a[0], "aput") || !strcmp(a[0], "ains")) && na == 4) {
			struct json_object *p = H(a[1], &bad), *v = H(a[3], &bad);
			size_t idx = (size_t)strtoull(a[2], NULL, 10);
			if (bad) { printf("DEADHANDLE"); return; }
			ret = a[0][1] == 'p' ? json_object_array_put_idx(p, idx, v) : json_object_array_insert_idx(p, idx, v);
		} else if (!strcmp(a[0], "adel") && na == 4) {
			struct json_object *p = H(a[1], &bad);
			if (bad) { printf("DEADHANDLE"); return; }
			ret = json_object_array_del_idx(p, (size_t)strtoull(a[2], NULL, 10), (size_t)strtoull(a[3], NULL, 10));
		} else if (!strcmp(a[0], "reg") && na == 6) {
			struct json_object *o = H(a[1], &bad);
			if (bad || !o) { printf("DEADHANDLE"); return; }
			install(strtol(a[1] + 1, NULL, 10), o, strtol(a[2], NULL, 10), atoi(a[3]), atoi(a[4]), atoi(a[5]));
		} else if (!strcmp(a[0], "ptrset") && na == 4) {
			struct json_object *r = H(a[1], &bad), *v = H(a[3], &bad), *r0 = r;
			char *path;
			if (bad || !r) { printf("DEADHANDLE"); return; }
			path = cstr_of_hex(a[2]);
			ret = json_pointer_set(&r, path, v);
			(free)(path);
			if (ret == 0 && r != r0 && r != v) ret = -98;   /* *obj may only become value */
		} else if ((!strcmp(a[0], "padd") || !strcmp(a[0], "prepl")) && na == 4) {
			struct json_object *r = H(a[1], &bad), *v = H(a[3], &bad), *r0 = r;
			char *path;
			if (bad || !r) { printf("DEADHANDLE"); return; }
			path = cstr_of_hex(a[2]);
			ret = apply_patch(&r, a[0][1] == 'a' ? "add" : "replace", path, NULL, 1, v);
			(free)(path);
			if (r != r0) ret = -97;
		} else if (!strcmp(a[0], "prem") && na == 3) {
			struct json_object *r = H(a[1], &bad), *r0 = r;
			char *path;
			if (bad || !r) { printf("DEADHANDLE"); return; }
			path = cstr_of_hex(a[2]);
			ret = apply_patch(&r, "remove", path, NULL, 0, NULL);
			(free)(path);
			if (r != r0) ret = -97;
		} else if ((!strcmp(a[0], "pcopy") || !strcmp(a[0], "pmove")) && na == 4) {
			struct json_object *r = H(a[1], &bad), *r0 = r;
			char *from, *path;
			if (bad || !r) { printf("DEADHANDLE"); return; }
			from = cstr_of_hex(a[2]);
			path = cstr_of_hex(a[3]);
			ret = apply_patch(&r, a[0][1] == 'c' ? "copy" : "move", path, from, 0, NULL);
			(free)(from); (free)(path);
			if (r != r0) ret = -97;
		} else if (!strcmp(a[0], "use") && na == 2) {
			struct json_object *o = H(a[1], &bad);
			const char *s;
			if (bad || !o) { printf("DEADHANDLE"); return; }
			(void)json_object_get_type(o);
			s = json_object_to_json_string(o);
			if (!s) { printf("use NOSTRING"); continue; }
			printf("use ");
			dump(o, 0);
			continue;
		} else { printf("BADOP"); return; }
		printf("%ld %s", ret, evlen ? evbuf : "-");
	}
	json_global_set_string_hash(JSON_C_STR_HASH_DFLT);
	printf(" | end %ld %ld", cb_alive, xa_live - live0);
}
