/* drv_loc.c — locale domain (C14).  Same script and observation format as ocaml/drv_loc.ml.
 *
 * Every case is run under three locale installations inside ONE line:
 *   C  the C locale;
 *   G  the synthesised comma-decimal locale xx_COMMA installed process-wide: setlocale(LC_ALL, …);
 *   T  xx_COMMA installed for this thread only: newlocale + uselocale (the global one stays C).
 * Lines:
 *   P <hextext> <flags> <depth> <chunks> <fault>
 *        chunks: -        one call, len = |text|
 *                Z        one call, NUL-terminated, len = -1
 *                N<k>     one call, len = -k   (k >= 2: size error)
 *                c<a,b,…> split at the offsets; the last chunk includes the terminating NUL
 *                k<a,b,…> split at the offsets; no NUL (ends in `continue` unless an error comes first)
 *                         (offsets 0, |text| and repeated offsets give EMPTY chunks: calls with len == 0)
 *                h<item,…> free-form call history, every call is made (also after success: next document;
 *                         after an error the tokener is reset): a:b slice, a:bz slice+NUL, a:bm slice
 *                         NUL-terminated with len=-1, n<k> len=-k, r json_tokener_reset
 *        fault:  0 none, 1 duplocale fails with ENOMEM, 2 newlocale fails
 *   S <jvtext> <flags> [<cfg>]   json_object_to_json_string_ext; cfg = - | comma-separated, applied in order:
 *        G<hexfmt|0>  json_c_set_serialization_double_format(fmt, JSON_C_OPTION_GLOBAL)   (0 = NULL)
 *        T<hexfmt|0>  json_c_set_serialization_double_format(fmt, JSON_C_OPTION_THREAD)
 *        O<hexfmt|0>  per-object format: json_object_set_serializer(d, json_object_double_to_json_string, fmt, free) on every double
 *        D            json_object_set_double(d, value of d) on every double (drops a retained source text)
 *        (global/thread formats are reset to NULL after the case)
 *   G <hexstring>           json_object_get_double(json_object_new_string(...))
 *   F <16 hex digits>       the libc oracle itself: snprintf("%.17g") of the double with these bits
 *                           (validates the hypothesis of C14_ser_locale_indep; the modes DO differ here)
 *   M <variant> <nthreads> <iters> <pevery> <flags> <jvtext> [<cfg>]   concurrent threads, each under its own
 *        locale, serialising (and every pevery-th iteration parsing + re-serialising) private trees; see run_threads.
 *        Observation: M mism=<n> pmism=<n> perr=<n> lbad=<n> L<n> ser=<n> par=<n> first=<kind><role>:<hex got>/<hex want>|-
 * Observation, per mode:  <mode> <data…> H<0/1> D<0/1> F<0/1> L<n> sep=<hex>
 *   P data: <err,err,…> <parse_end of the last call> <tree dumps joined by ';' |-> <ncalls>
 *   S data: <hex of the text>        G data: d<bits>:<errno>       F data: <hex of the text>
 *   H  uselocale((locale_t)0) handle identical before/after every call
 *   D  localeconv()->decimal_point identical before/after every call
 *   F  snprintf("%f", 1.5) identical before/after every call
 *   L  locale objects created minus released by json_tokener.c during the calls
 *      (duplocale/newlocale/freelocale/uselocale are interposed at compile time for that file only)
 * then " | same <0/1>": the data fields of the three modes are byte-identical.
 */
// EXCLUDE: json_tokener.c
// EXCLUDE: json_object.c
// RENAME-ALLOC
#include <locale.h>
#include <unistd.h>
#include "jvtext.h"

static long lc_created, lc_freed, lc_free_null, lc_uselocale_calls;
static int lc_fault;

static locale_t c14_duplocale(locale_t l)
{
	locale_t r;
	if (lc_fault == 1) { errno = ENOMEM; return (locale_t)0; }
	r = duplocale(l);
	if (r) __atomic_fetch_add(&lc_created, 1, __ATOMIC_RELAXED);
	return r;
}
static locale_t c14_newlocale(int mask, const char *name, locale_t base)
{
	locale_t r;
	if (lc_fault == 2) { errno = ENOMEM; return (locale_t)0; }
	r = newlocale(mask, name, base);
	if (r && !base) __atomic_fetch_add(&lc_created, 1, __ATOMIC_RELAXED);      /* with a base, the base object is absorbed into the result */
	return r;
}
static void c14_freelocale(locale_t l)
{
	if (!l) { __atomic_fetch_add(&lc_free_null, 1, __ATOMIC_RELAXED); return; }    /* glibc would crash */
	__atomic_fetch_add(&lc_freed, 1, __ATOMIC_RELAXED);   /* atomic: a library that calls these from the serializer does so in concurrent threads (op M) */
	freelocale(l);
}
static locale_t c14_uselocale(locale_t l)
{
	__atomic_fetch_add(&lc_uselocale_calls, 1, __ATOMIC_RELAXED);
	return uselocale(l);
}
#define duplocale c14_duplocale
#define newlocale c14_newlocale
#define freelocale c14_freelocale
#define uselocale c14_uselocale
#include "json_tokener.c"
/* the serializer side is compiled under the same interposition: the unchanged json_object.c makes no
 * locale call at all (tr/locale_exits.py checks that on the source), so the counters stay 0 across
 * json_object_to_json_string_ext — successful or failing */
#include "json_object.c"
#undef duplocale
#undef newlocale
#undef freelocale
#undef uselocale

const char *DOMAIN = "loc";

/* The S/M ops hand snprintf formats that are malformed on purpose ("%", "%.", "%y": the failing paths of the
 * serializer).  ASan's printf interceptor parses every format itself and aborts with an internal CHECK on some of
 * them (sanitizer_common_interceptors_format.inc:507, it reads past the directive) — a sanitizer artefact, not a
 * library fault: switch that parser off for this driver. */
const char *__asan_default_options(void) { return "check_printf=0"; }
#define LOCNAME "xx_COMMA"

static locale_t comma_loc;
static int setup_state;      /* 0 not tried, 1 ok, -1 failed */

static void setup(void)
{
	if (setup_state) return;
	setup_state = -1;
	if (!getenv("LOCPATH")) {
		/* <verif>/build/lib-…/jc_loc_…  ->  <verif>/build/locale */
		char exe[4096]; ssize_t n = readlink("/proc/self/exe", exe, sizeof exe - 32);
		int cut = 0;
		if (n <= 0) return;
		exe[n] = 0;
		while (n > 0 && cut < 2) { if (exe[--n] == '/') cut++; }
		strcpy(exe + n, "/locale");
		setenv("LOCPATH", exe, 1);
	}
	if (!setlocale(LC_ALL, LOCNAME)) return;
	if (strcmp(localeconv()->decimal_point, ",") != 0) { setlocale(LC_ALL, "C"); return; }
	setlocale(LC_ALL, "C");
	comma_loc = newlocale(LC_ALL_MASK, LOCNAME, (locale_t)0);
	if (!comma_loc) return;
	setup_state = 1;
}

static void enter_mode(char m)
{
	if (m == 'G') setlocale(LC_ALL, LOCNAME);
	else if (m == 'T') uselocale(comma_loc);
}
static void leave_mode(char m)
{
	/* also repairs whatever a broken library left installed */
	uselocale(LC_GLOBAL_LOCALE);
	setlocale(LC_ALL, "C");
	(void)m;
}

struct snap { locale_t h; char dp[16]; char f[32]; };
static void take(struct snap *s)
{
	s->h = uselocale((locale_t)0);
	snprintf(s->dp, sizeof s->dp, "%s", localeconv()->decimal_point);
	snprintf(s->f, sizeof s->f, "%f", 1.5);
}

struct inv { int h, d, f; char sep[40]; };
static void inv_init(struct inv *v) { v->h = v->d = v->f = 1; strcpy(v->sep, "-"); }
static void inv_check(struct inv *v, const struct snap *a, char m)
{
	struct snap b;
	size_t i;
	take(&b);
	if (a->h != b.h) v->h = 0;
	if (strcmp(a->dp, b.dp) != 0) v->d = 0;
	if (strcmp(a->f, b.f) != 0) v->f = 0;
	v->sep[0] = 0;
	for (i = 0; a->dp[i] && i < 8; i++) sprintf(v->sep + 2 * i, "%02x", (unsigned char)a->dp[i]);
	if (a->h != b.h) {           /* put the caller's locale back so the next call starts right */
		uselocale(a->h);
	}
	(void)m;
}

static char *dump_to_string(struct json_object *o)
{
	char *buf = NULL; size_t n = 0;
	FILE *m = open_memstream(&buf, &n), *save = stdout;
	stdout = m;
	jv_dump(o);
	stdout = save;
	fclose(m);
	return buf;
}

static const char *err_name(enum json_tokener_error e)
{
	switch (e) {
	case json_tokener_success: return "success";
	case json_tokener_continue: return "continue";
	case json_tokener_error_depth: return "depth";
	case json_tokener_error_parse_eof: return "eof";
	case json_tokener_error_parse_unexpected: return "unexpected";
	case json_tokener_error_parse_null: return "null";
	case json_tokener_error_parse_boolean: return "boolean";
	case json_tokener_error_parse_number: return "number";
	case json_tokener_error_parse_array: return "array";
	case json_tokener_error_parse_object_key_name: return "object_key_name";
	case json_tokener_error_parse_object_key_sep: return "object_key_sep";
	case json_tokener_error_parse_object_value_sep: return "object_value_sep";
	case json_tokener_error_parse_string: return "string";
	case json_tokener_error_parse_comment: return "comment";
	case json_tokener_error_parse_utf8_string: return "utf8";
	case json_tokener_error_size: return "size";
	case json_tokener_error_memory: return "memory";
	default: return "unknown";
	}
}

#define MAXCH 64
static const char MODES[3] = { 'C', 'G', 'T' };

/* one call of a history */
struct call { size_t lo, hi; int kind; long k; };   /* kind: 0 len=hi-lo, 1 +NUL (len+1), 2 NUL-terminated len=-1, 3 len=-k, 4 reset */

/* one mode of a P case; returns the data string (malloc'd) */
static char *parse_mode(char m, const unsigned char *text, size_t n, int flags, int depth, const char *chunks,
                        int fault, struct inv *v, long *leak)
{
	struct json_tokener *tok = json_tokener_new_ex(depth);
	struct call calls[MAXCH + 2];
	size_t ncl = 0, i;
	char errs[MAXCH * 20 + 64];
	char *out = NULL, *vals = NULL; size_t outn = 0, valsn = 0;
	FILE *mem, *vmem;
	int ncalls = 0, nvals = 0, history = 0;
	size_t end = 0;
	errs[0] = 0;
	inv_init(v);
	if (!tok) return strdup("NEWFAIL - - 0");
	json_tokener_set_flags(tok, flags);
	if (chunks[0] == 'c' || chunks[0] == 'k') {
		/* cut offsets; 0, n and repeated offsets are allowed and give EMPTY chunks (len == 0) */
		const char *p = chunks + 1;
		size_t prev = 0;
		while (*p && ncl < MAXCH) {
			size_t c = (size_t)strtoul(p, (char **)&p, 10);
			if (c > n) c = n;
			if (c >= prev) { calls[ncl].lo = prev; calls[ncl].hi = c; calls[ncl].kind = 0; ncl++; prev = c; }
			if (*p == ',') p++;
		}
		calls[ncl].lo = prev; calls[ncl].hi = n; calls[ncl].kind = chunks[0] == 'c' ? 1 : 0; ncl++;
	} else if (chunks[0] == 'h') {
		/* free-form call history: a:b | a:bz (+NUL) | a:bm (len=-1) | n<k> (len=-k) | r (reset); every call is made;
		 * after an error outcome the tokener is reset (as the API requires) */
		const char *p = chunks + 1;
		history = 1;
		while (*p && ncl < MAXCH) {
			struct call c = { 0, 0, 0, 0 };
			if (*p == 'r') { c.kind = 4; p++; }
			else if (*p == 'n') { c.kind = 3; c.k = strtol(p + 1, (char **)&p, 10); c.hi = n; }
			else {
				c.lo = (size_t)strtoul(p, (char **)&p, 10);
				if (*p == ':') p++;
				c.hi = (size_t)strtoul(p, (char **)&p, 10);
				if (c.hi > n) c.hi = n;
				if (c.lo > c.hi) c.lo = c.hi;
				if (*p == 'z') { c.kind = 1; p++; } else if (*p == 'm') { c.kind = 2; p++; }
			}
			calls[ncl++] = c;
			if (*p == ',') p++;
		}
	} else {
		calls[0].lo = 0; calls[0].hi = n;
		calls[0].kind = chunks[0] == 'Z' ? 2 : chunks[0] == 'N' ? 3 : 0;
		calls[0].k = chunks[0] == 'N' ? atol(chunks + 1) : 0;
		ncl = 1;
	}
	vmem = open_memstream(&vals, &valsn);
	lc_created = lc_freed = lc_free_null = 0;
	lc_fault = fault;
	enter_mode(m);
	for (i = 0; i < ncl; i++) {
		struct snap a;
		size_t len = calls[i].hi - calls[i].lo;
		unsigned char *b;
		struct json_object *o;
		enum json_tokener_error e;
		int clen;
		if (calls[i].kind == 4) {
			take(&a);
			json_tokener_reset(tok);
			inv_check(v, &a, m);
			if (errs[0]) strcat(errs, ",");
			strcat(errs, "reset");
			continue;
		}
		/* exact-size heap copy: ASan sees any read beyond the given length */
		b = (unsigned char *)malloc(len + 1);
		memcpy(b, text + calls[i].lo, len);
		clen = (int)len;
		if (calls[i].kind == 1) { b[len] = 0; clen = (int)len + 1; }
		else if (calls[i].kind == 2) { b[len] = 0; clen = -1; }
		else if (calls[i].kind == 3) { b[len] = 0; clen = (int)-calls[i].k; }
		else if (len == 0) { free(b); b = (unsigned char *)malloc(1); }
		else { unsigned char *e2 = (unsigned char *)malloc(len); memcpy(e2, b, len); free(b); b = e2; }
		take(&a);
		o = json_tokener_parse_ex(tok, (char *)b, clen);
		inv_check(v, &a, m);
		free(b);
		ncalls++;
		e = json_tokener_get_error(tok);
		if (errs[0]) strcat(errs, ",");
		strcat(errs, err_name(e));
		end = json_tokener_get_parse_end(tok);
		if (o) {
			/* dump after leaving the mode would be cleaner; jv_dump prints integers and hex only */
			char *d = dump_to_string(o);
			fprintf(vmem, "%s%s", nvals ? ";" : "", d);
			free(d);
			nvals++;
			json_object_put(o);
		}
		if (!history && e != json_tokener_continue) break;
		if (history && e != json_tokener_continue && e != json_tokener_success) json_tokener_reset(tok);
	}
	leave_mode(m);
	lc_fault = 0;
	*leak = lc_created - lc_freed + 1000 * lc_free_null;
	fclose(vmem);
	mem = open_memstream(&out, &outn);
	fprintf(mem, "%s %zu %s %d", errs, end, nvals ? vals : "-", ncalls);
	fclose(mem);
	free(vals);
	json_tokener_free(tok);
	return out;
}

static char *hex_string(const unsigned char *b, size_t n)
{
	char *s = (char *)malloc(2 * n + 2);
	size_t i;
	if (n == 0) { strcpy(s, "-"); return s; }
	for (i = 0; i < n; i++) sprintf(s + 2 * i, "%02x", b[i]);
	return s;
}

/* apply a per-object configuration to every double in the tree:
 *   'O' json_object_set_serializer(d, json_object_double_to_json_string, strdup(fmt), json_object_free_userdata)
 *       (the documented way to give one double its own printf format)
 *   'D' json_object_set_double(d, <its own value>): drops a retained source text, back to the formatted path */
static void cfg_doubles(struct json_object *o, char what, const char *fmt)
{
	if (!o) return;
	switch (json_object_get_type(o)) {
	case json_type_double:
		if (what == 'O')
			json_object_set_serializer(o, json_object_double_to_json_string, fmt ? strdup(fmt) : NULL,
			                           fmt ? json_object_free_userdata : NULL);
		else
			json_object_set_double(o, json_object_get_double(o));
		break;
	case json_type_array: {
		size_t i, n = json_object_array_length(o);
		for (i = 0; i < n; i++) cfg_doubles(json_object_array_get_idx(o, i), what, fmt);
		break; }
	case json_type_object: {
		struct lh_entry *e;
		for (e = json_object_get_object(o)->head; e; e = e->next) cfg_doubles((struct json_object *)lh_entry_v(e), what, fmt);
		break; }
	default: break;
	}
}

/* serializer configuration items applied in order to all the trees; returns 1 on a bad item */
static int apply_cfg(struct json_object **trees, int ntrees, char *cfg)
{
	char *save3 = NULL, *it;
	int bad = 0, i;
	if (!cfg || strcmp(cfg, "-") == 0) return 0;
	for (it = strtok_r(cfg, ",", &save3); it; it = strtok_r(NULL, ",", &save3)) {
		size_t fn = 0; unsigned char *fb = NULL; char *fmt = NULL;
		if (it[0] == 'G' || it[0] == 'T' || it[0] == 'O') {
			if (strcmp(it + 1, "0") != 0) {       /* "0" = NULL format (back to the default) */
				fb = unhex(it + 1, &fn);
				fmt = (char *)malloc(fn + 1); memcpy(fmt, fb, fn); fmt[fn] = 0; free(fb);
			}
		}
		switch (it[0]) {
		case 'G': if (json_c_set_serialization_double_format(fmt, JSON_C_OPTION_GLOBAL) != 0) bad = 1; break;
		case 'T': if (json_c_set_serialization_double_format(fmt, JSON_C_OPTION_THREAD) != 0) bad = 1; break;
		case 'O': for (i = 0; i < ntrees; i++) cfg_doubles(trees[i], 'O', fmt); break;
		case 'D': for (i = 0; i < ntrees; i++) cfg_doubles(trees[i], 'D', NULL); break;
		default: bad = 1;
		}
		free(fmt);
	}
	return bad;
}

/* ------------------------------------------------------------------ M: concurrent threads
 * Every thread owns a private tree (built by the main thread) and serialises it `iters` times under ITS
 * locale; every `pevery`-th iteration it also parses the reference text with its own tokener and
 * serialises the parsed tree.  Every text produced is compared byte for byte with the text computed
 * before the threads started (main thread, C locale).
 * The accounting allocator (xalloc.c) is single-threaded: the repeated serialisation of a warmed-up
 * tree does not allocate (checked before the threads start; the print buffer is pre-grown), and the
 * allocating segment (parse, first serialisation of the parsed tree, its release) runs under one
 * driver mutex.  So serialisations run concurrently with each other and with one parse at a time. */
#include <pthread.h>
#define MT_MAX 8
#define MT_KEEP 240
struct mt_thr {
	int id, role;                     /* role: 0 uselocale(comma)  1 stay on the global locale  2 uselocale(C object) */
	struct json_object *tree;
	struct json_tokener *tok;
	const char *ref; size_t reflen;   /* expected text of the own tree */
	int ref_null;                     /* … or the serialization is expected to fail (NULL) */
	const char *ref2; size_t ref2len; /* expected text of parse(ref): the retained source texts are echoed */
	const char *ref3; size_t ref3len; /* expected text of parse(ref) after json_object_set_double on every double: formatted again */
	long iters, pevery; int flags;
	long nser, npar, mism, pmism, perr; int lbad;
	int have_first; char first_kind; size_t got_len, want_len;
	unsigned char got[MT_KEEP], want[MT_KEEP];
};
static pthread_barrier_t mt_bar;
static pthread_mutex_t mt_alloc = PTHREAD_MUTEX_INITIALIZER;
static locale_t c_loc;

static void mt_note(struct mt_thr *t, char kind, const char *got, size_t gl, const char *want, size_t wl)
{
	if (t->have_first) return;
	t->have_first = 1; t->first_kind = kind;
	t->got_len = gl < MT_KEEP ? gl : MT_KEEP; t->want_len = wl < MT_KEEP ? wl : MT_KEEP;
	memcpy(t->got, got, t->got_len); memcpy(t->want, want, t->want_len);
}

static void *mt_worker(void *arg)
{
	struct mt_thr *t = (struct mt_thr *)arg;
	locale_t mine;
	long i;
	if (t->role == 0) uselocale(comma_loc);
	else if (t->role == 2) uselocale(c_loc);
	mine = uselocale((locale_t)0);
	pthread_barrier_wait(&mt_bar);
	for (i = 0; i < t->iters; i++) {
		size_t len = 0;
		const char *s = json_object_to_json_string_length(t->tree, t->flags, &len);
		t->nser++;
		if (t->ref_null ? s != NULL : (!s || len != t->reflen || memcmp(s, t->ref, len) != 0)) {
			t->mism++;
			mt_note(t, 'S', s ? s : "", s ? len : 0, t->ref, t->reflen);
		}
		if (t->pevery > 0 && i % t->pevery == 0) {
			struct json_object *o;
			pthread_mutex_lock(&mt_alloc);
			json_tokener_reset(t->tok);
			o = json_tokener_parse_ex(t->tok, t->ref, -1);
			t->npar++;
			if (!o) {
				t->perr++;
				mt_note(t, 'E', err_name(json_tokener_get_error(t->tok)), strlen(err_name(json_tokener_get_error(t->tok))), t->ref, t->reflen);
			} else {
				size_t l2 = 0;
				const char *s2 = json_object_to_json_string_length(o, t->flags, &l2);
				if (!s2 || l2 != t->ref2len || memcmp(s2, t->ref2, l2) != 0) {
					t->pmism++;
					mt_note(t, 'P', s2 ? s2 : "", s2 ? l2 : 0, t->ref2, t->ref2len);
				}
				cfg_doubles(o, 'D', NULL);
				s2 = json_object_to_json_string_length(o, t->flags, &l2);
				if (!s2 || l2 != t->ref3len || memcmp(s2, t->ref3, l2) != 0) {
					t->pmism++;
					mt_note(t, 'Q', s2 ? s2 : "", s2 ? l2 : 0, t->ref3, t->ref3len);
				}
				json_object_put(o);
			}
			pthread_mutex_unlock(&mt_alloc);
		}
		if (uselocale((locale_t)0) != mine) { t->lbad = 1; uselocale(mine); }
	}
	uselocale(LC_GLOBAL_LOCALE);
	return NULL;
}

/* M <variant> <nthreads> <iters> <pevery> <flags> <jvtext> [<cfg>]
 *   variant t: global locale C;     even threads uselocale(comma), odd threads stay on the global C locale
 *           g: global locale comma (setlocale); even threads stay on it, odd threads uselocale(C object)
 *           x: global locale C;     thread i: i%3==0 uselocale(comma), 1 global C, 2 uselocale(C object) */
static void run_threads(char *save)
{
	char *var = strtok_r(NULL, " ", &save), *nt = strtok_r(NULL, " ", &save), *its = strtok_r(NULL, " ", &save),
	     *pe = strtok_r(NULL, " ", &save), *fl = strtok_r(NULL, " ", &save), *jt = strtok_r(NULL, " ", &save),
	     *cfg = strtok_r(NULL, " ", &save);
	struct mt_thr T[MT_MAX];
	struct json_object *trees[MT_MAX];
	pthread_t th[MT_MAX];
	char *ref = NULL, *ref2 = NULL, *ref3 = NULL;
	size_t reflen = 0, ref2len = 0, ref3len = 0;
	int n, i, flags, bad = 0, ref_null = 0;
	long mism = 0, pmism = 0, perr = 0, nser = 0, npar = 0, lbad = 0, leak;
	struct mt_thr *first = NULL;
	if (!var || !nt || !its || !pe || !fl || !jt) { printf("BADLINE"); return; }
	n = atoi(nt); flags = atoi(fl);
	if (n < 1 || n > MT_MAX) { printf("BADLINE"); return; }
	if (!c_loc) c_loc = newlocale(LC_ALL_MASK, "C", (locale_t)0);
	memset(T, 0, sizeof T);
	for (i = 0; i < n; i++) {
		const char *p = jt; int err = 0;
		trees[i] = jv_parse(&p, &err);
		if (err || *p || !trees[i]) bad = 1;
	}
	if (!bad) bad = apply_cfg(trees, n, cfg);
	if (!bad) {
		/* reference texts: main thread, C locale, before any thread exists */
		size_t len = 0;
		const char *s = json_object_to_json_string_length(trees[0], flags, &len);
		struct json_tokener *tk = json_tokener_new();
		struct json_object *o2 = NULL;
		if (!s) { ref_null = 1; len = 0; }      /* the format in effect makes the serialization fail: every thread must get NULL too */
		ref = (char *)malloc(len + 1); if (s) memcpy(ref, s, len); ref[len] = 0; reflen = len;
		if (s) o2 = json_tokener_parse_ex(tk, ref, -1);
		if (o2) {
			s = json_object_to_json_string_length(o2, flags, &len);
			ref2 = (char *)malloc(len + 1); memcpy(ref2, s, len); ref2[len] = 0; ref2len = len;
			cfg_doubles(o2, 'D', NULL);
			s = json_object_to_json_string_length(o2, flags, &len);
			ref3 = (char *)malloc(len + 1); memcpy(ref3, s, len); ref3[len] = 0; ref3len = len;
			json_object_put(o2);
		}
		json_tokener_free(tk);
	}
	for (i = 0; i < n && !bad; i++) {
		size_t len = 0; long c0;
		/* warm up: the print buffer exists and has room for a (wrongly) longer text; a further
		 * serialisation must not allocate */
		json_object_to_json_string_length(trees[i], flags, &len);
		printbuf_memset(trees[i]->_pb, (int)(len * 3 + 256), 0, 1);
		c0 = xa_count;
		json_object_to_json_string_length(trees[i], flags, &len);
		if (xa_count != c0) bad = 2;
		T[i].id = i; T[i].tree = trees[i];
		T[i].role = var[0] == 't' ? (i % 2 == 0 ? 0 : 1) : var[0] == 'g' ? (i % 2 == 0 ? 1 : 2) : (i % 3);
		T[i].ref = ref; T[i].reflen = reflen; T[i].ref_null = ref_null; T[i].ref2 = ref2; T[i].ref2len = ref2len; T[i].ref3 = ref3; T[i].ref3len = ref3len;
		T[i].iters = atol(its); T[i].pevery = ref2 ? atol(pe) : 0; T[i].flags = flags;
		T[i].tok = json_tokener_new();
	}
	if (bad) {
		printf(bad == 2 ? "NOTALLOCFREE" : "BADTREE");
	} else {
		lc_created = lc_freed = lc_free_null = 0;
		if (var[0] == 'g') setlocale(LC_ALL, LOCNAME);
		pthread_barrier_init(&mt_bar, NULL, (unsigned)n);
		for (i = 0; i < n; i++) pthread_create(&th[i], NULL, mt_worker, &T[i]);
		for (i = 0; i < n; i++) pthread_join(th[i], NULL);
		pthread_barrier_destroy(&mt_bar);
		setlocale(LC_ALL, "C");
		uselocale(LC_GLOBAL_LOCALE);
		leak = lc_created - lc_freed + 1000 * lc_free_null;
		for (i = 0; i < n; i++) {
			mism += T[i].mism; pmism += T[i].pmism; perr += T[i].perr; nser += T[i].nser; npar += T[i].npar; lbad += T[i].lbad;
			if (T[i].have_first && !first) first = &T[i];
		}
		printf("M mism=%ld pmism=%ld perr=%ld lbad=%ld L%ld ser=%ld par=%ld first=", mism, pmism, perr, lbad, leak, nser, npar);
		if (first) {
			printf("%c%d:", first->first_kind, first->role);
			puthex(first->got, first->got_len); putchar('/'); puthex(first->want, first->want_len);
		} else printf("-");
	}
	for (i = 0; i < n; i++) {
		if (T[i].tok) json_tokener_free(T[i].tok);
		if (trees[i]) json_object_put(trees[i]);
	}
	free(ref); free(ref2); free(ref3);
	json_c_set_serialization_double_format(NULL, JSON_C_OPTION_THREAD);
	json_c_set_serialization_double_format(NULL, JSON_C_OPTION_GLOBAL);
}

void run_case(char *rest)
{
	char *save = NULL, *op = strtok_r(rest, " ", &save);
	char *data[3] = { NULL, NULL, NULL };
	struct inv v[3];
	long leak[3] = { 0, 0, 0 };
	int k, same;
	long live0;
	setup();
	if (setup_state != 1) { printf("NOLOCALE"); return; }
	if (!op) { printf("BADLINE"); return; }
	xa_reset();
	live0 = xa_live;
	if (op[0] == 'M') {
		run_threads(save);
		if (xa_live != live0) printf(" | LEAK %ld", xa_live - live0);
		return;
	}
	if (op[0] == 'P') {
		char *hx = strtok_r(NULL, " ", &save), *fl = strtok_r(NULL, " ", &save), *dp = strtok_r(NULL, " ", &save),
		     *ch = strtok_r(NULL, " ", &save), *ft = strtok_r(NULL, " ", &save);
		size_t n; unsigned char *text;
		if (!hx || !fl || !dp || !ch || !ft) { printf("BADLINE"); return; }
		text = unhex(hx, &n);
		for (k = 0; k < 3; k++)
			data[k] = parse_mode(MODES[k], text, n, atoi(fl), atoi(dp), ch, atoi(ft), &v[k], &leak[k]);
		free(text);
	} else if (op[0] == 'S') {
		char *jt = strtok_r(NULL, " ", &save), *fl = strtok_r(NULL, " ", &save), *cfg = strtok_r(NULL, " ", &save);
		const char *p = jt;
		int err = 0, cfg_bad = 0;
		struct json_object *o;
		if (!jt || !fl) { printf("BADLINE"); return; }
		o = jv_parse(&p, &err);
		if (err || *p) { printf("BADTREE"); if (o) json_object_put(o); return; }
		/* serializer configuration, applied in order (in the C locale, before the three modes) */
		cfg_bad = apply_cfg(&o, 1, cfg);
		for (k = 0; k < 3 && !cfg_bad; k++) {
			struct snap a;
			const char *s;
			size_t len = 0;
			inv_init(&v[k]);
			lc_created = lc_freed = lc_free_null = 0;
			enter_mode(MODES[k]);
			take(&a);
			s = json_object_to_json_string_length(o, atoi(fl), &len);
			inv_check(&v[k], &a, MODES[k]);
			leave_mode(MODES[k]);
			data[k] = s ? hex_string((const unsigned char *)s, len) : strdup("NULL");
			leak[k] = lc_created - lc_freed;
		}
		if (o) json_object_put(o);
		json_c_set_serialization_double_format(NULL, JSON_C_OPTION_THREAD);
		json_c_set_serialization_double_format(NULL, JSON_C_OPTION_GLOBAL);
		if (cfg_bad) { printf("BADCFG"); return; }
	} else if (op[0] == 'G') {
		char *hx = strtok_r(NULL, " ", &save);
		size_t n; unsigned char *b;
		struct json_object *o;
		if (!hx) { printf("BADLINE"); return; }
		b = unhex(hx, &n);
		o = json_object_new_string_len((char *)b, (int)n);
		free(b);
		for (k = 0; k < 3; k++) {
			struct snap a;
			double d; uint64_t bits; int e;
			char buf[64];
			inv_init(&v[k]);
			lc_created = lc_freed = lc_free_null = 0;
			enter_mode(MODES[k]);
			take(&a);
			errno = 0;
			d = json_object_get_double(o);
			e = errno;
			inv_check(&v[k], &a, MODES[k]);
			leave_mode(MODES[k]);
			memcpy(&bits, &d, 8);
			if (d != d) bits = 0x7ff8000000000000ull;
			snprintf(buf, sizeof buf, "d%016llx:%s", (unsigned long long)bits, errno_name(e));
			data[k] = strdup(buf);
			leak[k] = lc_created - lc_freed;
		}
		json_object_put(o);
	} else if (op[0] == 'F') {
		char *hx = strtok_r(NULL, " ", &save);
		uint64_t bits; double d;
		if (!hx) { printf("BADLINE"); return; }
		bits = strtoull(hx, NULL, 16);
		memcpy(&d, &bits, 8);
		for (k = 0; k < 3; k++) {
			struct snap a;
			char buf[128];
			int n;
			inv_init(&v[k]);
			lc_created = lc_freed = lc_free_null = 0;
			enter_mode(MODES[k]);
			take(&a);
			n = snprintf(buf, sizeof buf, "%.17g", d);
			inv_check(&v[k], &a, MODES[k]);
			leave_mode(MODES[k]);
			data[k] = hex_string((unsigned char *)buf, n > 0 ? (size_t)n : 0);
			leak[k] = 0;
		}
	} else { printf("BADOP"); return; }
	same = strcmp(data[0], data[1]) == 0 && strcmp(data[0], data[2]) == 0;
	for (k = 0; k < 3; k++) {
		if (k) printf(" | ");
		printf("%c %s H%d D%d F%d L%ld sep=%s", MODES[k], data[k], v[k].h, v[k].d, v[k].f, leak[k], v[k].sep);
		free(data[k]);
	}
	printf(" | same %d", same);
	if (xa_live != live0) printf(" | LEAK %ld", xa_live - live0);
}
