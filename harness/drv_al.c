/* drv_al.c — array-list domain (C07).  Same script and observation format as
 * ocaml/drv_al.ml.  Mode d drives array_list_* directly (elements are heap boxes holding
 * the id, the free callback logs and frees them); mode j drives json_object_array_* of
 * json_object.c (elements are json int objects, or json strings holding the decimal text when
 * the id is a multiple of 3, whose value — as json_object_get_int64 reads it — is the id; a
 * userdata delete callback logs the CURRENT value when the array's json_object_put destroys
 * the element).
 * Ops: A P I D H G M as before; S / R sort by the ascending / descending comparator; B<k> / C<k>
 * bsearch by the ascending / descending comparator; V<i>,<v> changes the value of element i in
 * place (json_object_set_int64 / set_int / set_string on the element, *box = v in mode d) without
 * calling the array.  A lower-case op letter (a p i d h g m s r b c) performs the same operation
 * through array_list_* on json_object_get_array(arr) in mode j (same as upper case in mode d). */
#include <ctype.h>
#include "common.h"
#include "arraylist.h"
#include "json_object.h"
const char *DOMAIN = "al";

static int jmode;
static int jmode_is_j(void) { return jmode; }
static long *rel_log;
static size_t rel_n, rel_cap;
static long live_elts;     /* elements created and not yet destroyed */
static int quiet;          /* the driver itself drops an element the array refused */

static void log_rel(long id)
{
	if (quiet) return;
	if (rel_n == rel_cap) {
		rel_cap = rel_cap ? rel_cap * 2 : 1024;
		rel_log = (long *)(realloc)(rel_log, rel_cap * sizeof(long));
	}
	rel_log[rel_n++] = id;
}
/* sequences (contents, released ids) are printed run-length encoded so that arrays of
 * tens of thousands of slots stay one short token: "e" one element, "e*k" k copies (k >= 3),
 * "e+k" the k consecutive ids e, e+1, ... (k >= 3); n = NULL; "-" = empty. */
#define NUL LONG_MIN
static void put_seq(const long *v, size_t n)
{
	size_t i = 0;
	if (n == 0) { putchar('-'); return; }
	while (i < n) {
		size_t r = 1, s = 1;
		while (i + r < n && v[i + r] == v[i]) r++;
		if (v[i] != NUL)
			while (i + s < n && v[i + s] != NUL && v[i + s] == v[i] + (long)s) s++;
		if (i) putchar(',');
		if (v[i] == NUL) putchar('n'); else printf("%ld", v[i]);
		if (r >= 3) { printf("*%zu", r); i += r; }
		else if (s >= 3) { printf("+%zu", s); i += s; }
		else i++;
	}
}
/* ---- mode d ---- */
static void box_free(void *p)
{
	log_rel(*(long *)p);
	live_elts--;
	(free)(p);
}
static void *mkbox(long id)
{
	long *b = (long *)(malloc)(sizeof(long));
	*b = id;
	live_elts++;
	return b;
}
static int cmp_box(const void *a, const void *b)
{
	const long *x = *(const long *const *)a, *y = *(const long *const *)b;
	if (!x || !y) return (x != NULL) - (y != NULL);
	return (*x > *y) - (*x < *y);
}
static int cmp_box_desc(const void *a, const void *b) { return cmp_box(b, a); }
/* ---- mode j ---- */
static void jdel(struct json_object *o, void *ud)
{
	(void)ud;
	log_rel((long)json_object_get_int64(o));     /* the value the element has now */
	live_elts--;
}
static struct json_object *mkjint(long id)
{
	struct json_object *o;
	if (id % 3 == 0) {
		char buf[32];
		snprintf(buf, sizeof buf, "%ld", id);
		o = json_object_new_string(buf);
	} else
		o = json_object_new_int64(id);
	if (!o) return NULL;
	json_object_set_userdata(o, (void *)(intptr_t)id, jdel);
	live_elts++;
	return o;
}
static int cmp_j(const void *a, const void *b)
{
	struct json_object *x = *(struct json_object *const *)a, *y = *(struct json_object *const *)b;
	int64_t u, v;
	if (!x || !y) return (x != NULL) - (y != NULL);
	u = json_object_get_int64(x); v = json_object_get_int64(y);
	return (u > v) - (u < v);
}
static int cmp_j_desc(const void *a, const void *b) { return cmp_j(b, a); }
static int jmode_null_set(void)
{
	/* the setters accept a NULL object and report failure */
	return jmode ? json_object_set_int64(NULL, 5) : 0;
}
/* change the value of an element in place; 1 = done, 0 = nothing to change (NULL element) */
static int set_value(void *p, long v)
{
	struct json_object *o = (struct json_object *)p;
	if (!p) return jmode_null_set();
	if (!jmode_is_j()) { *(long *)p = v; return 1; }
	if (json_object_get_type(o) == json_type_string) {
		char buf[32];
		if (json_object_set_int64(o, 777) != 0 || json_object_set_int(o, 7) != 0) return -7;  /* wrong-type setters must refuse */
		snprintf(buf, sizeof buf, "%ld", v);
		return json_object_set_string(o, buf);
	}
	if (json_object_set_string(o, "777") != 0) return -7;
	if ((v & 1) && v <= INT_MAX) return json_object_set_int(o, (int)v);
	return json_object_set_int64(o, (int64_t)v);
}

static struct array_list *arr;
static struct json_object *jarr;

static void *get(size_t i)
{
	return jmode ? (void *)json_object_array_get_idx(jarr, i) : array_list_get_idx(arr, i);
}
static long id_of(void *p)
{
	return jmode ? (long)json_object_get_int64((struct json_object *)p) : *(long *)p;
}
static void *mkid(long id)
{
	return jmode ? (void *)mkjint(id) : mkbox(id);
}
static void *mkelt(const char *s)
{
	if (s[0] == 'n') return NULL;
	return mkid(strtol(s, NULL, 10));
}
static void drop(void *p)      /* the array refused the element: the caller still owns it */
{
	if (!p) return;
	quiet = 1;
	if (jmode) json_object_put((struct json_object *)p); else box_free(p);
	quiet = 0;
}
static void put_ids(void)
{
	put_seq(rel_log, rel_n);
}
static void obs(const char *ret)
{
	size_t len = jmode ? json_object_array_length(jarr) : array_list_length(arr);
	size_t size = jmode ? json_object_get_array(jarr)->size : arr->size;
	size_t i;
	long *v = (long *)(malloc)((len ? len : 1) * sizeof(long));
	printf("%s %zu %zu ", ret, len, size);
	put_ids();
	putchar(' ');
	for (i = 0; i < len; i++) {
		void *p = get(i);
		v[i] = p ? id_of(p) : NUL;
	}
	put_seq(v, len);
	(free)(v);
	printf(" %d", (get(len) == NULL && get(len + 1) == NULL && get(SIZE_MAX) == NULL) ? 1 : 0);
}

void run_case(char *rest)
{
	char *mode, *limit, *init, *ops, *tok, *save = NULL, *sv2 = NULL;
	int first = 1;
	mode = strtok_r(rest, " ", &sv2);
	limit = strtok_r(NULL, " ", &sv2);
	init = strtok_r(NULL, " ", &sv2);
	ops = strtok_r(NULL, " ", &sv2);
	if (!mode || !limit || !init || !ops) { printf("BADLINE"); return; }
	jmode = (mode[0] == 'j');
	xa_reset();
	rel_n = 0; live_elts = 0; quiet = 0;
	xa_limit = (size_t)strtoull(limit, NULL, 10);
	arr = NULL; jarr = NULL;
	if (jmode) jarr = json_object_new_array_ext((int)strtoll(init, NULL, 10));
	else arr = array_list_new2(box_free, (int)strtoll(init, NULL, 10));
	if (!arr && !jarr) {
		printf("NEWFAIL");
		if (xa_live != 0) printf(" | XLEAK %ld", xa_live);
		return;
	}
	for (tok = strtok_r(ops, ";", &save); tok; tok = strtok_r(NULL, ";", &save)) {
		char *comma = strchr(tok, ',');
		int r = 0;
		char rbuf[32];
		/* lower case: through array_list_* on json_object_get_array() (mode j) */
		int viaj = jmode && !islower((unsigned char)tok[0]);
		struct array_list *al = jmode ? json_object_get_array(jarr) : arr;
		if (!first) printf(" | ");
		first = 0;
		rel_n = 0;
		switch (toupper((unsigned char)tok[0])) {
		case 'A': {
			void *e = mkelt(tok + 1);
			r = viaj ? json_object_array_add(jarr, (struct json_object *)e) : array_list_add(al, e);
			if (r != 0) drop(e);
			break; }
		case 'M': {      /* M<k>,<id0>: k appends of the ids id0, id0+1, ...; stops at the first refusal */
			size_t k = (size_t)strtoull(tok + 1, NULL, 10), j;
			long id0;
			if (!comma) { printf("BADOP"); goto out; }
			id0 = strtol(comma + 1, NULL, 10);
			for (j = 0; j < k; j++) {
				void *e = mkid(id0 + (long)j);
				r = viaj ? json_object_array_add(jarr, (struct json_object *)e) : array_list_add(al, e);
				if (r != 0) { drop(e); break; }
			}
			break; }
		case 'P': case 'I': {
			size_t i = (size_t)strtoull(tok + 1, NULL, 10);
			void *e;
			if (!comma) { printf("BADOP"); goto out; }
			e = mkelt(comma + 1);
			if (toupper((unsigned char)tok[0]) == 'P')
				r = viaj ? json_object_array_put_idx(jarr, i, (struct json_object *)e) : array_list_put_idx(al, i, e);
			else
				r = viaj ? json_object_array_insert_idx(jarr, i, (struct json_object *)e) : array_list_insert_idx(al, i, e);
			if (r != 0) drop(e);
			break; }
		case 'D': {
			size_t i = (size_t)strtoull(tok + 1, NULL, 10), c;
			if (!comma) { printf("BADOP"); goto out; }
			c = (size_t)strtoull(comma + 1, NULL, 10);
			r = viaj ? json_object_array_del_idx(jarr, i, c) : array_list_del_idx(al, i, c);
			break; }
		case 'H': {
			unsigned long long n = strtoull(tok + 1, NULL, 10);
			if (viaj) {
				if (n > INT_MAX) { printf("BADOP"); goto out; }
				r = json_object_array_shrink(jarr, (int)n);
			} else
				r = array_list_shrink(al, (size_t)n);
			break; }
		case 'S': case 'R': {
			int desc = toupper((unsigned char)tok[0]) == 'R';
			int (*cmp)(const void *, const void *) =
				jmode ? (desc ? cmp_j_desc : cmp_j) : (desc ? cmp_box_desc : cmp_box);
			if (viaj) json_object_array_sort(jarr, cmp); else array_list_sort(al, cmp);
			r = 0;
			break; }
		case 'V': {
			size_t i = (size_t)strtoull(tok + 1, NULL, 10);
			if (!comma) { printf("BADOP"); goto out; }
			r = set_value(get(i), strtol(comma + 1, NULL, 10));
			if (r == -7) { printf("BADSET"); goto out; }
			break; }
		case 'G': {
			size_t gi = (size_t)strtoull(tok + 1, NULL, 10);
			void *p = viaj || !jmode ? get(gi) : array_list_get_idx(al, gi);
			if (p) snprintf(rbuf, sizeof rbuf, "%ld", id_of(p)); else strcpy(rbuf, "n");
			obs(rbuf);
			continue; }
		case 'B': case 'C': {
			void *k = mkelt(tok + 1);
			int found;
			int desc = toupper((unsigned char)tok[0]) == 'C';
			int (*cmp)(const void *, const void *) =
				jmode ? (desc ? cmp_j_desc : cmp_j) : (desc ? cmp_box_desc : cmp_box);
			if (viaj)
				found = json_object_array_bsearch((struct json_object *)k, jarr, cmp) != NULL;
			else
				found = array_list_bsearch((const void **)&k, al, cmp) != NULL;
			drop(k);
			obs(found ? "f" : "nf");
			continue; }
		default: printf("BADOP"); goto out;
		}
		snprintf(rbuf, sizeof rbuf, "%d", r);
		obs(rbuf);
	}
	rel_n = 0;
	if (jmode) json_object_put(jarr); else array_list_free(arr);
	arr = NULL; jarr = NULL;
	printf(" | F ");
	put_ids();
out:
	if (jarr) json_object_put(jarr);
	if (arr) array_list_free(arr);
	if (live_elts != 0) printf(" | LEAK %ld", live_elts);
	if (xa_live != 0) printf(" | XLEAK %ld", xa_live);
}
