/* drv_al.c — array-list domain (C07).  Same script and observation format as
 * ocaml/drv_al.ml.
 * Mode d drives array_list_* directly: elements are heap boxes {id, tag}; the free callback
 * logs the box's current id and frees it.
 * Mode j drives json_object_array_* of json_object.c: an element with value n is, by n,
 *   n % 5 == 1   a record  {"id": n, "p": "x"}
 *   n % 5 == 2   a record  [n, "x"]
 *   n % 3 == 0   a json string holding the decimal text
 *   otherwise    a json int
 * and its value is what jval() reads.  A userdata delete callback logs the CURRENT value when
 * the array's json_object_put destroys the element.
 * Ops: A P I D H G M (store / delete / shrink / read / block append); S / R sort by the ascending /
 * descending member-vs-member comparator; B<e> / C<e> bsearch with a key of member shape;
 * K<k> / Q<k> bsearch with a BARE INT key (json int / key box) and the key-vs-member comparator,
 * which reads its first argument as a key and its second as a member, as bsearch(3) promises;
 * V<i>,<v> changes the value of element i in place without calling the array.
 * A lower-case op letter performs the same operation through array_list_* on
 * json_object_get_array(arr) in mode j (same as upper case in mode d).
 * Every comparator call is checked for the roles of its arguments: during a search the first must
 * point to the key and the second into the array's slots; during a sort both must point to
 * elements the array held when the sort began.  A violated role turns the step's first token
 * into ROLE. */
#include <ctype.h>
#include "common.h"
#include "arraylist.h"
#include "json_object.h"
const char *DOMAIN = "al";

static int jmode;
static struct array_list *arr;
static struct json_object *jarr;

static long *rel_log;
static size_t rel_n, rel_cap;
static long live_elts;     /* elements created and not yet destroyed */
static int quiet;          /* the driver itself drops an element the array refused */

static void log_rel(long id)
{
	if (quiet) return;
	if (rel_n == rel_cap) {
		rel_cap = rel_cap ? rel_cap * 2 : 1024;
		rel_log = (long *)(realloc)(rel_log, rel_cap * sizeof(long));
	}
	rel_log[rel_n++] = id;
}
/* sequences (contents, released ids) are printed run-length encoded so that arrays of
 * tens of thousands of slots stay one short token: "e" one element, "e*k" k copies (k >= 3),
 * "e+k" the k consecutive ids e, e+1, ... (k >= 3); n = NULL; "-" = empty. */
#define NUL LONG_MIN
static void put_seq(const long *v, size_t n)
{
	size_t i = 0;
	if (n == 0) { putchar('-'); return; }
	while (i < n) {
		size_t r = 1, s = 1;
		while (i + r < n && v[i + r] == v[i]) r++;
		if (v[i] != NUL)
			while (i + s < n && v[i + s] != NUL && v[i + s] == v[i] + (long)s) s++;
		if (i) putchar(',');
		if (v[i] == NUL) putchar('n'); else printf("%ld", v[i]);
		if (r >= 3) { printf("*%zu", r); i += r; }
		else if (s >= 3) { printf("+%zu", s); i += s; }
		else i++;
	}
}

/* ---- elements, mode d ---- */
#define BOXTAG 0x0b0cL
#define KEYTAG 0x0e11L
struct box { long id; long tag; };
static void box_free(void *p)
{
	log_rel(((struct box *)p)->id);
	live_elts--;
	(free)(p);
}
static void *mkbox(long id)
{
	struct box *b = (struct box *)(malloc)(sizeof *b);
	b->id = id; b->tag = BOXTAG;
	live_elts++;
	return b;
}
/* ---- elements, mode j ---- */
static long jval(struct json_object *o)
{
	switch (json_object_get_type(o)) {
	case json_type_object: return (long)json_object_get_int64(json_object_object_get(o, "id"));
	case json_type_array: return (long)json_object_get_int64(json_object_array_get_idx(o, 0));
	default: return (long)json_object_get_int64(o);
	}
}
static void jdel(struct json_object *o, void *ud)
{
	(void)ud;
	log_rel(jval(o));     /* the value the element has now */
	live_elts--;
}
static struct json_object *mkjelt(long id)
{
	struct json_object *o;
	size_t keep = xa_limit;
	char buf[32];
	xa_limit = 0;           /* the allocation limit is about the array, not about its elements */
	snprintf(buf, sizeof buf, "%ld", id);
	if (id % 5 == 1) {
		o = json_object_new_object();
		json_object_object_add(o, "id", json_object_new_int64(id));
		json_object_object_add(o, "p", json_object_new_string("x"));
	} else if (id % 5 == 2) {
		o = json_object_new_array_ext(2);
		json_object_array_add(o, json_object_new_int64(id));
		json_object_array_add(o, json_object_new_string("x"));
	} else if (id % 3 == 0)
		o = json_object_new_string(buf);
	else
		o = json_object_new_int64(id);
	json_object_set_userdata(o, (void *)(intptr_t)id, jdel);
	xa_limit = keep;
	live_elts++;
	return o;
}
static long id_of(void *p)
{
	return jmode ? jval((struct json_object *)p) : ((struct box *)p)->id;
}
static void *mkid(long id)
{
	return jmode ? (void *)mkjelt(id) : mkbox(id);
}
static void *mkelt(const char *s)
{
	if (s[0] == 'n') return NULL;
	return mkid(strtol(s, NULL, 10));
}
static void drop(void *p)      /* the array refused the element: the caller still owns it */
{
	if (!p) return;
	quiet = 1;
	if (jmode) json_object_put((struct json_object *)p); else box_free(p);
	quiet = 0;
}
/* change the value of an element in place; 1 = done, 0 = nothing to change (NULL element),
 * -7 = a setter of the wrong type did not refuse */
static int set_value(void *p, long v)
{
	struct json_object *o = (struct json_object *)p;
	size_t keep = xa_limit;
	char buf[32];
	int r;
	if (!p) return jmode ? json_object_set_int64(NULL, 5) : 0;   /* the setters accept NULL and report failure */
	if (!jmode) { ((struct box *)p)->id = v; return 1; }
	xa_limit = 0;
	snprintf(buf, sizeof buf, "%ld", v);
	switch (json_object_get_type(o)) {
	case json_type_string:
		r = (json_object_set_int64(o, 777) != 0 || json_object_set_int(o, 7) != 0) ? -7 : json_object_set_string(o, buf);
		break;
	case json_type_object:
		r = (json_object_set_int64(o, 777) != 0 || json_object_set_string(o, "777") != 0) ? -7
		    : json_object_set_int64(json_object_object_get(o, "id"), (int64_t)v);
		break;
	case json_type_array:
		r = (json_object_set_int64(o, 777) != 0 || json_object_set_string(o, "777") != 0) ? -7
		    : json_object_set_int64(json_object_array_get_idx(o, 0), (int64_t)v);
		break;
	default:
		if (json_object_set_string(o, "777") != 0) r = -7;
		else if ((v & 1) && v <= INT_MAX) r = json_object_set_int(o, (int)v);
		else r = json_object_set_int64(o, (int64_t)v);
	}
	xa_limit = keep;
	return r;
}

/* ---- comparators, with the roles of their arguments recorded ---- */
static int role_bad;               /* a comparator call broke the contract during this step */
static const void *cur_key;        /* the key object of the search in progress */
static void **slots_lo, **slots_hi;/* the slots of the array being searched */
static void **snap; static size_t snap_n;   /* the elements the array held when the sort began */

static int cmp_ptr(const void *a, const void *b)
{
	uintptr_t x = (uintptr_t)*(void *const *)a, y = (uintptr_t)*(void *const *)b;
	return (x > y) - (x < y);
}
static int in_snapshot(const void *p)
{
	return p == NULL || bsearch(&p, snap, snap_n, sizeof(void *), cmp_ptr) != NULL;
}
/* search: (key, member).  sort: (member, member). */
static void check_roles(const void *a, const void *b)
{
	if (cur_key) {
		void *const *sb = (void *const *)b;
		if (*(void *const *)a != cur_key) role_bad = 1;
		if (sb < (void *const *)slots_lo || sb >= (void *const *)slots_hi) role_bad = 1;
	} else if (snap) {
		if (!in_snapshot(*(void *const *)a) || !in_snapshot(*(void *const *)b)) role_bad = 1;
	}
}
/* member vs member (sorting, and searching with a key of member shape): NULL first, then by value */
static int cmp_mm(const void *a, const void *b)
{
	void *x = *(void *const *)a, *y = *(void *const *)b;
	long u, v;
	check_roles(a, b);
	if (!x || !y) return (x != NULL) - (y != NULL);
	u = id_of(x); v = id_of(y);
	return (u > v) - (u < v);
}
static int cmp_mm_desc(const void *a, const void *b)
{
	void *x = *(void *const *)a, *y = *(void *const *)b;
	long u, v;
	check_roles(a, b);
	if (!x || !y) return (y != NULL) - (x != NULL);
	u = id_of(x); v = id_of(y);
	return (v > u) - (v < u);
}
/* key vs member, the bsearch(3) contract: the FIRST argument points to the key — a bare int: a json
 * int in mode j, a key box in mode d — and the SECOND to an array member (int, string or record).
 * Each side is read the way its role says, as client code written against the contract would. */
static long key_of(const void *k)
{
	const struct box *kb = *(const struct box *const *)k;
	if (jmode) return (long)json_object_get_int64(*(struct json_object *const *)k);
	return kb && kb->tag == KEYTAG ? kb->id : 0;     /* not a key (a broken caller): no id to read */
}
static int cmp_km(const void *k, const void *m)
{
	void *y = *(void *const *)m;
	long u, v;
	check_roles(k, m);
	if (!y) return 1;              /* NULL members sort first: the key is above them */
	u = key_of(k); v = id_of(y);
	return (u > v) - (u < v);
}
static int cmp_km_desc(const void *k, const void *m)
{
	void *y = *(void *const *)m;
	long u, v;
	check_roles(k, m);
	if (!y) return -1;             /* NULL members sort last */
	u = key_of(k); v = id_of(y);
	return (v > u) - (v < u);
}

static void *get(size_t i)
{
	return jmode ? (void *)json_object_array_get_idx(jarr, i) : array_list_get_idx(arr, i);
}
static void put_ids(void)
{
	put_seq(rel_log, rel_n);
}
static void obs(const char *ret)
{
	size_t len = jmode ? json_object_array_length(jarr) : array_list_length(arr);
	size_t size = jmode ? json_object_get_array(jarr)->size : arr->size;
	size_t i;
	long *v = (long *)(malloc)((len ? len : 1) * sizeof(long));
	printf("%s %zu %zu ", role_bad ? "ROLE" : ret, len, size);
	put_ids();
	putchar(' ');
	for (i = 0; i < len; i++) {
		void *p = get(i);
		v[i] = p ? id_of(p) : NUL;
	}
	put_seq(v, len);
	(free)(v);
	printf(" %d", (get(len) == NULL && get(len + 1) == NULL && get(SIZE_MAX) == NULL) ? 1 : 0);
}

void run_case(char *rest)
{
	char *mode, *limit, *init, *ops, *tok, *save = NULL, *sv2 = NULL;
	int first = 1;
	mode = strtok_r(rest, " ", &sv2);
	limit = strtok_r(NULL, " ", &sv2);
	init = strtok_r(NULL, " ", &sv2);
	ops = strtok_r(NULL, " ", &sv2);
	if (!mode || !limit || !init || !ops) { printf("BADLINE"); return; }
	jmode = (mode[0] == 'j');
	xa_reset();
	rel_n = 0; live_elts = 0; quiet = 0; role_bad = 0; cur_key = NULL; snap = NULL;
	xa_limit = (size_t)strtoull(limit, NULL, 10);
	arr = NULL; jarr = NULL;
	if (jmode) jarr = json_object_new_array_ext((int)strtoll(init, NULL, 10));
	else arr = array_list_new2(box_free, (int)strtoll(init, NULL, 10));
	if (!arr && !jarr) {
		printf("NEWFAIL");
		if (xa_live != 0) printf(" | XLEAK %ld", xa_live);
		return;
	}
	for (tok = strtok_r(ops, ";", &save); tok; tok = strtok_r(NULL, ";", &save)) {
		char *comma = strchr(tok, ',');
		int r = 0;
		char rbuf[40];
		int up = toupper((unsigned char)tok[0]);
		/* lower case: through array_list_* on json_object_get_array() (mode j) */
		int viaj = jmode && !islower((unsigned char)tok[0]);
		struct array_list *al = jmode ? json_object_get_array(jarr) : arr;
		if (!first) printf(" | ");
		first = 0;
		rel_n = 0;
		role_bad = 0;
		switch (up) {
		case 'A': {
			void *e = mkelt(tok + 1);
			r = viaj ? json_object_array_add(jarr, (struct json_object *)e) : array_list_add(al, e);
			if (r != 0) drop(e);
			break; }
		case 'M': {      /* M<k>,<id0>: k appends of the ids id0, id0+1, ...; stops at the first refusal */
			size_t k = (size_t)strtoull(tok + 1, NULL, 10), j;
			long id0;
			if (!comma) { printf("BADOP"); goto out; }
			id0 = strtol(comma + 1, NULL, 10);
			for (j = 0; j < k; j++) {
				void *e = mkid(id0 + (long)j);
				r = viaj ? json_object_array_add(jarr, (struct json_object *)e) : array_list_add(al, e);
				if (r != 0) { drop(e); break; }
			}
			break; }
		case 'P': case 'I': {
			size_t i = (size_t)strtoull(tok + 1, NULL, 10);
			void *e;
			if (!comma) { printf("BADOP"); goto out; }
			e = mkelt(comma + 1);
			if (up == 'P')
				r = viaj ? json_object_array_put_idx(jarr, i, (struct json_object *)e) : array_list_put_idx(al, i, e);
			else
				r = viaj ? json_object_array_insert_idx(jarr, i, (struct json_object *)e) : array_list_insert_idx(al, i, e);
			if (r != 0) drop(e);
			break; }
		case 'D': {
			size_t i = (size_t)strtoull(tok + 1, NULL, 10), c;
			if (!comma) { printf("BADOP"); goto out; }
			c = (size_t)strtoull(comma + 1, NULL, 10);
			r = viaj ? json_object_array_del_idx(jarr, i, c) : array_list_del_idx(al, i, c);
			break; }
		case 'H': {
			unsigned long long n = strtoull(tok + 1, NULL, 10);
			if (viaj) {
				if (n > INT_MAX) { printf("BADOP"); goto out; }
				r = json_object_array_shrink(jarr, (int)n);
			} else
				r = array_list_shrink(al, (size_t)n);
			break; }
		case 'S': case 'R': {
			int (*cmp)(const void *, const void *) = up == 'R' ? cmp_mm_desc : cmp_mm;
			/* what the array holds now: every comparator argument must point to one of these */
			snap_n = al->length;
			snap = (void **)(malloc)((snap_n ? snap_n : 1) * sizeof(void *));
			memcpy(snap, al->array, snap_n * sizeof(void *));
			qsort(snap, snap_n, sizeof(void *), cmp_ptr);
			if (viaj) json_object_array_sort(jarr, cmp); else array_list_sort(al, cmp);
			(free)(snap); snap = NULL;
			r = 0;
			break; }
		case 'V': {
			size_t i = (size_t)strtoull(tok + 1, NULL, 10);
			if (!comma) { printf("BADOP"); goto out; }
			r = set_value(get(i), strtol(comma + 1, NULL, 10));
			if (r == -7) { printf("BADSET"); goto out; }
			break; }
		case 'G': {
			size_t gi = (size_t)strtoull(tok + 1, NULL, 10);
			void *p = viaj || !jmode ? get(gi) : array_list_get_idx(al, gi);
			if (p) snprintf(rbuf, sizeof rbuf, "%ld", id_of(p)); else strcpy(rbuf, "n");
			obs(rbuf);
			continue; }
		case 'B': case 'C': case 'K': case 'Q': {
			/* B C: the key has the shape of a member; K Q: the key is a bare int */
			int hetero = (up == 'K' || up == 'Q'), desc = (up == 'C' || up == 'Q');
			int (*cmp)(const void *, const void *) =
				hetero ? (desc ? cmp_km_desc : cmp_km) : (desc ? cmp_mm_desc : cmp_mm);
			struct box keybox;
			void *k, *hit = NULL;
			int found;
			if (!hetero)
				k = mkelt(tok + 1);
			else if (jmode) {
				size_t keep = xa_limit;
				xa_limit = 0;
				k = json_object_new_int64(strtol(tok + 1, NULL, 10));
				xa_limit = keep;
			} else {
				keybox.id = strtol(tok + 1, NULL, 10); keybox.tag = KEYTAG;
				k = &keybox;
			}
			cur_key = k;
			slots_lo = al->array; slots_hi = al->array + al->length;
			if (k == NULL) cur_key = NULL;       /* a NULL key has no identity to check */
			if (viaj) {
				hit = json_object_array_bsearch((struct json_object *)k, jarr, cmp);
				found = hit != NULL;
			} else {
				void **slot = (void **)array_list_bsearch((const void **)&k, al, cmp);
				found = slot != NULL;
				if (slot) hit = *slot;
			}
			cur_key = NULL;
			if (!hetero) {
				drop(k);
				strcpy(rbuf, found ? "f" : "nf");
			} else {
				if (jmode) json_object_put((struct json_object *)k);
				/* what was found, by its value: it must carry the key's id */
				if (!found) strcpy(rbuf, "nf");
				else if (!hit) strcpy(rbuf, "fn");
				else snprintf(rbuf, sizeof rbuf, "f%ld", id_of(hit));
			}
			obs(rbuf);
			continue; }
		default: printf("BADOP"); goto out;
		}
		snprintf(rbuf, sizeof rbuf, "%d", r);
		obs(rbuf);
	}
	rel_n = 0;
	if (jmode) json_object_put(jarr); else array_list_free(arr);
	arr = NULL; jarr = NULL;
	printf(" | F ");
	put_ids();
out:
	if (jarr) json_object_put(jarr);
	if (arr) array_list_free(arr);
	if (live_elts != 0) printf(" | LEAK %ld", live_elts);
	if (xa_live != 0) printf(" | XLEAK %ld", xa_live);
}
