/* jvtext.h — the textual tree format shared by all drivers (see ocaml/jvtext.ml):
 *   n | t | f | i<dec> | u<dec> | d<16hex>[:<hextext>] | s<hex|-> | [v,v,…] | {<hexkey|->=v,…}
 * jv_parse builds the tree through the public API; jv_dump prints the typed dump. */
#ifndef VERIF_JVTEXT_H
#define VERIF_JVTEXT_H
#include "common.h"
#include "json.h"
#include "json_object_private.h"

static unsigned char *jv_hexordash(const char **p, size_t *len)
{
	const char *s = *p;
	size_t n = 0, i;
	unsigned char *b;
	if (*s == '-') { *p = s + 1; *len = 0; b = (unsigned char *)malloc(1); b[0] = 0; return b; }
	while (hexval(s[n]) >= 0 && !(s[n] >= 'A' && s[n] <= 'F')) n++;
	n /= 2;
	b = (unsigned char *)malloc(n + 1);
	for (i = 0; i < n; i++) b[i] = (unsigned char)(hexval(s[2 * i]) * 16 + hexval(s[2 * i + 1]));
	b[n] = 0;
	*len = n;
	*p = s + 2 * n;
	return b;
}

/* returns NULL for 'n' (JSON null is the NULL pointer); *err set on malformed text or
 * allocation failure */
static struct json_object *jv_parse(const char **p, int *err)
{
	char c = *(*p)++;
	switch (c) {
	case 'n': return NULL;
	case 't': return json_object_new_boolean(1);
	case 'f': return json_object_new_boolean(0);
	case 'i': { char *e; long long v = strtoll(*p, &e, 10); *p = e; return json_object_new_int64(v); }
	case 'u': { char *e; unsigned long long v = strtoull(*p, &e, 10); *p = e; return json_object_new_uint64(v); }
	case 'd': {
		char h[17]; uint64_t bits; double d; struct json_object *o;
		memcpy(h, *p, 16); h[16] = 0; *p += 16;
		bits = strtoull(h, NULL, 16); memcpy(&d, &bits, 8);
		if (**p == ':') {
			size_t n; unsigned char *t; (*p)++;
			t = jv_hexordash(p, &n);
			o = json_object_new_double_s(d, (char *)t);
			free(t);
			return o;
		}
		return json_object_new_double(d);
	}
	case 's': { size_t n; unsigned char *b = jv_hexordash(p, &n);
		struct json_object *o = json_object_new_string_len((char *)b, (int)n); free(b); return o; }
	case '[': {
		struct json_object *a = json_object_new_array();
		if (**p == ']') { (*p)++; return a; }
		for (;;) {
			struct json_object *v = jv_parse(p, err);
			if (a && json_object_array_add(a, v) != 0) { *err = 1; json_object_put(v); }
			if (**p == ',') { (*p)++; continue; }
			if (**p == ']') { (*p)++; return a; }
			*err = 2; return a;
		}
	}
	case '{': {
		struct json_object *o = json_object_new_object();
		if (**p == '}') { (*p)++; return o; }
		for (;;) {
			size_t n; unsigned char *k = jv_hexordash(p, &n);
			struct json_object *v;
			if (**p != '=') { *err = 2; free(k); return o; }
			(*p)++;
			v = jv_parse(p, err);
			if (o && json_object_object_add(o, (char *)k, v) != 0) { *err = 1; json_object_put(v); }
			free(k);
			if (**p == ',') { (*p)++; continue; }
			if (**p == '}') { (*p)++; return o; }
			*err = 2; return o;
		}
	}
	default: *err = 2; return NULL;
	}
}

static void jv_dump(struct json_object *o)
{
	if (!o) { putchar('n'); return; }
	switch (json_object_get_type(o)) {
	case json_type_null: putchar('n'); break;
	case json_type_boolean: putchar(json_object_get_boolean(o) ? 't' : 'f'); break;
	case json_type_int: {
		struct json_object_int *ji = (struct json_object_int *)o;
		if (ji->cint_type == json_object_int_type_int64) printf("i%lld", (long long)ji->cint.c_int64);
		else printf("u%llu", (unsigned long long)ji->cint.c_uint64);
		break; }
	case json_type_double: {
		double d = json_object_get_double(o); uint64_t bits; memcpy(&bits, &d, 8);
		if (d != d) bits = 0x7ff8000000000000ull;   /* collapse NaN payloads */
		printf("d%016llx", (unsigned long long)bits);
		if (o->_userdata && o->_user_delete == json_object_free_userdata) {   /* json_object_new_double_s */
			putchar(':'); puthex((unsigned char *)o->_userdata, strlen((char *)o->_userdata));
		}
		break; }
	case json_type_string:
		putchar('s'); puthex((const unsigned char *)json_object_get_string(o), (size_t)json_object_get_string_len(o)); break;
	case json_type_array: {
		size_t i, n = json_object_array_length(o);
		putchar('[');
		for (i = 0; i < n; i++) { if (i) putchar(','); jv_dump(json_object_array_get_idx(o, i)); }
		putchar(']'); break; }
	case json_type_object: {
		struct lh_entry *e; int first = 1;
		putchar('{');
		for (e = json_object_get_object(o)->head; e; e = e->next) {
			if (!first) putchar(',');
			first = 0;
			puthex((const unsigned char *)lh_entry_k(e), strlen((const char *)lh_entry_k(e)));
			putchar('='); jv_dump((struct json_object *)lh_entry_v(e));
		}
		putchar('}'); break; }
	}
}
#endif
