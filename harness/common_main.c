/* common_main.c — reads the script, dispatches the lines of this driver's domain. */
#include "common.h"
#include <unistd.h>
int main(int argc, char **argv)
{
	FILE *f = argc > 1 ? fopen(argv[1], "r") : stdin;
	char *line = NULL;
	size_t cap = 0;
	long n = 0;
	ssize_t got;
	size_t dl = strlen(DOMAIN);
	setvbuf(stdout, NULL, _IOLBF, 0);
	if (!f) { perror("script"); return 2; }
	while ((got = getline(&line, &cap, f)) >= 0) {
		n++;
		while (got > 0 && (line[got - 1] == '\n' || line[got - 1] == '\r')) line[--got] = 0;
		if (got == 0 || line[0] == '#') continue;
		if (strncmp(line, DOMAIN, dl) != 0 || (line[dl] != ' ' && line[dl] != 0)) {
			printf("%ld NODOMAIN\n", n);
			continue;
		}
		printf("%ld ", n);
		fflush(stdout);
		run_case(line[dl] ? line + dl + 1 : line + dl);
		printf("\n");
	}
	free(line);
	return 0;
}
