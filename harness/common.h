/* common.h — shared glue of the implementation drivers: script reading, hex, errno
 * names, allocator control.  Each driver defines  void run_case(char *rest)  which
 * prints the observation (no newline); main() in common_main.c prints "<lineno> ". */
#ifndef VERIF_COMMON_H
#define VERIF_COMMON_H
#include <errno.h>
#include <limits.h>
#include <stdint.h>
#include <stdio.h>
#include <stdlib.h>
#include <string.h>

/* allocator control (xalloc.c) */
extern long xa_fail_at;      /* fail the allocation with this 0-based index; -1 = never */
extern long xa_count;        /* allocations requested so far (malloc/calloc/realloc/strdup) */
extern long xa_live;         /* live blocks */
extern size_t xa_limit;      /* requests above this size fail; 0 = no limit */
extern int xa_failed;        /* set when a fault was injected */
void xa_reset(void);

static inline int hexval(int c)
{
	if (c >= '0' && c <= '9') return c - '0';
	if (c >= 'a' && c <= 'f') return c - 'a' + 10;
	if (c >= 'A' && c <= 'F') return c - 'A' + 10;
	return -1;
}
/* decode hex ("-" = empty) into a fresh exact-size heap buffer (so ASan sees overreads) */
static inline unsigned char *unhex(const char *s, size_t *len)
{
	size_t n = (s[0] == '-') ? 0 : strlen(s) / 2, i;
	unsigned char *b = (unsigned char *)(malloc)(n ? n : 1);
	for (i = 0; i < n; i++) b[i] = (unsigned char)(hexval(s[2 * i]) * 16 + hexval(s[2 * i + 1]));
	*len = n;
	return b;
}
static inline void puthex(const unsigned char *b, size_t n)
{
	size_t i;
	if (n == 0) { putchar('-'); return; }
	for (i = 0; i < n; i++) printf("%02x", b[i]);
}
static inline const char *errno_name(int e)
{
	switch (e) {
	case 0: return "0";
	case EFBIG: return "EFBIG";
	case ENOMEM: return "ENOMEM";
	case EINVAL: return "EINVAL";
	case ENOENT: return "ENOENT";
	case ERANGE: return "ERANGE";
	case ENOSPC: return "ENOSPC";
	default: return "EOTHER";
	}
}
void run_case(char *rest);
extern const char *DOMAIN;
#endif
